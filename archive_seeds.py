#!/usr/bin/env python3
"""Copy confirmed seeded changes from the scratch worktrees into /verif/seeded/<id>/ (patch.diff, demo files, meta.json)."""
import json, shutil, sys
from pathlib import Path
out = Path("/verif/seeded")
import os
BASE = os.environ.get("SEED_BASE", "9c75944 (/repo HEAD with the fix: commits)")
out.mkdir(exist_ok=True)
for pid in sys.argv[1:]:
    for ch in sorted(Path(f'/tmp/wt/{pid}/_seed').glob('change*')):
        conf = ch / 'confirm.json'
        if not conf.exists():
            print(pid, ch.name, 'no confirm.json'); continue
        c = json.loads(conf.read_text())
        if not c['confirmed']:
            print(pid, ch.name, 'NOT confirmed'); continue
        m = json.loads((ch / 'meta.json').read_text())
        name = f"{pid}-{ch.name[-1]}"
        d = out / name
        if d.exists():
            shutil.rmtree(d)
        d.mkdir()
        for f in ch.iterdir():
            if f.name in ('confirm.json', 'meta.json') or f.name == '__pycache__':
                continue
            if f.is_dir():
                shutil.copytree(f, d / f.name, ignore=shutil.ignore_patterns('__pycache__'))
            else:
                shutil.copy(f, d / f.name)
        meta = {
            "property": pid.split('-')[-1],
            **({"round": int(pid[1])} if pid[0] == 'R' and pid[1].isdigit() else {}),
            "source": "independent sub-agent given only the property text and a scratch worktree (nothing from /verif)",
            "summary": m.get("summary"),
            "why_it_breaks": m.get("why_it_breaks"),
            "needs_to_manifest": m.get("needs_to_manifest"),
            "base_commit": m.get("base_commit_override") or BASE,
            "demo_cmd_in_worktree": m.get("demo_cmd"),
            "confirmed_by_me": {
                "what_i_ran": "python3 /verif/confirm_seeds.py " + pid + "  (scratch worktree /tmp/wt/" + pid + ": demo on clean tree, git apply patch.diff, demo again, full pytest suite with --junitxml compared with BASELINE.stable_pass, git checkout)",
                "demo_rc_clean": c["demo_rc_clean"], "demo_rc_patched": c["demo_rc_patched"], "suite_summary_patched": c["suite_summary_patched"],
                "baseline_stable_tests_not_passing": c["baseline_stable_tests_not_passing"],
            },
        }
        (d / 'meta.json').write_text(json.dumps(meta, indent=1))
        print('archived', name)
