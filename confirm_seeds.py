#!/usr/bin/env python3
"""Confirm seeded changes in their scratch worktrees: demo passes clean, fails patched; suite passes patched.
usage: confirm_seeds.py C01 C02 ...   (writes <wt>/_seed/changeN/confirm.json)"""
import json, subprocess, sys, os, re, xml.etree.ElementTree as ET
from pathlib import Path

BASE = json.load(open('/root/.vp/BASELINE.json'))

def sh(cmd, cwd, timeout=900):
    try:
        r = subprocess.run(cmd, shell=True, cwd=cwd, capture_output=True, text=True, timeout=timeout)
        return r.returncode, (r.stdout + r.stderr)[-1500:]
    except subprocess.TimeoutExpired:
        return 124, "TIMEOUT"

def reap(wt):
    """kill job processes leaked by a demo / suite run of this worktree (matched through /proc, never through a shell pattern)"""
    import signal
    pat = str(wt / '_tmp')
    for d in os.listdir('/proc'):
        if d.isdigit() and int(d) != os.getpid():
            try:
                cl = open(f'/proc/{d}/cmdline', 'rb').read().decode(errors='ignore')
                if pat in cl and 'confirm_seeds' not in cl:
                    os.kill(int(d), signal.SIGKILL)
            except Exception:
                pass


for pid in sys.argv[1:]:
    wt = Path(f'/tmp/wt/{pid}')
    for ch in sorted((wt / '_seed').glob('change*')):
        meta = json.loads((ch / 'meta.json').read_text())
        cmd = meta['demo_cmd']
        for cut in (' ; echo exit', '   (', ' (then', ' ; pkill', ';pkill', ' ; then', '; then'):
            if cut in cmd:
                cmd = cmd[:cmd.index(cut)]
        (wt / '_tmp').mkdir(exist_ok=True)
        sh('git checkout -q -- src', wt)
        rc_clean, out_clean = sh(cmd, wt, 300)
        rc_apply, out_apply = sh(f'git apply {ch}/patch.diff', wt)
        rc_pat, out_pat = sh(cmd, wt, 300)
        reap(wt)
        junit = f'/tmp/wt/_junit_{pid}_{ch.name}.xml'
        rc_suite, out_suite = sh(f'PYTHONPATH={wt}/src /venv/bin/python -m pytest -q -p no:cacheprovider --timeout=900 --continue-on-collection-errors --junitxml={junit}', wt, 1200)
        missing = None
        try:
            res = {}
            for tc in ET.parse(junit).iter('testcase'):
                res[tc.get('classname') + '::' + tc.get('name')] = not any(c.tag in ('failure', 'error', 'skipped') for c in tc)
            missing = [n for n in BASE['stable_pass'] if not res.get(n)]
            os.remove(junit)
        except Exception as e:
            missing = [f'junit error {e}']
        sh('git checkout -q -- src', wt)
        summ = [l for l in out_suite.splitlines() if ' passed' in l or ' failed' in l][-1:] 
        conf = {"demo_cmd": cmd, "demo_rc_clean": rc_clean, "patch_applies": rc_apply == 0, "demo_rc_patched": rc_pat,
                "suite_summary_patched": summ[0] if summ else out_suite[-200:], "baseline_stable_tests_not_passing": missing,
                "confirmed": rc_clean == 0 and rc_apply == 0 and rc_pat != 0 and missing == []}
        (ch / 'confirm.json').write_text(json.dumps(conf, indent=1))
        print(pid, ch.name, 'CONFIRMED' if conf['confirmed'] else 'NOT-CONFIRMED', rc_clean, rc_pat, conf['suite_summary_patched'], missing)
