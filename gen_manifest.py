#!/usr/bin/env python3
"""Regenerates MANIFEST.json from the rule modules that exist (python3 gen_manifest.py)."""
import importlib
import json
import sys
from pathlib import Path

HERE = Path(__file__).resolve().parent
sys.path.insert(0, str(HERE))

INFO = {
    "C01": ("A3/A2/A7: taint of hasher inputs, canonical-order classification of hash-feeding loops, who-may-write + dominance on the identifier cache, extracted byte-stream model vs pinned model, read-set of Job path properties",
            "decides: no nondeterministic source, canonical iteration order, cache legitimacy, wire format = pinned model, defaults cloned. Not decided: equality with identifiers actually stored by earlier releases (only the encoding model), third-party __eq__"),
    "C02": ("A1 decision table of the argument loop over all consistent atom assignments (3-valued path walk), read-set frame condition, container filter shape, declaration tables",
            "decides: frame condition, argument-loop rule (direction: nothing outside the signature is hashed), container filtering, declaration tables. Not decided: reflexivity of user __eq__"),
    "C03": ("A7/A8: structural checks on the extracted byte-stream grammar (tags, lossless payloads, length prefixes, ordering, FIRST/FOLLOW framing) + decision table (direction: everything in the signature is hashed)",
            "decides the framing discipline, a necessary condition of injectivity; SHA-256 treated as opaque; depth-2 dict injectivity under union typing not proved"),
    "C04": ("A2 dominance / must-pass-through on aio_submit, aio_start, submit; A3 who-may-call; A1 tables (status mapping, counter arithmetic over all status pairs); A4 walker table of updatedependencies",
            "decides launch gating, who sets ready, status mapping, registration order, collection completeness, counter arithmetic. Not decided: cross-thread check() calls, real interleavings"),
    "C05": ("A1 table of aio_registerJob; A2 must-pass-through of the success-marker test after every await before the start loop; dominance of lock acquisition over marker read over body in TaskRunner.run; A3 marker writers",
            "decides registry de-duplication, marker short-circuit, lock-then-test-then-run ordering on both sides. Not decided: mutual exclusion of fasteners, really concurrent schedulers"),
    "C06": ("A5 may-set typestate of Job.state with await-atomicity and writer summaries; A6 counter pairing by path enumeration of aio_registerJob and dominance in aio_submit; A1 exit-code mapping",
            "decides absorbing final states (under the stated assume-guarantee), truthful mapping, counter pairing, waiters, no lost wake-up after an aborted start. Not decided: liveness, exception exits"),
    "C07": ("A1 table of the cancellation block + frame condition (write set), A2 propagation to dependents on every live exit, A1 reporting conditions; shares C04.R1/R3 and C06.R1/R3",
            "decides cancellation block, containment (only self written), propagation, reporting. Not decided: all completion orders at run time"),
    "C08": ("A2 critical-section containment and dominance in acquire, unconditional recount in _update (must-pass-through), A3 writers of holdings, lexical+CFG containment in aio_start",
            "decides the induction step only (each operation preserves sum <= total). Not decided: fasteners as cross-process mutex, observer races, all interleavings"),
    "C09": ("A6 ownership of acquired locks by `with Locks()`, must-pass-through of notify after restore, pairing of foreign holdings with watch(), lexical exception-escape analysis of watchdog handlers, call-graph existence of the wake-up path",
            "decides release pairing and unconditional notification, watcher pairing, observer-thread survival (explicit raises). Not decided: 'eventually' (liveness), scheduler death between token take and file write"),
    "C10": ("A2 dominance on the CFG of TaskRunner.run with explicit SystemExit edges, ordering in handle_error / cleanup, parameter-guard check of the atexit unregistration (typestate of the cleanup registration)",
            "decides ordering constraints only (marker after body, failure marker before cleanup, cleanup stays registered on success, pid removal first). Not decided: the crash-point quantifier itself"),
}

DEFAULT_LEVEL = "static analysis of the current source tree (no execution): the named structural clauses are decided for all paths / all assignments of their atoms; they are necessary conditions of the property, not the run-time behaviour itself"


def main():
    props = [json.loads(l) for l in open(HERE / "properties.jsonl")]
    extra = {}
    try:
        extra = json.loads((HERE / "manifest_info.json").read_text())
    except FileNotFoundError:
        pass
    info = dict(INFO)
    info.update({k: tuple(v) for k, v in extra.items()})
    checks, na = [], []
    for p in props:
        pid = p["id"]
        try:
            mod = importlib.import_module(f"sa.props.{pid.lower()}")
        except ModuleNotFoundError:
            na.append({"property_id": pid, "reason": "rules for this property are not built yet in this session (see DESIGN.md section 4 for the planned clauses)"})
            continue
        tech, note = info.get(pid, ("custom AST/CFG rules", ""))
        rules = "; ".join(f"{rid}: {text}" for rid, text, _ in mod.RULES)
        checks.append({
            "property_id": pid,
            "quick_cmd": f"./vf check {pid} --tier quick",
            "thorough_cmd": f"./vf check {pid} --tier thorough",
            "evidence_file": f"evidence/{pid}.json",
            "replay_cmd_template": "./vf replay {path}",
            "engine": "sa",
            "level_claimed": {
                "category": "other",
                "text": DEFAULT_LEVEL + ". Rules: " + rules,
                "design_ref": f"DESIGN.md section 4, {pid}",
            },
            "level_note": note + " Trusted base: CPython ast, the checker (/verif/sa), library semantics as modelled. Assumptions: " + " | ".join(getattr(mod, "ASSUMPTIONS", [])),
            "technique": "static analysis: " + tech,
        })
    m = {
        "version": 1,
        "setup_cmd": "true",
        "hooks": {
            "guard": "EXPERIMAESTRO_VERIF",
            "enable": "no instrumentation is needed: the checks only parse /repo/src/experimaestro; the guard names no source change",
            "baseline_off_cmd": "cd /repo && /venv/bin/python -m pytest -ra -q -p no:cacheprovider --timeout=900 --continue-on-collection-errors",
            "source_commits": [],
            "add_only": True,
        },
        "engines": [{
            "name": "sa",
            "path": "sa/",
            "serves_properties": [c["property_id"] for c in checks],
            "kind_free_text": "stdlib-only static analyser (ast): loader/symbol tables, statement CFG with short-circuit decomposition, dominators, reaching definitions, "
                              "rename-independent canonicalisation, 3-valued decision-table walker, typestate over Job.state, byte-stream model extraction",
        }],
        "checks": checks,
        "notes": "Every check parses /repo's working tree on each run (VERIF_REPO overrides the root for scratch copies). Exit 0 = all rule instances hold; exit 1 + VIOLATION line = a "
                 "rule instance is violated and not listed in known_findings.json; exit 2 + ANALYSIS-ERROR = the analysis met a shape it does not model (never a silent pass). "
                 "A violation listed in known_findings.json (`known`: genuine defects recorded, not repaired) is printed as KNOWN-FINDING and does not change the exit status. Thorough tier additionally runs the self-test (the archived seeded breaking changes of the property, each applied to a scratch copy of the tree it applies to: /repo's working tree, or the commit of /repo's history it was written for, with the findings of that unpatched commit subtracted) and a mutation-sensitivity run over the functions the rules consult; both are recorded in evidence/selftest-<id>.json and evidence/mutation-<id>.json and never change the exit status.",
        "not_applicable": na,
    }
    (HERE / "MANIFEST.json").write_text(json.dumps(m, indent=1))
    print(f"claimed {len(checks)}, not_applicable {len(na)}")


if __name__ == "__main__":
    main()
