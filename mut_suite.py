#!/usr/bin/env python3
"""Which surviving mutants (./vf mutate --out F) also pass the repository's test suite?  Those are the real candidates
for a missing rule (the others are not 'changes that compile and pass the existing tests').

usage: mut_suite.py <mutation.json> <out.json> [--jobs N] [--funcs key,key] [--limit N]
Each worker owns one scratch copy of /repo (outside /repo and /verif, removed at the end), writes the mutated module,
runs the suite with -x (stop at first failure) and restores the module."""
import ast, json, os, shutil, subprocess, sys, tempfile, time
from concurrent.futures import ProcessPoolExecutor
from pathlib import Path

sys.path.insert(0, '/verif')
STABLE = None


def stable():
    global STABLE
    if STABLE is None:
        STABLE = set(json.load(open('/root/.vp/BASELINE.json'))['stable_pass'])
    return STABLE


_scratch = None


def scratch():
    global _scratch
    if _scratch is None:
        _scratch = Path(tempfile.mkdtemp(prefix='vfms-'))
        shutil.copytree('/repo', _scratch / 'repo', ignore=shutil.ignore_patterns('.git', '__pycache__', 'node_modules', 'docs', 'app'))
    return _scratch / 'repo'


def one(rec):
    from sa.mutate import apply_mutation, find_fn
    from sa.loader import Tree
    root = scratch()
    modname, qual = rec['func'].split(':', 1)
    rel = 'src/experimaestro/' + modname.replace('.', '/') + '.py'
    p = root / rel
    if not p.exists():
        p = root / ('src/experimaestro/' + modname.replace('.', '/') + '/__init__.py')
    orig = Path('/repo') / p.relative_to(root)
    text = orig.read_text()
    tree = ast.parse(text)
    fn = find_fn(tree, qual)
    newsrc, desc, line = apply_mutation(text, tree, fn, rec['idx'])
    p.write_text(newsrc)
    t0 = time.time()
    junit = root / 'junit.xml'
    env = dict(os.environ, PYTHONPATH=str(root / 'src'), TMPDIR=str(root.parent))
    def run(extra):
        try:
            r = subprocess.run(['/venv/bin/python', '-m', 'pytest', '-q', '-p', 'no:cacheprovider', '--timeout=300', f'--junitxml={junit}'] + extra, cwd=root, env=env,
                               capture_output=True, text=True, timeout=900)
            tail, code = (r.stdout.strip().splitlines() or [''])[-1], r.returncode
        except subprocess.TimeoutExpired:
            tail, code = 'TIMEOUT', 124
        failed = []
        if code not in (0, 124) and junit.exists():
            import xml.etree.ElementTree as ET
            try:
                for tc in ET.parse(junit).getroot().iter('testcase'):
                    if any(ch.tag in ('failure', 'error') for ch in tc):
                        failed.append(f"{tc.get('classname')}::{tc.get('name')}")
            except Exception:
                pass
        return tail, code, failed

    try:
        tail, code, failed = run(['-x'])
        is_stable = lambda f: f in stable() or f.split('[')[0] in stable()
        if code not in (0, 124) and failed and not any(is_stable(f) for f in failed):
            # stopped at a test that is not in the stable baseline: run everything
            tail, code, failed = run([])
    finally:
        p.write_text(text)
    stable_failed = [f for f in failed if is_stable(f)]
    passes = code == 0 or (code == 1 and failed and not any(x.startswith('::') for x in failed) and not stable_failed)
    return dict(rec, suite_exit=code, suite_tail=tail[-120:], failed=failed[:3], passes_suite=bool(passes), wall=round(time.time() - t0, 1))


def cleanup(_=None):
    if _scratch is not None:
        shutil.rmtree(_scratch, ignore_errors=True)
    return True


if __name__ == '__main__':
    src_, out = sys.argv[1], sys.argv[2]
    jobs = int(sys.argv[sys.argv.index('--jobs') + 1]) if '--jobs' in sys.argv else 6
    funcs = set(sys.argv[sys.argv.index('--funcs') + 1].split(',')) if '--funcs' in sys.argv else None
    limit = int(sys.argv[sys.argv.index('--limit') + 1]) if '--limit' in sys.argv else None
    surv = json.load(open(src_))['survivors']
    if funcs:
        surv = [r for r in surv if r['func'] in funcs]
    if limit:
        surv = surv[:limit]
    res = []
    if os.path.exists(out):
        # resume: keep what was already decided
        res = json.load(open(out))
        done = {(r['func'], r['idx']) for r in res}
        surv = [r for r in surv if (r['func'], r['idx']) not in done]
    with ProcessPoolExecutor(jobs) as ex:
        for r in ex.map(one, surv):
            res.append(r)
            print(('PASS ' if r['passes_suite'] else 'fail ') + f"{r['func']} L{r['line']} {r['desc'][:90]}  [{r['suite_tail'][:60]}]", flush=True)
            json.dump(res, open(out, 'w'), indent=1)
        list(ex.map(cleanup, range(jobs * 3)))
    print(f"{sum(r['passes_suite'] for r in res)} of {len(res)} surviving mutants also pass the suite")
