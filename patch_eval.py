#!/usr/bin/env python3
"""Run every check against scratch copies of /repo's tree with each given patch applied.
usage: patch_eval.py <patch.diff>...   prints one line per patch: the checks that do not exit 0 (with the rules that fired)"""
import json, os, shutil, subprocess, sys, tempfile, io, contextlib
from concurrent.futures import ProcessPoolExecutor
from pathlib import Path
sys.path.insert(0, '/verif')
PIDS = [f"C{i:02d}" for i in range(1, 21)]

def one(patch):
    from sa.cli import run_check
    from sa.loader import Tree
    tmp = Path(tempfile.mkdtemp(prefix='vfpe-'))
    try:
        shutil.copytree('/repo/src/experimaestro', tmp / 'src' / 'experimaestro', ignore=shutil.ignore_patterns('__pycache__', 'node_modules'))
        r = subprocess.run(['patch', '-p1', '-s', '--no-backup-if-mismatch', '-i', patch], cwd=tmp, capture_output=True, text=True)
        if r.returncode:
            return patch, None
        os.environ['VERIF_REPO'] = str(tmp)
        try:
            tree = Tree(tmp)
        except Exception as e:
            return patch, {"loader": (2, [str(e)[:100]], [])}
        row = {}
        for pid in PIDS:
            buf = io.StringIO()
            with contextlib.redirect_stdout(buf):
                chk, code = run_check(pid, 'quick', 0, write=False, tree=tree, quiet=True)
            if code:
                row[pid] = (code, sorted({f.rule for f in chk.findings}) or ['undecided'], [f"{f.rule} {f.key}" for f in chk.findings][:4] + [u['rule'] + ' UNDECIDED ' + u['message'][:100] for u in chk.undecided][:3])
        return patch, row
    finally:
        shutil.rmtree(tmp, ignore_errors=True)

if __name__ == '__main__':
    patches = sys.argv[1:]
    verbose = os.environ.get('V')
    with ProcessPoolExecutor(int(os.environ.get("PE_JOBS", "16"))) as ex:
        for patch, row in ex.map(one, patches):
            name = '/'.join(Path(patch).parts[-3:])
            if row is None:
                print('NOAPPLY', name); continue
            if not row:
                print('quiet  ', name); continue
            print('ALARM  ', name, ' '.join(f"{k}{'!' if v[0]==2 else ''}[{','.join(r.split('.')[-1] for r in v[1])}]" for k, v in row.items()))
            if verbose:
                for k, v in row.items():
                    for d in v[2]:
                        print('         ', d[:220])
