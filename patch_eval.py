#!/usr/bin/env python3
"""Run every check against scratch copies of /repo's tree with each given patch applied.
usage: patch_eval.py [<patch.diff>...]   (default: the 252 archived behaviour-preserving patches of seeded/bp) prints one line per patch: the checks that do not exit 0 (with the rules that fired)"""
import json, os, shutil, subprocess, sys, tempfile, io, contextlib
from concurrent.futures import ProcessPoolExecutor
from pathlib import Path
sys.path.insert(0, '/verif')
PIDS = [f"C{i:02d}" for i in range(1, 21)]

OLD_BASES = ['f4e073b', '9c75944']   # trees the behaviour-preserving patch sets were written against (BPE; BP..BPD), oldest last


def old_base(commit):
    """(directory, findings of every check on it): patches that no longer apply to /repo's HEAD are measured against the tree they were
    written for, and only findings that the unpatched old tree does not have count (that tree has the defects fixed since)"""
    base_dir = Path('/tmp/vfpe-base-' + commit)
    if not (base_dir / 'src').exists():
        base_dir.mkdir(parents=True, exist_ok=True)
        subprocess.run(f'git -C /repo archive {commit} src/experimaestro | tar -x -C {base_dir}', shell=True, check=True)
    cache = base_dir / 'baseline.json'
    import hashlib
    digest = hashlib.sha1(b''.join(Path(f).read_bytes() for f in sorted(map(str, Path('/verif/sa').rglob('*.py'))) + sorted(map(str, Path('/verif/spec').glob('*.json'))))).hexdigest()
    if cache.exists():
        d = json.loads(cache.read_text())
        if d.get('digest') == digest:
            return base_dir, {k: set(v) for k, v in d['keys'].items()}
    _, keys = evaluate(base_dir)
    cache.write_text(json.dumps({'digest': digest, 'keys': {k: sorted(v) for k, v in keys.items()}}))
    return base_dir, keys


def evaluate(root, baseline=None):
    from sa.cli import run_check
    from sa.loader import Tree
    os.environ['VERIF_REPO'] = str(root)
    try:
        tree = Tree(root)
    except Exception as e:
        return {"loader": (2, [str(e)[:100]], [])}, {}
    row, keys = {}, {}
    for pid in PIDS:
        buf = io.StringIO()
        with contextlib.redirect_stdout(buf):
            chk, code = run_check(pid, 'quick', 0, write=False, tree=tree, quiet=True)
        ks = {f"{f.rule} {f.key}" for f in chk.findings} | {u['rule'] + ' UNDECIDED ' + u['message'][:100] for u in chk.undecided}
        keys[pid] = ks
        new = ks - (baseline or {}).get(pid, set())
        if code and new:
            rules = sorted({k.split(' ')[0] for k in new})
            row[pid] = (2 if all(' UNDECIDED ' in k for k in new) else 1, rules, sorted(new)[:6])
    return row, keys


def one(patch):
    tmp = Path(tempfile.mkdtemp(prefix='vfpe-'))
    try:
        shutil.copytree('/repo/src/experimaestro', tmp / 'src' / 'experimaestro', ignore=shutil.ignore_patterns('__pycache__', 'node_modules'))
        r = subprocess.run(['patch', '-p1', '-s', '--no-backup-if-mismatch', '-i', patch], cwd=tmp, capture_output=True, text=True)
        if r.returncode:
            if os.environ.get('PE_NO_OLD_BASE'):
                return patch, None
            for commit in OLD_BASES:
                base, baseline = old_base(commit)
                shutil.rmtree(tmp / 'src')
                shutil.copytree(base / 'src', tmp / 'src')
                r = subprocess.run(['patch', '-p1', '-s', '--no-backup-if-mismatch', '-i', patch], cwd=tmp, capture_output=True, text=True)
                if r.returncode == 0:
                    row, _ = evaluate(tmp, baseline)
                    return patch, row
            return patch, None
        row, _ = evaluate(tmp)
        return patch, row
    finally:
        shutil.rmtree(tmp, ignore_errors=True)

if __name__ == '__main__':
    patches = sys.argv[1:] or sorted(str(p) for p in Path('/verif/seeded/bp').glob('*/patch*.diff'))
    verbose = os.environ.get('V')
    with ProcessPoolExecutor(int(os.environ.get("PE_JOBS", "16"))) as ex:
        for patch, row in ex.map(one, patches):
            name = '/'.join(Path(patch).parts[-3:])
            if row is None:
                print('NOAPPLY', name); continue
            if not row:
                print('quiet  ', name); continue
            print('ALARM  ', name, ' '.join(f"{k}{'!' if v[0]==2 else ''}[{','.join(r.split('.')[-1] for r in v[1])}]" for k, v in row.items()))
            if verbose:
                for k, v in row.items():
                    for d in v[2]:
                        print('         ', d[:220])
