#!/usr/bin/env python3
"""Unbiased detection measurement on a round of seeded changes still in their worktrees: r3_eval.py <prefix e.g. R3>"""
import sys, glob, re
from concurrent.futures import ProcessPoolExecutor
sys.path.insert(0, '/verif')
from patch_eval import one
prefix = sys.argv[1]
patches = sorted(glob.glob(f'/tmp/wt/{prefix}-C*/_seed/change*/patch.diff'))
own = anyc = 0
with ProcessPoolExecutor(12) as ex:
    for patch, row in ex.map(one, patches):
        m = re.search(rf'{prefix}-(C\d\d)/_seed/(change\d)', patch)
        pid, ch = m.group(1), m.group(2)
        if row is None:
            print('NOAPPLY', pid, ch); continue
        hit = {k: v for k, v in row.items() if v[0] == 1}
        und = {k: v for k, v in row.items() if v[0] == 2}
        o = pid in hit
        own += o; anyc += bool(hit)
        print(('OWN ' if o else ('ANY ' if hit else ('UND ' if und else 'MISS'))), pid, ch, ' '.join(f"{k}[{','.join(r.split('.')[-1] for r in v[1])}]" for k, v in hit.items()), ('undecided: ' + ','.join(und)) if und else '')
print(f'{own} of {len(patches)} reported by their own property, {anyc} by some check')
