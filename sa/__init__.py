"""Static-analysis checkers for experimaestro-python (properties C01-C20).

Stdlib only (ast).  See /verif/DESIGN.md.
"""
