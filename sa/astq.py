"""Small AST query helpers shared by all rules."""

from __future__ import annotations

import ast
from typing import Callable, Iterator, List, Optional, Tuple

FUNC_TYPES = (ast.FunctionDef, ast.AsyncFunctionDef)
SCOPE_TYPES = FUNC_TYPES + (ast.Lambda, ast.ClassDef)


def dotted(e) -> Optional[str]:
    """`a.b.c` for Name/Attribute chains, else None"""
    parts = []
    while isinstance(e, ast.Attribute):
        parts.append(e.attr)
        e = e.value
    if isinstance(e, ast.Name):
        parts.append(e.id)
        return ".".join(reversed(parts))
    return None


def call_name(c) -> Optional[str]:
    return dotted(c.func) if isinstance(c, ast.Call) else None


def last_attr(c) -> Optional[str]:
    """Final attribute/name of the callee of a call (`x.y().z(...)` -> `z`)"""
    if not isinstance(c, ast.Call):
        return None
    f = c.func
    if isinstance(f, ast.Attribute):
        return f.attr
    if isinstance(f, ast.Name):
        return f.id
    return None


def src(node) -> str:
    """Normalised source of a node (whitespace/quote/paren independent)"""
    try:
        return ast.unparse(node)
    except Exception:  # pragma: no cover
        return ast.dump(node)


def walk_local(node, include_root=True) -> Iterator[ast.AST]:
    """Walk `node` without entering nested function/lambda/class bodies (comprehensions are entered)"""
    stack = [node]
    first = True
    while stack:
        n = stack.pop()
        if not first and isinstance(n, SCOPE_TYPES):
            # the definition itself is visible (decorators, defaults are ignored), the body is not
            yield n
            continue
        if include_root or not first:
            yield n
        first = False
        stack.extend(reversed(list(ast.iter_child_nodes(n))))


def body_walk(fn) -> Iterator[ast.AST]:
    """All nodes of a function's own body (not nested defs' bodies)"""
    for stmt in fn.body:
        if isinstance(stmt, SCOPE_TYPES):
            yield stmt  # the definition statement itself, not its body
            continue
        yield from walk_local(stmt)


def calls(node, pred: Optional[Callable[[ast.Call], bool]] = None, local=True) -> List[ast.Call]:
    it = walk_local(node) if local else ast.walk(node)
    return [n for n in it if isinstance(n, ast.Call) and (pred is None or pred(n))]


def fn_calls(fn, pred=None) -> List[ast.Call]:
    return [n for n in body_walk(fn) if isinstance(n, ast.Call) and (pred is None or pred(n))]


def enclosing_stmt(node) -> ast.stmt:
    p = node
    while p is not None and not isinstance(p, ast.stmt):
        p = getattr(p, "_parent", None)
    return p


def enclosing_func(node):
    p = getattr(node, "_parent", None)
    while p is not None and not isinstance(p, FUNC_TYPES + (ast.Lambda,)):
        p = getattr(p, "_parent", None)
    return p


def ancestors(node) -> Iterator[ast.AST]:
    p = getattr(node, "_parent", None)
    while p is not None:
        yield p
        p = getattr(p, "_parent", None)


def attr_stores(node) -> List[Tuple[ast.Attribute, Optional[ast.expr], ast.stmt]]:
    """(target attribute, value, statement) for every attribute store under `node` (local walk)"""
    out = []
    for n in walk_local(node):
        if isinstance(n, ast.Assign):
            for t in n.targets:
                for tt in _flatten_targets(t):
                    if isinstance(tt, ast.Attribute):
                        out.append((tt, n.value, n))
        elif isinstance(n, ast.AugAssign):
            if isinstance(n.target, ast.Attribute):
                out.append((n.target, n.value, n))
        elif isinstance(n, ast.AnnAssign):
            if isinstance(n.target, ast.Attribute) and n.value is not None:
                out.append((n.target, n.value, n))
    return out


def _flatten_targets(t):
    if isinstance(t, (ast.Tuple, ast.List)):
        for e in t.elts:
            yield from _flatten_targets(e)
    elif isinstance(t, ast.Starred):
        yield from _flatten_targets(t.value)
    else:
        yield t


def assigned_names(target) -> List[str]:
    return [t.id for t in _flatten_targets(target) if isinstance(t, ast.Name)]


def is_logging_call(c: ast.Call) -> bool:
    d = call_name(c) or ""
    head = d.split(".")[0]
    tail = d.split(".")[-1]
    return (head in ("logger", "logging", "hash_logger") or head.endswith("logger")) and tail in (
        "debug", "info", "warning", "error", "exception", "critical", "log", "warn", "isEnabledFor",
    )


def in_logging(node) -> bool:
    """True if `node` sits inside the arguments of a logging call"""
    for a in ancestors(node):
        if isinstance(a, ast.Call) and is_logging_call(a):
            return True
        if isinstance(a, ast.stmt):
            break
    return False


def const_value(e):
    if isinstance(e, ast.Constant):
        return e.value
    raise ValueError


def names_loaded(node) -> List[str]:
    return [n.id for n in walk_local(node) if isinstance(n, ast.Name) and isinstance(n.ctx, ast.Load)]


def contains(node, pred, local=True) -> bool:
    it = walk_local(node) if local else ast.walk(node)
    return any(pred(n) for n in it)


def norm_stmt(stmt) -> str:
    """One-line normalised text of a statement head (for construct keys; no line numbers)"""
    if isinstance(stmt, (ast.If, ast.While)):
        return f"{type(stmt).__name__.lower()} {src(stmt.test)}"
    if isinstance(stmt, (ast.For, ast.AsyncFor)):
        return f"for {src(stmt.target)} in {src(stmt.iter)}"
    if isinstance(stmt, (ast.With, ast.AsyncWith)):
        return "with " + ", ".join(src(i.context_expr) for i in stmt.items)
    if isinstance(stmt, ast.Try):
        return "try"
    if isinstance(stmt, FUNC_TYPES):
        return f"def {stmt.name}"
    s = src(stmt)
    return " ".join(s.split())[:160]


def ast_copy(node):
    """Deep copy of an AST restricted to its fields and positions (not the `_parent` links)"""
    if isinstance(node, list):
        return [ast_copy(x) for x in node]
    if not isinstance(node, ast.AST):
        return node
    new = node.__class__()
    for f in node._fields:
        if hasattr(node, f):
            setattr(new, f, ast_copy(getattr(node, f)))
    for a in ("lineno", "col_offset", "end_lineno", "end_col_offset"):
        if hasattr(node, a):
            setattr(new, a, getattr(node, a))
    return new


def tail(c) -> str:
    """Method / function name of a call (last attribute), '' if not a call"""
    return last_attr(c) or ""
