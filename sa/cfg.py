"""Statement-level control-flow graph with short-circuit decomposition of conditions.

Node kinds
  entry / exit / raise      function entry, normal exit, escaping-exception sink
  stmt                      a simple statement (also `def`/`class` statements, bodies not entered)
  test                      an *atomic* condition (and/or/not are decomposed); its two successors are
  branch                    pseudo-nodes carrying (test node, polarity) -- so that "the true edge of
                            test T dominates N" is plain node dominance
  for                       loop head of a for statement; successors are branch nodes with polarity
                            'loop' / 'done'
  with_enter / with_exit    context entry (one per item) and exit (one per route leaving the body)
  except                    entry of an exception handler
  join                      no-op (loop heads of while, exception routing)

Exceptions: explicit `raise` (and calls listed in `raising_calls`, and failing `assert`) are always
modelled.  Implicit exceptions are modelled only for nodes inside a `try` that has handlers (any
node containing a call, an await, a subscript or an unpacking may raise to those handlers).
`finally` bodies and `with` exits are on every route leaving their block (the body is duplicated
per route).
"""

from __future__ import annotations

import ast
from typing import Callable, Dict, Iterable, Iterator, List, Optional, Sequence, Set, Tuple

from .astq import FUNC_TYPES, SCOPE_TYPES, dotted, walk_local, src

BASE_ONLY = {"SystemExit", "KeyboardInterrupt", "GeneratorExit"}


def _constant_like(e) -> bool:
    if isinstance(e, ast.Constant):
        return True
    d = dotted(e)
    if d and "." in d:
        head, last = d.split(".")[0], d.split(".")[-1]
        return head[:1].isupper() and last.isupper()  # JobState.READY, RunMode.NORMAL, DependencyStatus.OK
    return False


def normalise_test(e):
    """Canonical positive form of an atomic test: (expression, flipped?).
    `a != b` -> `a == b` flipped; `is not` -> `is` flipped; `not in` -> `in` flipped; `a >= b` -> `a < b` flipped;
    `a > b` -> `b < a`; `a <= b` -> `b < a` flipped; constants on the right of == / is; bool(x) -> x."""
    flip = False
    if isinstance(e, ast.Call) and dotted(e.func) == "bool" and len(e.args) == 1 and not e.keywords:
        e2, f2 = normalise_test(e.args[0])
        return e2, f2
    if isinstance(e, ast.Compare) and len(e.ops) == 1:
        op, l, r = e.ops[0], e.left, e.comparators[0]
        new = None
        if isinstance(op, ast.NotEq):
            new, flip = (ast.Eq(), l, r), True
        elif isinstance(op, ast.IsNot):
            new, flip = (ast.Is(), l, r), True
        elif isinstance(op, ast.NotIn):
            new, flip = (ast.In(), l, r), True
        elif isinstance(op, ast.GtE):
            new, flip = (ast.Lt(), l, r), True
        elif isinstance(op, ast.Gt):
            new, flip = (ast.Lt(), r, l), False
        elif isinstance(op, ast.LtE):
            new, flip = (ast.Lt(), r, l), True
        elif isinstance(op, (ast.Eq, ast.Is)):
            new = (op, l, r)
        if new is not None:
            nop, nl, nr = new
            if isinstance(nop, (ast.Eq, ast.Is)) and _constant_like(nl) and not _constant_like(nr):
                nl, nr = nr, nl
            if nop is op and nl is l and nr is r:
                return e, False
            c = ast.Compare(left=nl, ops=[nop], comparators=[nr])
            ast.copy_location(c, e)
            if hasattr(e, "_parent"):
                c._parent = e._parent  # rules that look at the lexical context of a test keep working on the canonical form
            return c, flip
    return e, False


def P(text: str, pol=True):
    """Canonical (text, polarity) pair of a guard written as source text in a rule"""
    e = ast.parse(text, mode="eval").body
    neg = False
    while isinstance(e, ast.UnaryOp) and isinstance(e.op, ast.Not):
        e = e.operand
        neg = not neg
    e2, flip = normalise_test(e)
    p = pol
    if neg:
        p = not p
    if flip:
        p = not p
    return (src(e2), p)


def T(text: str) -> str:
    """Canonical text of a positive-form test"""
    return P(text, True)[0]


class Node:
    __slots__ = ("id", "kind", "ast", "stmt", "extra", "succ", "pred")

    def __init__(self, id, kind, astnode=None, stmt=None, **extra):
        self.id = id
        self.kind = kind
        self.ast = astnode
        self.stmt = stmt
        self.extra = extra
        self.succ: List[Tuple["Node", Optional[str]]] = []
        self.pred: List[Tuple["Node", Optional[str]]] = []

    @property
    def lineno(self):
        for x in (self.ast, self.stmt):
            if x is not None and hasattr(x, "lineno"):
                return x.lineno
        if self.kind == "branch":
            return self.extra["test"].lineno
        return 0

    def exprs(self) -> list:
        """AST subtrees evaluated at this node"""
        k = self.kind
        if k == "stmt":
            if isinstance(self.ast, FUNC_TYPES + (ast.ClassDef,)):
                return list(self.ast.decorator_list)
            return [self.ast]
        if k == "test":
            return [self.ast]
        if k == "for":
            return [self.ast.iter, self.ast.target]
        if k == "with_enter":
            out = [self.ast.context_expr]
            if self.ast.optional_vars is not None:
                out.append(self.ast.optional_vars)
            return out
        if k == "except":
            return [self.ast.type] if self.ast.type is not None else []
        return []

    def walk(self) -> Iterator[ast.AST]:
        for e in self.exprs():
            yield from walk_local(e)

    def calls(self) -> List[ast.Call]:
        return [n for n in self.walk() if isinstance(n, ast.Call)]

    def has_await(self) -> bool:
        if self.kind in ("with_enter", "with_exit") and self.extra.get("is_async"):
            return True
        if self.kind == "for" and isinstance(self.ast, ast.AsyncFor):
            return True
        return any(isinstance(n, ast.Await) for n in self.walk())

    def label(self) -> str:
        k = self.kind
        if k == "branch":
            t = self.extra["test"]
            return f"[{src(t.ast.iter) if t.kind == 'for' else src(t.ast)}]={self.extra['polarity']}"
        if k in ("stmt", "test"):
            return " ".join(src(self.ast).split())[:120]
        if k == "for":
            return f"for {src(self.ast.target)} in {src(self.ast.iter)}"
        if k == "with_enter":
            return f"with-enter {src(self.ast.context_expr)}"
        if k == "with_exit":
            return "with-exit " + ", ".join(src(i.context_expr) for i in self.stmt.items)
        if k == "except":
            return "except " + (src(self.ast.type) if self.ast.type else "")
        return k

    def __repr__(self):
        return f"<{self.id}:{self.kind}:{self.lineno} {self.label()[:50]}>"


class _Frame:
    def __init__(self, kind, **kw):
        self.kind = kind
        self.exc_cache: Dict[str, Node] = {}
        self.__dict__.update(kw)


class CFG:
    def __init__(self, fn, raising_calls: Optional[Dict[str, str]] = None):
        self.fn = fn
        self.raising_calls = raising_calls or {}
        self.nodes: List[Node] = []
        self.stack: List[_Frame] = []
        self.entry = self._new("entry")
        self.exit = self._new("exit")
        self.raise_ = self._new("raise")
        outs = self._block(fn.body, [self.entry])
        for o in outs:
            self._edge(o, self.exit)
        self._dom: Optional[Dict[int, Set[int]]] = None
        self._astmap: Optional[Dict[int, List[Node]]] = None
        self._prune()

    # ------------------------------------------------------------------ construction
    def _new(self, kind, astnode=None, stmt=None, **extra) -> Node:
        n = Node(len(self.nodes), kind, astnode, stmt, **extra)
        self.nodes.append(n)
        return n

    def _edge(self, a: Node, b: Node, label=None):
        for (x, l) in a.succ:
            if x is b and l == label:
                return
        a.succ.append((b, label))
        b.pred.append((a, label))

    def _connect(self, preds: Sequence[Node], n: Node, label=None):
        for p in preds:
            self._edge(p, n, label)

    def _in_try(self) -> bool:
        return any(f.kind == "try" and not f.synthetic for f in self.stack)

    def _may_raise(self, n: Node) -> bool:
        for e in n.exprs():
            for x in walk_local(e):
                if isinstance(x, (ast.Call, ast.Await, ast.Subscript)):
                    return True
        if n.kind == "stmt" and isinstance(n.ast, ast.Assign):
            if any(isinstance(t, (ast.Tuple, ast.List)) for t in n.ast.targets):
                return True
        if n.kind in ("with_enter", "for"):
            return True
        return False

    def _implicit(self, n: Node):
        if self._in_try() and self._may_raise(n):
            self._edge(n, self._exc_target(len(self.stack) - 1, None), "exc")

    def _handler_names(self, h: ast.ExceptHandler):
        if h.type is None:
            return None
        elts = h.type.elts if isinstance(h.type, ast.Tuple) else [h.type]
        return [(dotted(e) or src(e)).split(".")[-1] for e in elts]

    def _match(self, h, name) -> str:
        hn = self._handler_names(h)
        if hn and hn[0].startswith("__InlineReturn"):
            return "yes" if name == hn[0] else "no"
        if hn is None or "BaseException" in hn:
            return "yes"
        if name is None:
            return "maybe"
        if name in hn:
            return "yes"
        if name in BASE_ONLY:
            return "no"
        if "Exception" in hn:
            return "yes"
        return "maybe"

    def _exc_target(self, i: int, name: Optional[str]) -> Node:
        """Node reached by an exception of class `name` (None = unknown) propagating out of
        frames[i] (raised while frames[:i+1] are active)"""
        if i < 0:
            return self.raise_
        fr = self.stack[i]
        key = name or "*"
        if key in fr.exc_cache:
            return fr.exc_cache[key]
        j = self._new("join", stmt=getattr(fr, "stmt", None), role="exc")
        fr.exc_cache[key] = j
        if fr.kind == "with":
            n = self._new("with_exit", stmt=fr.stmt, exceptional=True, is_async=fr.is_async)
            self._edge(j, n)
            self._edge(n, self._exc_target(i - 1, name), "exc")
        elif fr.kind == "finally":
            saved = self.stack
            self.stack = saved[:i]
            outs = self._block(fr.body, [j])
            self.stack = saved
            t = self._exc_target(i - 1, name)
            for o in outs:
                self._edge(o, t, "exc")
        elif fr.kind == "try":
            caught = False
            for h, exnode in fr.handlers:
                m = self._match(h, name)
                if m == "no":
                    continue
                self._edge(j, exnode, "exc")
                if m == "yes":
                    caught = True
                    break
            if not caught:
                self._edge(j, self._exc_target(i - 1, name), "exc")
        else:  # loop
            self._edge(j, self._exc_target(i - 1, name), "exc")
        return j

    def _unwind(self, preds: List[Node], upto: int) -> List[Node]:
        """Run with-exits / finally bodies of frames[upto:] (innermost first), normal route"""
        for i in range(len(self.stack) - 1, upto - 1, -1):
            fr = self.stack[i]
            if fr.kind == "with":
                n = self._new("with_exit", stmt=fr.stmt, exceptional=False, is_async=fr.is_async, jump=True)
                self._connect(preds, n)
                preds = [n]
            elif fr.kind == "finally":
                saved = self.stack
                self.stack = saved[:i]
                preds = self._block(fr.body, preds)
                self.stack = saved
        return preds

    def _raise_name(self, exc) -> Optional[str]:
        if exc is None:
            return None
        e = exc.func if isinstance(exc, ast.Call) else exc
        d = dotted(e)
        if d and (d.split(".")[-1][:1].isupper() or d.startswith("__InlineReturn")):
            return d.split(".")[-1]
        return None

    def _block(self, stmts, preds: List[Node]) -> List[Node]:
        for s in stmts:
            if not preds:
                break  # unreachable code
            preds = self._stmt(s, preds)
        return preds

    def _cond(self, e, preds: List[Node], stmt) -> Tuple[List[Node], List[Node]]:
        if isinstance(e, ast.BoolOp):
            trues, falses = [], []
            cur = preds
            if isinstance(e.op, ast.And):
                for v in e.values:
                    t, f = self._cond(v, cur, stmt)
                    falses += f
                    cur = t
                return cur, falses
            else:
                for v in e.values:
                    t, f = self._cond(v, cur, stmt)
                    trues += t
                    cur = f
                return trues, cur
        if isinstance(e, ast.UnaryOp) and isinstance(e.op, ast.Not):
            t, f = self._cond(e.operand, preds, stmt)
            return f, t
        if isinstance(e, ast.Constant) and isinstance(e.value, bool):
            return (list(preds), []) if e.value else ([], list(preds))
        e2, flip = normalise_test(e)
        n = self._new("test", e2, stmt, orig=e)
        self._connect(preds, n)
        self._implicit(n)
        bt = self._new("branch", None, stmt, test=n, polarity=True)
        bf = self._new("branch", None, stmt, test=n, polarity=False)
        self._edge(n, bt, True)
        self._edge(n, bf, False)
        return ([bf], [bt]) if flip else ([bt], [bf])

    def _stmt(self, s, preds: List[Node]) -> List[Node]:
        if isinstance(s, ast.If):
            t, f = self._cond(s.test, preds, s)
            return self._block(s.body, t) + self._block(s.orelse, f)

        if isinstance(s, ast.While):
            head = self._new("join", stmt=s, role="while")
            self._connect(preds, head)
            t, f = self._cond(s.test, [head], s)
            fr = _Frame("loop", head=head, breaks=[], stmt=s)
            self.stack.append(fr)
            outs = self._block(s.body, t)
            self.stack.pop()
            for o in outs:
                self._edge(o, head, "back")
            return self._block(s.orelse, f) + fr.breaks

        if isinstance(s, (ast.For, ast.AsyncFor)):
            head = self._new("for", s, s)
            self._connect(preds, head)
            self._implicit(head)
            bl = self._new("branch", None, s, test=head, polarity="loop")
            bd = self._new("branch", None, s, test=head, polarity="done")
            self._edge(head, bl, "loop")
            self._edge(head, bd, "done")
            fr = _Frame("loop", head=head, breaks=[], stmt=s)
            self.stack.append(fr)
            outs = self._block(s.body, [bl])
            self.stack.pop()
            for o in outs:
                self._edge(o, head, "back")
            return self._block(s.orelse, [bd]) + fr.breaks

        if isinstance(s, (ast.With, ast.AsyncWith)):
            is_async = isinstance(s, ast.AsyncWith)
            cur = preds
            for item in s.items:
                n = self._new("with_enter", item, s, is_async=is_async)
                self._connect(cur, n)
                self._implicit(n)
                cur = [n]
            fr = _Frame("with", stmt=s, is_async=is_async)
            self.stack.append(fr)
            outs = self._block(s.body, cur)
            self.stack.pop()
            if not outs:
                return []
            x = self._new("with_exit", stmt=s, exceptional=False, is_async=is_async, jump=False)
            self._connect(outs, x)
            return [x]

        if isinstance(s, ast.Try):
            ffr = None
            if s.finalbody:
                ffr = _Frame("finally", body=s.finalbody, stmt=s)
                self.stack.append(ffr)
            handlers = [(h, self._new("except", h, s)) for h in s.handlers]
            if handlers:
                syn = all(isinstance(h.type, ast.Name) and h.type.id.startswith("__InlineReturn") for h, _ in handlers)
                tfr = _Frame("try", handlers=handlers, stmt=s, synthetic=syn)
                self.stack.append(tfr)
            outs = self._block(s.body, preds)
            if handlers:
                self.stack.pop()
            outs = self._block(s.orelse, outs)
            for h, exnode in handlers:
                outs = outs + self._block(h.body, [exnode])
            if ffr is not None:
                self.stack.pop()
                if outs:
                    outs = self._block(s.finalbody, outs)
            return outs

        if isinstance(s, ast.Assert):
            t, f = self._cond(s.test, preds, s)
            if f:
                n = self._new("stmt", s, s, assert_fail=True)
                self._connect(f, n)
                self._edge(n, self._exc_target(len(self.stack) - 1, "AssertionError"), "exc")
            return t

        if isinstance(s, ast.Match):  # not used by the package; modelled as opaque branching
            n = self._new("stmt", ast.Expr(s.subject), s)
            ast.copy_location(n.ast, s)
            self._connect(preds, n)
            outs = []
            for c in s.cases:
                outs += self._block(c.body, [n])
            return outs + [n]

        # ---- simple statements
        n = self._new("stmt", s, s)
        self._connect(preds, n)

        if isinstance(s, ast.Return):
            self._implicit(n)
            outs = self._unwind([n], 0)
            for o in outs:
                self._edge(o, self.exit)
            return []
        if isinstance(s, ast.Raise):
            name = self._raise_name(s.exc)
            self._edge(n, self._exc_target(len(self.stack) - 1, name), "exc")
            return []
        if isinstance(s, (ast.Break, ast.Continue)):
            idx = None
            for i in range(len(self.stack) - 1, -1, -1):
                if self.stack[i].kind == "loop":
                    idx = i
                    break
            if idx is None:
                return []
            outs = self._unwind([n], idx + 1)
            fr = self.stack[idx]
            if isinstance(s, ast.Break):
                fr.breaks.extend(outs)
            else:
                for o in outs:
                    self._edge(o, fr.head, "back")
            return []
        if isinstance(s, ast.Expr) and isinstance(s.value, ast.Call):
            d = dotted(s.value.func)
            if d in self.raising_calls:
                self._edge(n, self._exc_target(len(self.stack) - 1, self.raising_calls[d]), "exc")
                return []
        self._implicit(n)
        return [n]

    def _prune(self):
        """Drop nodes unreachable from entry (e.g. handlers nothing can raise into)"""
        seen = self.reachable(self.entry)
        for n in self.nodes:
            if n.id not in seen:
                for (m, l) in n.succ:
                    m.pred = [(p, pl) for (p, pl) in m.pred if p is not n]
                n.succ = []
        self.live = [n for n in self.nodes if n.id in seen]

    # ------------------------------------------------------------------ queries
    def reachable(self, start: Node, avoid: Iterable[Node] = (), follow_exc=True) -> Set[int]:
        """ids of nodes reachable from `start` (inclusive) without entering nodes of `avoid`"""
        av = {a.id for a in avoid}
        seen: Set[int] = set()
        if start.id in av:
            return seen
        stack = [start]
        while stack:
            n = stack.pop()
            if n.id in seen:
                continue
            seen.add(n.id)
            for (m, l) in n.succ:
                if m.id in av or m.id in seen:
                    continue
                if not follow_exc and l == "exc":
                    continue
                stack.append(m)
        return seen

    def must_pass(self, a: Node, b: Node, through: Iterable[Node]) -> bool:
        """Every path a -> b passes through a node of `through` (vacuously true if unreachable)"""
        return b.id not in self.reachable(a, avoid=through)

    def on_every_path(self, nodes: Iterable[Node], start: Optional[Node] = None, end: Optional[Node] = None) -> bool:
        """Every non-exceptional path from `start` (entry) to `end` (normal exit) passes through one of `nodes`"""
        av = {n.id for n in nodes}
        start = start or self.entry
        end = end or self.exit
        seen, stack = set(), [start]
        while stack:
            n = stack.pop()
            if n.id in seen or n.id in av:
                continue
            seen.add(n.id)
            if n is end:
                return False
            for m, l in n.succ:
                if l != "exc":
                    stack.append(m)
        return True

    def dominators(self) -> Dict[int, Set[int]]:
        if self._dom is None:
            live = self.live
            ids = [n.id for n in live]
            allset = set(ids)
            dom = {i: set(allset) for i in ids}
            dom[self.entry.id] = {self.entry.id}
            # reverse post-order for quick convergence
            order, seen = [], set()

            def dfs(n):
                stack = [(n, iter(n.succ))]
                seen.add(n.id)
                while stack:
                    node, it = stack[-1]
                    for (m, _) in it:
                        if m.id not in seen:
                            seen.add(m.id)
                            stack.append((m, iter(m.succ)))
                            break
                    else:
                        order.append(node)
                        stack.pop()

            dfs(self.entry)
            order.reverse()
            changed = True
            while changed:
                changed = False
                for n in order:
                    if n is self.entry:
                        continue
                    ps = [p for (p, _) in n.pred if p.id in allset]
                    if not ps:
                        continue
                    new = set.intersection(*(dom[p.id] for p in ps)) | {n.id}
                    if new != dom[n.id]:
                        dom[n.id] = new
                        changed = True
            self._dom = dom
        return self._dom

    def dominates(self, a: Node, b: Node) -> bool:
        return a.id in self.dominators().get(b.id, set())

    def guards(self, n: Node) -> List[Tuple[Node, object]]:
        """(test node, polarity) of every branch pseudo-node dominating `n`, in dominance order"""
        d = self.dominators().get(n.id, set())
        out = [self.nodes[i] for i in d if self.nodes[i].kind == "branch"]
        out.sort(key=lambda b: len(self.dominators()[b.id]))
        return [(b.extra["test"], b.extra["polarity"]) for b in out]

    def nodes_of(self, astnode) -> List[Node]:
        """CFG nodes in which the AST node `astnode` is evaluated (several if duplicated by finally)"""
        if self._astmap is None:
            m: Dict[int, List[Node]] = {}
            for n in self.live:
                for x in n.walk():
                    m.setdefault(id(x), []).append(n)
                o = n.extra.get("orig")
                if o is not None and o is not n.ast:
                    m.setdefault(id(o), []).append(n)
            self._astmap = m
        return self._astmap.get(id(astnode), [])

    def find(self, pred: Callable[[Node], bool]) -> List[Node]:
        return [n for n in self.live if pred(n)]

    def call_nodes(self, pred: Callable[[ast.Call], bool]) -> List[Tuple[Node, ast.Call]]:
        out = []
        for n in self.live:
            for c in n.calls():
                if pred(c):
                    out.append((n, c))
        return out

    def paths(self, start: Node, stop: Callable[[Node], bool], limit=20000, follow_exc=True):
        """All paths from `start` to nodes satisfying `stop` using each edge at most once"""
        out = []
        path = [start]
        used: Set[Tuple[int, int, object]] = set()

        def rec(n):
            if len(out) > limit:
                return
            if stop(n) and len(path) > 1 or (stop(n) and n is not start):
                out.append(list(path))
                return
            for (m, l) in n.succ:
                if not follow_exc and l == "exc":
                    continue
                e = (n.id, m.id, l)
                if e in used:
                    continue
                used.add(e)
                path.append(m)
                rec(m)
                path.pop()
                used.discard(e)

        rec(start)
        if len(out) > limit:
            from .loader import Undecided

            raise Undecided(f"more than {limit} paths in {getattr(self.fn, 'name', '?')}")
        return out

    def dump(self) -> str:
        lines = []
        for n in self.live:
            succ = ", ".join(f"{m.id}{'/' + str(l) if l is not None else ''}" for m, l in n.succ)
            lines.append(f"{n.id:4} {n.kind:10} L{n.lineno:<5} {n.label()[:70]:70} -> {succ}")
        return "\n".join(lines)
