"""./vf check <id> [--tier quick|thorough] | ./vf replay <file> | ./vf all | ./vf selftest [...]"""

from __future__ import annotations

import argparse
import importlib
import json
import os
import sys
import traceback


def load_prop(pid: str):
    return importlib.import_module(f"sa.props.{pid.lower()}")


def run_check(pid: str, tier: str, seed: int, only=None, write=True, tree=None, quiet=False):
    from .report import Check

    chk = Check(pid, tier, seed, only_rules=only, tree=tree, quiet=quiet)
    try:
        mod = load_prop(pid)
        chk.assumptions = list(getattr(mod, "ASSUMPTIONS", []))
        chk.run(mod.RULES)
    except Exception as e:  # loader failure etc.
        chk.undecide(f"{type(e).__name__}: {e}", rule=f"{pid}.engine")
        if os.environ.get("VERIF_DEBUG"):
            traceback.print_exc()
    return chk, chk.finish(write=write)


def main(argv=None):
    ap = argparse.ArgumentParser(prog="vf")
    sub = ap.add_subparsers(dest="cmd", required=True)
    c = sub.add_parser("check")
    c.add_argument("pid")
    c.add_argument("--tier", default=os.environ.get("VERIF_TIER", "quick"), choices=["quick", "thorough"])
    c.add_argument("--rule", action="append")
    c.add_argument("--no-write", action="store_true")
    r = sub.add_parser("replay")
    r.add_argument("path")
    a = sub.add_parser("all")
    a.add_argument("--tier", default="quick")
    s = sub.add_parser("selftest")
    s.add_argument("pids", nargs="*")
    s.add_argument("--jobs", type=int, default=16)
    s.add_argument("-v", action="store_true")
    sub.add_parser("pin-names")
    mu = sub.add_parser("mutate")
    mu.add_argument("--funcs", default="")
    mu.add_argument("--jobs", type=int, default=16)
    mu.add_argument("--out", default="")
    args = ap.parse_args(argv)
    seed = int(os.environ.get("VERIF_SEED", "0") or 0)

    if args.cmd == "mutate":
        from .mutate import run_mutation

        summary, surv, killed = run_mutation([x for x in args.funcs.split(",") if x] or None, args.jobs, args.out or None)
        for r in surv:
            print(f"SURVIVED {r['func']} L{r['line']} {r['desc']}")
        return 0
    if args.cmd == "pin-names":
        os.environ["VERIF_NO_CANON"] = "1"
        from .loader import Tree
        from pathlib import Path

        t = Tree()
        table = {}
        for f in t.nontest_funcs():
            a = f.node.args
            table[f.key] = [x.arg for x in a.posonlyargs + a.args + a.kwonlyargs]
        out = Path(__file__).resolve().parent.parent / "spec" / "param_names.json"
        out.write_text(json.dumps(table, indent=0, sort_keys=True))
        from .loader import local_bindings

        ltable = {f.key: local_bindings(f.node, defs=True) for f in t.nontest_funcs()}
        ltable = {k: v for k, v in ltable.items() if v}
        out.with_name("local_names.json").write_text(json.dumps(ltable, sort_keys=True))
        from .loader import scoped_names

        stable = {f.key: [x[:3] for x in scoped_names(f.node)] for f in t.nontest_funcs()}
        out.with_name("scoped_names.json").write_text(json.dumps({k: v for k, v in stable.items() if v}, sort_keys=True))
        # the same table after the load-time normalisations (second renaming pass)
        del os.environ["VERIF_NO_CANON"]
        os.environ["VERIF_NO_CANON2"] = "1"
        t2 = Tree()
        ntable = {f.key: local_bindings(f.node, defs=True) for f in t2.nontest_funcs()}
        ntable = {k: v for k, v in ntable.items() if v}
        out.with_name("local_names_norm.json").write_text(json.dumps(ntable, sort_keys=True))
        stable = {f.key: [x[:3] for x in scoped_names(f.node)] for f in t2.nontest_funcs()}
        out.with_name("scoped_names_norm.json").write_text(json.dumps({k: v for k, v in stable.items() if v}, sort_keys=True))
        from .loader import skeleton_tokens

        out.with_name("func_skeletons.json").write_text(json.dumps({f.key: skeleton_tokens(f.node) for f in t2.nontest_funcs()}, sort_keys=True))
        print(f"pinned parameter names of {len(table)} functions")
        return 0
    if args.cmd == "check":
        _, code = run_check(args.pid.upper(), args.tier, seed, only=args.rule, write=not args.no_write)
        if code == 0 and args.tier == "thorough":
            from .selftest import run_selftest

            run_selftest([args.pid.upper()], jobs=16, verbose=False, record=True)
            if not os.environ.get("VERIF_NO_MUTATION"):
                from .mutate import run_property_mutation

                summ = run_property_mutation(args.pid.upper(), jobs=16, seed=seed)
                # recorded in the evidence of this (thorough) run
                from pathlib import Path

                evf = Path(os.environ.get("VERIF_EVIDENCE_DIR", Path(__file__).resolve().parent.parent / "evidence")) / f"{args.pid.upper()}.json"
                try:
                    ev = json.loads(evf.read_text())
                    ev.setdefault("coverage", {})["rule_sensitivity"] = {k: summ[k] for k in ("functions_consulted_and_mutated", "mutation_points", "mutants_analysed", "reported_as_violation", "analysis_error", "silent", "note")}
                    st = evf.with_name(f"selftest-{args.pid.upper()}.json")
                    if st.exists():
                        sj = json.loads(st.read_text())
                        ev["coverage"]["seeded_breaks"] = {k: sj[k] for k in ("seeds_total", "detected", "missed", "skipped")}
                    evf.write_text(json.dumps(ev, indent=1))
                except Exception as e:  # evidence stays as written by the check
                    print(f"note: could not attach the sensitivity summary to the evidence file ({e})")
        return code
    if args.cmd == "replay":
        rec = json.loads(open(args.path).read())
        rid = rec["rule"].split(".", 1)[1]
        chk, code = run_check(rec["property"], rec.get("tier", "quick"), seed, only=[rid], write=False)
        hit = [f for f in chk.findings if f.key == rec["key"]]
        print(("REPRODUCED " if hit else "NOT-REPRODUCED ") + rec["key"])
        for f in hit:
            print(json.dumps(f.asdict(), indent=1))
        return 1 if hit else 0
    if args.cmd == "all":
        worst = 0
        for i in range(1, 21):
            pid = f"C{i:02d}"
            try:
                load_prop(pid)
            except ModuleNotFoundError:
                continue
            _, code = run_check(pid, args.tier, seed)
            worst = max(worst, code)
        return worst
    if args.cmd == "selftest":
        from .selftest import run_selftest

        return run_selftest([p.upper() for p in args.pids], jobs=args.jobs, verbose=args.v)


if __name__ == "__main__":
    try:
        code = main()
        try:
            sys.stdout.flush()
        except BrokenPipeError:
            os.dup2(os.open(os.devnull, os.O_WRONLY), sys.stdout.fileno())
        sys.exit(code)
    except SystemExit:
        raise
    except BrokenPipeError:
        os.dup2(os.open(os.devnull, os.O_WRONLY), sys.stdout.fileno())
        sys.exit(1)
    except BaseException as e:  # never let a traceback look like a violation
        print(f"ANALYSIS-ERROR engine {type(e).__name__}: {e}")
        sys.exit(2)
