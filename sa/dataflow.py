"""Reaching definitions of local names on the CFG, canonicalisation of expressions, and the
three-valued decision-table walker (DESIGN A1)."""

from __future__ import annotations

import ast
import copy
from typing import Callable, Dict, FrozenSet, List, Optional, Set, Tuple

from .astq import FUNC_TYPES, assigned_names, src, walk_local, ast_copy
from .cfg import CFG, Node


def _is_state_init(v) -> bool:
    """Initial values of accumulators / flags are state, not aliases: never substituted"""
    if isinstance(v, ast.Constant):
        return True
    if isinstance(v, (ast.List, ast.Set, ast.Tuple)) and not v.elts:
        return True
    if isinstance(v, ast.Dict) and not v.keys:
        return True
    if isinstance(v, ast.Call) and isinstance(v.func, ast.Name) and v.func.id in ("dict", "list", "set") and not v.args and not v.keywords:
        return True
    return False


class Def:
    __slots__ = ("node", "name", "kind", "value")

    def __init__(self, node: Optional[Node], name: str, kind: str, value=None):
        self.node = node
        self.name = name
        self.kind = kind  # param | assign | aug | for | with | except | def | import | walrus | unpack
        self.value = value

    def __repr__(self):
        return f"<Def {self.name}:{self.kind}@{self.node.id if self.node else 'entry'}>"


class ReachingDefs:
    def __init__(self, cfg: CFG):
        self.cfg = cfg
        fn = cfg.fn
        self.params: List[str] = []
        a = fn.args
        for x in a.posonlyargs + a.args + a.kwonlyargs:
            self.params.append(x.arg)
        if a.vararg:
            self.params.append(a.vararg.arg)
        if a.kwarg:
            self.params.append(a.kwarg.arg)
        self.gen: Dict[int, List[Def]] = {}
        for n in cfg.live:
            self.gen[n.id] = self._defs(n)
        entry_defs = [Def(None, p, "param") for p in self.params]
        self.IN: Dict[int, Dict[str, FrozenSet[Def]]] = {n.id: {} for n in cfg.live}
        self.OUT: Dict[int, Dict[str, FrozenSet[Def]]] = {n.id: {} for n in cfg.live}
        self.OUT[cfg.entry.id] = {d.name: frozenset([d]) for d in entry_defs}
        work = [n for n in cfg.live if n is not cfg.entry]
        changed = True
        while changed:
            changed = False
            for n in work:
                inn: Dict[str, Set[Def]] = {}
                for (p, _) in n.pred:
                    for k, v in self.OUT[p.id].items():
                        inn.setdefault(k, set()).update(v)
                inn_f = {k: frozenset(v) for k, v in inn.items()}
                out = dict(inn_f)
                for d in self.gen[n.id]:
                    out[d.name] = frozenset([d])
                if inn_f != self.IN[n.id] or out != self.OUT[n.id]:
                    self.IN[n.id] = inn_f
                    self.OUT[n.id] = out
                    changed = True

    def _defs(self, n: Node) -> List[Def]:
        out: List[Def] = []
        for e in n.exprs():
            for x in walk_local(e):
                if isinstance(x, ast.NamedExpr) and isinstance(x.target, ast.Name):
                    out.append(Def(n, x.target.id, "walrus", x.value))
        if n.kind == "stmt":
            s = n.ast
            if isinstance(s, ast.Assign):
                for t in s.targets:
                    if isinstance(t, ast.Name):
                        out.append(Def(n, t.id, "assign", s.value))
                    else:
                        for nm in assigned_names(t):
                            out.append(Def(n, nm, "unpack", s.value))
            elif isinstance(s, ast.AnnAssign) and isinstance(s.target, ast.Name) and s.value is not None:
                out.append(Def(n, s.target.id, "assign", s.value))
            elif isinstance(s, ast.AugAssign) and isinstance(s.target, ast.Name):
                out.append(Def(n, s.target.id, "aug", s.value))
            elif isinstance(s, FUNC_TYPES + (ast.ClassDef,)):
                out.append(Def(n, s.name, "def", s))
            elif isinstance(s, (ast.Import, ast.ImportFrom)):
                for a in s.names:
                    out.append(Def(n, (a.asname or a.name).split(".")[0], "import", s))
        elif n.kind == "for":
            for nm in assigned_names(n.ast.target):
                out.append(Def(n, nm, "for", n.ast.iter))
        elif n.kind == "with_enter" and n.ast.optional_vars is not None:
            for nm in assigned_names(n.ast.optional_vars):
                out.append(Def(n, nm, "with", n.ast.context_expr))
        elif n.kind == "except" and n.ast.name:
            out.append(Def(n, n.ast.name, "except", n.ast.type))
        return out

    def defs_at(self, name: str, node: Node) -> FrozenSet[Def]:
        return self.IN.get(node.id, {}).get(name, frozenset())

    def unique(self, name: str, node: Node) -> Optional[Def]:
        ds = self.defs_at(name, node)
        if len(ds) == 1:
            return next(iter(ds))
        return None

    # ---- canonicalisation
    def _defid(self, d: Def) -> str:
        if d.kind == "param":
            return f"\u00abp:{self.params.index(d.name)}\u00bb" if d.name != "self" else "self"
        return f"\u00ab{d.kind}:{d.node.id:05d}:{d.name}\u00bb"

    def _transform(self, expr, node: Node, depth: int, rename: bool):
        rd = self
        counter = [0]

        class T(ast.NodeTransformer):
            def __init__(self, at: Node, depth: int):
                self.at = at
                self.depth = depth
                self.scopes: List[Dict[str, str]] = []

            def _bind(self, target, scope):
                for n in ast.walk(target):
                    if isinstance(n, ast.Name):
                        counter[0] += 1
                        scope[n.id] = f"\u00abc:{counter[0]}\u00bb" if rename else n.id

            def _comp(self, n):
                scope: Dict[str, str] = {}
                self.scopes.append(scope)
                for g in n.generators:
                    g.iter = self.visit(g.iter)
                    self._bind(g.target, scope)
                    g.target = self.visit(g.target)
                    g.ifs = [self.visit(i) for i in g.ifs]
                if isinstance(n, ast.DictComp):
                    n.key = self.visit(n.key)
                    n.value = self.visit(n.value)
                else:
                    n.elt = self.visit(n.elt)
                self.scopes.pop()
                return n

            visit_ListComp = visit_SetComp = visit_GeneratorExp = visit_DictComp = _comp

            def visit_Lambda(self, n):
                scope: Dict[str, str] = {}
                for a in n.args.posonlyargs + n.args.args + n.args.kwonlyargs:
                    counter[0] += 1
                    scope[a.arg] = f"\u00abc:{counter[0]}\u00bb" if rename else a.arg
                    a.arg = scope[a.arg]
                self.scopes.append(scope)
                n.body = self.visit(n.body)
                self.scopes.pop()
                return n

            def visit_NamedExpr(self, n):
                return self.visit(n.value)  # the binding is looked through: uses are substituted by the value

            def visit_Name(self, n):
                for sc in reversed(self.scopes):
                    if n.id in sc:
                        return ast.copy_location(ast.Name(id=sc[n.id], ctx=n.ctx), n)
                if not isinstance(n.ctx, ast.Load):
                    return n
                ds = rd.defs_at(n.id, self.at)
                if len(ds) == 1:
                    d = next(iter(ds))
                    if d.kind in ("assign", "walrus") and d.node is not self.at and self.depth > 0 and not _is_state_init(d.value):
                        t = T(d.node, self.depth - 1)
                        return t.visit(ast_copy(d.value))
                    if rename:
                        return ast.copy_location(ast.Name(id=rd._defid(d), ctx=n.ctx), n)
                elif len(ds) > 1 and rename:
                    ids = sorted(rd._defid(d) for d in ds)
                    return ast.copy_location(ast.Name(id="\u03c6(" + "|".join(ids) + ")", ctx=n.ctx), n)
                return n

        return T(node, depth).visit(ast_copy(expr))

    def subst(self, expr, node: Node, depth=4):
        """Copy of `expr` in which every local name with a unique reaching *simple assignment*
        is replaced by the assigned expression (recursively, names resolved at the assignment)"""
        return self._transform(expr, node, depth, rename=False)

    def canon(self, expr, node: Node, depth=4) -> str:
        return src(self.subst(expr, node, depth))

    def alpha(self, expr, node: Node, depth=4):
        """Like subst, and additionally every remaining local name is replaced by an identifier of
        its binding site(s); comprehension / lambda variables are numbered by position.  The result
        does not depend on the names chosen for locals and parameters.  Tokens have the form
        \u00abkind:site\u00bb; `renumber` maps them to $1, $2 ... in order of first appearance."""
        return self._transform(expr, node, depth, rename=True)

    def acanon(self, expr, node: Node, depth=4) -> str:
        return src(self.alpha(expr, node, depth))


def expansions(rd: "ReachingDefs", expr, node: Node, depth=4, cap=24) -> Set[str]:
    """All texts `expr` may denote when every local name is replaced by each of its reaching
    definitions (assignments / walrus: the value; loop targets: ELEM(<iterable>); with-as: CTX(<expr>)),
    recursively.  Parameters and unknown names stay as they are."""
    from .astq import ast_copy

    def expand(e, at, d) -> List[ast.AST]:
        names = [n for n in ast.walk(e) if isinstance(n, ast.Name) and isinstance(n.ctx, ast.Load)]
        # comprehension-bound names are not locals of the function
        bound = set()
        for c in ast.walk(e):
            if isinstance(c, (ast.ListComp, ast.SetComp, ast.DictComp, ast.GeneratorExp)):
                for g in c.generators:
                    bound |= {t.id for t in ast.walk(g.target) if isinstance(t, ast.Name)}
            if isinstance(c, ast.Lambda):
                bound |= {a.arg for a in c.args.args}
        results = [e]
        if d <= 0:
            return results
        for nm in sorted({n.id for n in names} - bound):
            defs = [x for x in rd.defs_at(nm, at) if x.node is not None and x.node is not at]
            if not defs or any(x.kind == "param" for x in rd.defs_at(nm, at)):
                continue
            alts = []
            for x in defs:
                if x.kind in ("assign", "walrus") and x.value is not None:
                    for v in expand(x.value, x.node, d - 1):
                        alts.append(v)
                elif x.kind == "for" and x.value is not None:
                    for v in expand(x.value, x.node, d - 1):
                        alts.append(ast.Call(func=ast.Name(id="ELEM", ctx=ast.Load()), args=[v], keywords=[]))
                elif x.kind == "with" and x.value is not None:
                    for v in expand(x.value, x.node, d - 1):
                        alts.append(ast.Call(func=ast.Name(id="CTX", ctx=ast.Load()), args=[v], keywords=[]))
                else:
                    alts.append(ast.Name(id=nm, ctx=ast.Load()))
            new = []
            for r in results:
                for a in alts[:6]:
                    class S(ast.NodeTransformer):
                        def visit_Name(self, n):
                            if n.id == nm and isinstance(n.ctx, ast.Load):
                                return ast_copy(a)
                            return n
                    new.append(S().visit(ast_copy(r)))
                    if len(new) >= cap:
                        break
                if len(new) >= cap:
                    break
            results = new or results
        return results

    return {src(x) for x in expand(expr, node, depth)}


_TOKEN = None


def renumber(text: str) -> str:
    """Replace binding-site tokens by $1, $2, ... in order of first appearance"""
    import re

    global _TOKEN
    if _TOKEN is None:
        _TOKEN = re.compile("\u00ab[^\u00bb]*\u00bb")
    m: Dict[str, str] = {}

    def rep(mo):
        t = mo.group(0)
        if t not in m:
            m[t] = f"${len(m) + 1}"
        return m[t]

    return _TOKEN.sub(rep, text)


def definitely_assigned(cfg: CFG, rd: "ReachingDefs") -> Dict[int, Set[str]]:
    """Must-analysis: names assigned on *every* path from the entry to each node (at its start)"""
    live = cfg.live
    allnames = set(rd.params)
    for n in live:
        for d in rd.gen[n.id]:
            allnames.add(d.name)
    IN = {n.id: set(allnames) for n in live}
    OUT = {n.id: set(allnames) for n in live}
    IN[cfg.entry.id] = set()
    OUT[cfg.entry.id] = set(rd.params)
    changed = True
    while changed:
        changed = False
        for n in live:
            if n is cfg.entry:
                continue
            ps = [p for (p, l) in n.pred]
            inn = set.intersection(*(OUT[p.id] for p in ps)) if ps else set()
            out = inn | {d.name for d in rd.gen[n.id]}
            if inn != IN[n.id] or out != OUT[n.id]:
                IN[n.id], OUT[n.id] = inn, out
                changed = True
    return IN


# ----------------------------------------------------------------------------- decision tables


class Outcome:
    __slots__ = ("events", "end", "unknown", "trace")

    def __init__(self, events, end, unknown, trace):
        self.events = events  # tuple of event strings in path order
        self.end = end  # 'exit' | 'raise' | 'next' (loop back) | 'break' | label
        self.unknown = unknown  # tuple of (cond text, polarity) taken without being decided
        self.trace = trace  # list of (lineno, cond text, polarity, known?)

    def key(self):
        return (self.events, self.end)


class _At:
    """An expression evaluated in the context of a CFG node (reaching definitions of that node): looks like the node, carries the expression"""

    def __init__(self, expr, node):
        self.__dict__["ast"] = expr
        self.__dict__["_node"] = node

    def __getattr__(self, name):
        return getattr(self.__dict__["_node"], name)


def walk_table(
    cfg: CFG,
    start: Node,
    classify: Callable[[Node], Optional[Tuple[str, bool]]],
    scenario: Dict[str, Optional[bool]],
    events: Callable[[Node], List[str]],
    stop: Callable[[Node], Optional[str]],
    limit: int = 5000,
) -> List[Outcome]:
    """Enumerate the paths from `start` that are feasible under `scenario`.

    classify(test node) -> (atom, positive?) or None if the condition is not modelled.
    A condition on atom A with scenario[A] in (True, False) follows one branch; with None or an
    unmodelled condition both branches are followed and recorded in `unknown`.
    stop(node) -> an end label to stop the path at `node`, else None.
    Each edge is used at most once per path.
    """
    out: List[Outcome] = []
    used: Set[Tuple[int, int, object]] = set()

    from .cfg import normalise_test

    def truth3(expr, at: Node) -> Optional[bool]:
        """3-valued truth of a boolean expression assigned at `at`, atoms classified in the context of that node"""
        if isinstance(expr, ast.BoolOp):
            vals = [truth3(v, at) for v in expr.values]
            if isinstance(expr.op, ast.And):
                return False if any(v is False for v in vals) else (True if all(v is True for v in vals) else None)
            return True if any(v is True for v in vals) else (False if all(v is False for v in vals) else None)
        if isinstance(expr, ast.UnaryOp) and isinstance(expr.op, ast.Not):
            v = truth3(expr.operand, at)
            return None if v is None else (not v)
        if isinstance(expr, ast.Constant):
            return bool(expr.value)
        e2, flip = normalise_test(expr)
        try:
            c = classify(_At(e2, at))
        except Exception:
            c = None
        if c is None:
            return None
        v = scenario.get(c[0])
        if v is None:
            return None
        v = v if c[1] else (not v)
        return (not v) if flip else v

    def rec(n: Node, ev: Tuple[str, ...], unk: Tuple, trace: Tuple, env: Dict = {}):
        if len(out) > limit:
            return
        lab = stop(n)
        if lab is not None and n is not start:
            out.append(Outcome(ev, lab, unk, list(trace)))
            return
        ev2 = ev + tuple(events(n))
        succ = n.succ
        if n.kind == "stmt" and isinstance(n.ast, ast.Assign) and len(n.ast.targets) == 1 and isinstance(n.ast.targets[0], ast.Name):
            # flags set along the path (`ret = <boolean expression>` of a spliced helper, later tested as `if ret:`)
            env = dict(env)
            env[n.ast.targets[0].id] = (n.ast.value, n)
        if n.kind == "test":
            c = classify(n)
            val: Optional[bool] = None
            if c is not None:
                atom, positive = c
                v = scenario.get(atom)
                if v is not None:
                    val = v if positive else (not v)
            elif isinstance(n.ast, ast.Name) and n.ast.id in env:
                val = truth3(*env[n.ast.id])
            text = " ".join(src(n.ast).split())
            if val is not None:
                succ = [(m, l) for (m, l) in n.succ if l == val]
                trace = trace + ((n.lineno, text, val, True),)
            else:
                # both branches; exceptional edges of an undecided test are not followed
                branches = [(m, l) for (m, l) in n.succ if l in (True, False)]
                for (m, l) in branches:
                    e = (n.id, m.id, l)
                    if e in used:
                        continue
                    used.add(e)
                    rec(m, ev2, unk + ((text, l, c[0] if c else None),), trace + ((n.lineno, text, l, False),), env)
                    used.discard(e)
                return
        if n.kind == "for":
            c = classify(n)
            if c is not None:
                v = scenario.get(c[0])
                if v is not None:
                    v = v if c[1] else (not v)
                    if v:
                        # at least one iteration: take `loop` while unused, then `done`
                        loop_unused = [(m, l) for (m, l) in n.succ if l == "loop" and (n.id, m.id, l) not in used]
                        succ = loop_unused if loop_unused else [(m, l) for (m, l) in n.succ if l == "done"]
                    else:
                        succ = [(m, l) for (m, l) in n.succ if l == "done"]
        for (m, l) in succ:
            if l == "exc" and n.kind not in ("stmt", "join"):
                continue
            if l == "exc" and not _is_explicit_raise(n):
                continue
            e = (n.id, m.id, l)
            if e in used:
                continue
            used.add(e)
            rec(m, ev2, unk, trace, env)
            used.discard(e)

    rec(start, (), (), ())
    if not out:
        from .loader import Undecided

        raise Undecided(f"decision table: no path from line {start.lineno} reaches an end under {scenario}")
    if len(out) > limit:
        from .loader import Undecided

        raise Undecided(f"decision table: more than {limit} paths from line {start.lineno}")
    return out


class PathTrace:
    __slots__ = ("conds", "end", "calls", "nodes")

    def __init__(self, conds, end, calls, nodes):
        self.conds = conds  # list of (canonical atom text, polarity) in path order
        self.end = end  # 'return <canon>' | 'return' | 'raise:<Name>' | 'raise' | 'fall'
        self.calls = calls  # canonical texts of call statements on the path
        self.nodes = nodes

    def has(self, text, pol) -> bool:
        return (text, pol) in self.conds

    def __repr__(self):
        return f"<{self.conds} -> {self.end}>"


def path_traces(fn_node, raising_calls=None, limit=3000, alpha=True, pathsens=False) -> List[PathTrace]:
    """All acyclic paths of a (small) function as (conditions, end) pairs; loops are entered at most once.
    Texts are canonical (aliases inlined, comprehension variables numbered); explicit raises and returns end a path.
    pathsens: a local assigned on the path denotes, from there on, the expression it was assigned on *this* path
    (`r = f(); if c: r = r * 2; return r` gives `return f() * 2` and `return f()`)."""
    g = CFG(fn_node, raising_calls=raising_calls)
    rd = ReachingDefs(g)
    out: List[PathTrace] = []
    count = [0]
    env_stack: List[Dict[str, ast.AST]] = [{}]

    def subst_env(e):
        env = env_stack[-1]
        if not env or not any(isinstance(x, ast.Name) and x.id in env for x in ast.walk(e)):
            return e

        class S(ast.NodeTransformer):
            def visit_Name(self, x):
                if isinstance(x.ctx, ast.Load) and x.id in env:
                    return ast_copy(env[x.id])
                return x

            def visit_Lambda(self, x):
                return x

        return S().visit(ast_copy(e))

    def text(e, n):
        if pathsens:
            e = subst_env(e)
        return renumber_local(rd.acanon(e, n)) if alpha else rd.canon(e, n)

    flag_stack: List[Dict[str, bool]] = [{}]

    def step_flags(n):
        """boolean constants assigned to plain names along the path (flags)"""
        fl = flag_stack[-1]
        killed = [d.name for d in rd.gen.get(n.id, [])]
        if not killed:
            return fl
        fl = dict(fl)
        for k in killed:
            fl.pop(k, None)
        if n.kind == "stmt" and isinstance(n.ast, ast.Assign) and len(n.ast.targets) == 1 and isinstance(n.ast.targets[0], ast.Name) and isinstance(n.ast.value, ast.Constant) \
                and isinstance(n.ast.value.value, bool):
            fl[n.ast.targets[0].id] = n.ast.value.value
        return fl

    def step_env(n):
        """environment after node n (pathsens only)"""
        env = env_stack[-1]
        killed = [d.name for d in rd.gen.get(n.id, [])]
        if not killed:
            return env
        env = dict(env)
        if n.kind == "stmt" and isinstance(n.ast, ast.Assign) and len(n.ast.targets) == 1 and isinstance(n.ast.targets[0], ast.Name) and not _is_state_init(n.ast.value) \
                and not any(isinstance(x, (ast.Yield, ast.YieldFrom, ast.Await, ast.NamedExpr)) for x in ast.walk(n.ast.value)):
            val = subst_env(n.ast.value)
            for k in killed:
                env.pop(k, None)
            env[n.ast.targets[0].id] = val
        else:
            for k in killed:
                env.pop(k, None)
        # a binding that mentions a re-bound name is stale
        for k in list(env):
            if k not in killed and any(isinstance(x, ast.Name) and x.id in killed for x in ast.walk(env[k])):
                env.pop(k)
        return env

    def rec(n, conds, calls, nodes, used):
        if pathsens:
            env_stack.append(env_stack[-1])
            flag_stack.append(flag_stack[-1])
            try:
                return rec0(n, conds, calls, nodes, used)
            finally:
                env_stack.pop()
                flag_stack.pop()
        return rec0(n, conds, calls, nodes, used)

    def rec0(n, conds, calls, nodes, used):
        count[0] += 1
        if count[0] > limit * 20 or len(out) > limit:
            raise_undecided(fn_node)
        if n is g.exit:
            out.append(PathTrace(conds, "fall", calls, nodes))
            return
        if n is g.raise_:
            out.append(PathTrace(conds, "raise", calls, nodes))
            return
        nodes2 = nodes + [n]
        if n.kind == "stmt":
            if isinstance(n.ast, ast.Return):
                out.append(PathTrace(conds, "return" + ("" if n.ast.value is None else " " + text(n.ast.value, n)), calls, nodes2))
                return
            if isinstance(n.ast, ast.Raise):
                nm = ""
                if n.ast.exc is not None:
                    e = n.ast.exc.func if isinstance(n.ast.exc, ast.Call) else n.ast.exc
                    nm = (dotted_name(e) or "")
                if not nm.startswith("__InlineReturn"):
                    out.append(PathTrace(conds, "raise:" + nm.split(".")[-1], calls, nodes2))
                    return
            if n.extra.get("assert_fail"):
                out.append(PathTrace(conds, "raise:AssertionError", calls, nodes2))
                return
            if isinstance(n.ast, ast.Expr) and isinstance(n.ast.value, ast.Call):
                calls = calls + [text(n.ast.value, n)]
        succ = n.succ
        if pathsens:
            env_stack[-1] = step_env(n)
            flag_stack[-1] = step_flags(n)
        if n.kind == "test":
            t = text(n.ast, n)
            known = None
            if pathsens and isinstance(n.ast, ast.Name):
                # a flag assigned a constant on this path decides the branch (the other one is infeasible)
                known = flag_stack[-1].get(n.ast.id)
            for m, l in succ:
                if l in (True, False):
                    if known is not None and l is not known:
                        continue
                    e = (n.id, m.id, l)
                    if e in used:
                        continue
                    rec(m, conds + ([] if known is not None else [(t, l)]), calls, nodes2, used | {e})
            return
        explicit = bool(succ) and all(l == "exc" for _, l in succ)
        for m, l in succ:
            if l == "exc" and not explicit:
                continue
            e = (n.id, m.id, l)
            if e in used:
                continue
            rec(m, conds, calls, nodes2, used | {e})

    rec(g.entry, [], [], [], frozenset())
    return out


def dotted_name(e):
    from .astq import dotted

    return dotted(e)


def raise_undecided(fn_node):
    from .loader import Undecided

    raise Undecided(f"too many paths in {getattr(fn_node, 'name', '?')}")


def renumber_local(text: str) -> str:
    """Renumber only comprehension / lambda tokens (parameters and locals keep readable names)"""
    import re

    m: Dict[str, str] = {}

    def rep(mo):
        t = mo.group(0)
        if t not in m:
            m[t] = f"${len(m) + 1}"
        return m[t]

    text = re.sub("\u00abc:[0-9]+\u00bb", rep, text)
    # binding-site tokens of parameters / locals: back to their (canonical) names
    text = re.sub("\u00abp:([0-9]+)\u00bb", lambda mo: f"<p{mo.group(1)}>", text)
    text = re.sub("\u00ab[a-z]+:[0-9]+:([A-Za-z_0-9]+)\u00bb", lambda mo: mo.group(1), text)
    text = re.sub("\u03c6\\(([^)]*)\\)", lambda mo: "|".join(sorted(set(mo.group(1).split("|")))), text)
    return text


def truth_of(expr, classify_text, scenario) -> Optional[bool]:
    """Truth value of a returned / tested expression under a scenario; None if undetermined.
    classify_text(text) -> (atom, positive) | None, applied to atomic sub-expressions in canonical positive form"""
    from .cfg import normalise_test

    if isinstance(expr, ast.BoolOp):
        vals = [truth_of(v, classify_text, scenario) for v in expr.values]
        if isinstance(expr.op, ast.And):
            if any(v is False for v in vals):
                return False
            return True if all(v is True for v in vals) else None
        if any(v is True for v in vals):
            return True
        return False if all(v is False for v in vals) else None
    if isinstance(expr, ast.UnaryOp) and isinstance(expr.op, ast.Not):
        v = truth_of(expr.operand, classify_text, scenario)
        return None if v is None else (not v)
    if isinstance(expr, ast.Constant):
        return bool(expr.value)
    if isinstance(expr, ast.IfExp):
        t = truth_of(expr.test, classify_text, scenario)
        if t is None:
            return None
        return truth_of(expr.body if t else expr.orelse, classify_text, scenario)
    e2, flip = normalise_test(expr)
    c = classify_text(src(e2))
    if c is None:
        return None
    v = scenario.get(c[0])
    if v is None:
        return None
    v = v if c[1] else (not v)
    return (not v) if flip else v


def _is_explicit_raise(n: Node) -> bool:
    """Only explicit raises (raise statements, failing asserts, calls in raising_calls) are
    followed exceptionally by the table walker: a node whose *only* successors are exceptional"""
    return all(l == "exc" for (_, l) in n.succ)


def none_test_under(rd: "ReachingDefs", g: CFG, test_node: Node, classify, scenario) -> Optional[bool]:
    """Truth of a canonical test `<local> is None` under a scenario, decided by the definitions of the local that are feasible in
    that scenario (a definition guarded by a test whose atom the scenario decides the other way is infeasible):
    True if every feasible definition binds the constant None, False if none does (calls / constructors / non-None constants)."""
    e = test_node.ast
    if not (isinstance(e, ast.Compare) and len(e.ops) == 1 and isinstance(e.ops[0], ast.Is) and isinstance(e.left, ast.Name)
            and isinstance(e.comparators[0], ast.Constant) and e.comparators[0].value is None):
        return None
    defs = rd.defs_at(e.left.id, test_node)
    vals = []
    for d in defs:
        if d.node is None or d.kind != "assign" or d.value is None:
            return None
        feasible = True
        for t, pol in g.guards(d.node):
            if t.kind != "test":
                continue
            c = classify(t)
            if c is None:
                continue
            v = scenario.get(c[0])
            if v is None:
                continue
            v = v if c[1] else (not v)
            if v != pol:
                feasible = False
        if feasible:
            vals.append(d.value)
    if not vals:
        return None
    if all(isinstance(v, ast.Constant) and v.value is None for v in vals):
        return True
    if all(isinstance(v, (ast.Call, ast.Lambda, ast.Dict, ast.List, ast.Set, ast.Tuple, ast.JoinedStr)) or (isinstance(v, ast.Constant) and v.value is not None) for v in vals):
        return False
    return None


def unbound_reads(fn_node) -> List[Tuple[ast.Name, int]]:
    """Reads of a local of `fn_node` (a name the function assigns somewhere) at a point where it is not assigned on every path
    from the entry: UnboundLocalError on the paths that skip the assignment.  Comprehension / lambda variables, names declared global /
    nonlocal and names only bound by `except ... as` / `with ... as` / imports handled by the reaching-definition engine are left out."""
    g = CFG(fn_node)
    rd = ReachingDefs(g)
    local_names = {d.name for n in g.live for d in rd.gen[n.id]}
    declared = {nm for x in ast.walk(fn_node) if isinstance(x, (ast.Global, ast.Nonlocal)) for nm in x.names}
    must = definitely_assigned(g, rd)
    out = []

    def scoped(x):
        p = getattr(x, "_parent", None)
        while p is not None and p is not fn_node:
            if isinstance(p, (ast.ListComp, ast.SetComp, ast.DictComp, ast.GeneratorExp)) and any(
                    isinstance(t, ast.Name) and t.id == x.id for gen in p.generators for t in ast.walk(gen.target)):
                return True
            if isinstance(p, ast.Lambda) and x.id in [a.arg for a in p.args.args + p.args.kwonlyargs]:
                return True
            if isinstance(p, (ast.FunctionDef, ast.AsyncFunctionDef)):
                return True
            p = getattr(p, "_parent", None)
        return False

    for n in g.live:
        for x in n.walk():
            if isinstance(x, ast.Name) and isinstance(x.ctx, ast.Load) and x.id in local_names and x.id not in rd.params and x.id not in declared:
                if x.id in must[n.id] or any(d.name == x.id for d in rd.gen[n.id] if d.kind in ("walrus", "for", "with", "except", "import")):
                    continue
                if scoped(x):
                    continue
                if not _reachable_unassigned(g, rd, n, x.id, fn_node):
                    continue
                out.append((x, n.lineno))
    return out


def _reachable_unassigned(g: CFG, rd: "ReachingDefs", node: Node, name: str, fn_node) -> bool:
    """Is there a path from the entry to `node` that assigns `name` nowhere and is consistent with the guards of `node` on tests that cannot
    change (tests over parameters / names the function never re-binds)?  Correlated branches (`if flag: x = ...` ... `if flag: use(x)`)
    are thereby not reported."""
    stored = {x.id for x in ast.walk(fn_node) if isinstance(x, ast.Name) and isinstance(x.ctx, (ast.Store, ast.Del))}

    def invariant(t):
        return all(not (isinstance(y, ast.Name) and y.id in stored) for y in ast.walk(t.ast)) and not any(isinstance(y, (ast.Call, ast.Await)) for y in ast.walk(t.ast))

    want = {(src(t.ast), pol) for t, pol in g.guards(node) if t.kind == "test" and invariant(t)}
    seen, stack = set(), [g.entry]
    while stack:
        n = stack.pop()
        if n.id in seen:
            continue
        seen.add(n.id)
        if n is node:
            return True
        if any(d.name == name for d in rd.gen[n.id]):
            continue
        for m, l in n.succ:
            if m.kind == "branch" and m.extra["test"].kind == "test" and isinstance(m.extra["polarity"], bool):
                if (src(m.extra["test"].ast), not m.extra["polarity"]) in want:
                    continue
            stack.append(m)
    return False
