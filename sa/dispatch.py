"""Decision tables over the *kind* of a value: every `isinstance(param, T)` test of a function is decided by whether the
scenario's kind is one of T; the CFG is then walked (loops entered once) and the effects collected.  The shape of the dispatch
(if/elif chain, guard clauses, negated tests, merged tuples) does not matter."""

from __future__ import annotations

import ast
from typing import Callable, Dict, List, Optional

from .astq import dotted, src
from .cfg import CFG
from .dataflow import ReachingDefs, walk_table

OTHER = "<other>"


def isinstance_kinds(test, rd=None, node=None):
    """(canonical subject, [type names]) of an `isinstance(subject, T)` test, else (None, [])"""
    if isinstance(test, ast.Call) and dotted(test.func) == "isinstance" and len(test.args) == 2:
        k = test.args[1]
        elts = k.elts if isinstance(k, ast.Tuple) else [k]
        subj = rd.canon(test.args[0], node) if rd is not None else src(test.args[0])
        return subj, [dotted(e) or src(e) for e in elts]
    return None, []


def kind_table(fn_node, subject: str, kinds: List[str], events: Callable, extra: Optional[Callable] = None, loops_once=True, raising_calls=None):
    """{kind: [Outcome]} -- `subject` is the canonical text of the dispatched value; `events(node, rd)` lists the effects of a node;
    `extra(node, rd)` may classify further tests as (atom, positive) with scenario values given in `kinds` entries of the form (kind, {atom: value})"""
    g = CFG(fn_node, raising_calls=raising_calls)
    rd = ReachingDefs(g)
    out = {}
    for entry in kinds:
        kind, scen = entry if isinstance(entry, tuple) else (entry, {})

        def classify(n, kind=kind):
            if n.kind == "for":
                return ("#loop", True) if loops_once else None
            subj, ts = isinstance_kinds(n.ast, rd, n)
            if subj == subject:
                return ("#k", kind in ts)
            if extra is not None:
                return extra(n, rd)
            return None

        scenario = dict(scen)
        scenario["#k"] = True
        scenario["#loop"] = True
        outs = walk_table(g, g.entry, classify, scenario, lambda n: events(n, rd), lambda n: "exit" if n is g.exit else ("raise" if n is g.raise_ else None))
        out[kind] = outs
    return g, rd, out
