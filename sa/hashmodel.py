"""Extraction of the identifier byte-stream model (DESIGN A7) from HashComputer.update,
HashComputer.compute and ConfigInformation.identifiers -- as *path traces* of the CFG, so that the
model does not depend on how the control structure is written (guard clauses vs else, De Morgan,
elif vs separate ifs, helper extraction, local names).

A trace is the list of items met on one path (loops entered at most once, hierarchically):
  ["emit", ["tag", NAME, HEX]]          a tag byte resolved by value
  ["emit", ["pack", FMT, EXPR]]         struct.pack
  ["emit", ["text", ENCODING, EXPR]]    str.encode
  ["emit", ["bytes", EXPR]]             anything else fed to the hasher
  ["rec", EXPR, KW?]                    recursive update of a value
  ["sort", EXPR, KEY]                   in-place sort of a local sequence
  ["call", EXPR]                        any other call statement (not logging)
  ["if", ATOM, POLARITY]                an atomic condition in canonical positive form, with the branch taken
  ["loop", ITER, [TRACE...]]            the distinct traces of one iteration of a loop over ITER
  ["end", "raise:<Name>" | "return <expr>"]   only when the path does not simply reach the end
EXPR / ATOM are canonical texts (locals substituted by their definitions, binding sites numbered).

What other rules decide semantically is left out of the model: the skip logic inside the argument
loop (decision table C02.R2 / C03.R10) and cache guards (C01.R3).
"""

from __future__ import annotations

import ast
import json
from typing import Dict, List, Optional

from .astq import dotted, is_logging_call, src, walk_local
from .cfg import CFG, Node
from .dataflow import ReachingDefs, renumber
from .loader import Func, Tree, Undecided

CACHE_WORDS = ("_sealed", "_full_identifier", "_raw_identifier")


def class_bytes_constants(cls_node: ast.ClassDef) -> Dict[str, bytes]:
    out = {}
    for s in cls_node.body:
        if isinstance(s, ast.Assign) and len(s.targets) == 1 and isinstance(s.targets[0], ast.Name):
            if isinstance(s.value, ast.Constant) and isinstance(s.value.value, bytes):
                out[s.targets[0].id] = s.value.value
    return out


class Extractor:
    def __init__(self, tree: Tree, fn: Func, tags: Dict[str, bytes], tagclass: str = "HashComputer"):
        self.tree = tree
        self.fn = fn
        self.tags = tags
        self.tagclass = tagclass
        self.cfg = CFG(fn.node)
        self.rd = ReachingDefs(self.cfg)
        self.unknown_helpers: List[str] = []
        self.computers = {"self"}
        self.hashers = set()
        for n in self.cfg.live:
            for d in self.rd.gen[n.id]:
                if d.kind == "assign" and isinstance(d.value, ast.Call):
                    dn = dotted(d.value.func) or ""
                    if dn.startswith("hashlib."):
                        self.hashers.add(d.name)
                    if dn.split(".")[-1] == tagclass:
                        self.computers.add(d.name)
        self.paths = 0

    def canon(self, e, at: Node) -> str:
        return self.rd.acanon(e, at)

    def is_sink(self, c: ast.Call) -> bool:
        d = dotted(c.func) or ""
        parts = d.split(".")
        if len(parts) == 2 and parts[0] in self.computers and parts[1] == "_hashupdate":
            return True
        if parts[-1] == "update" and len(parts) >= 2:
            base = ".".join(parts[:-1])
            if base in self.hashers or base == "self._hasher":
                return True
        return False

    def is_rec(self, c: ast.Call) -> bool:
        d = dotted(c.func) or ""
        parts = d.split(".")
        return len(parts) == 2 and parts[0] in self.computers and parts[1] == "update"

    def describe(self, arg, at: Node):
        d = dotted(arg)
        if d:
            parts = d.split(".")
            if len(parts) == 2 and parts[0] in (self.tagclass, "self", "cls") and parts[1] in self.tags:
                return ["tag", parts[1], self.tags[parts[1]].hex()]
        if isinstance(arg, ast.Constant) and isinstance(arg.value, bytes):
            return ["tag", "<literal>", arg.value.hex()]
        if isinstance(arg, ast.Name):
            dd = self.rd.unique(arg.id, at)
            if dd is not None and dd.kind == "assign" and dd.node is not at and isinstance(dd.value, (ast.Call, ast.Attribute)):
                inner = self.describe(dd.value, dd.node)
                if inner[0] != "bytes":
                    return inner
        if isinstance(arg, ast.Call):
            dn = dotted(arg.func) or ""
            if dn == "struct.pack" and arg.args and isinstance(arg.args[0], ast.Constant):
                return ["pack", arg.args[0].value] + [self.canon(a, at) for a in arg.args[1:]]
            if isinstance(arg.func, ast.Attribute) and arg.func.attr == "encode":
                enc = "utf-8"
                if arg.args and isinstance(arg.args[0], ast.Constant):
                    enc = str(arg.args[0].value)
                for kw in arg.keywords:
                    if kw.arg == "encoding" and isinstance(kw.value, ast.Constant):
                        enc = str(kw.value.value)
                enc = enc.lower().replace("_", "-")
                if enc == "utf8":
                    enc = "utf-8"
                return ["text", enc, self.canon(arg.func.value, at)]
        return ["bytes", self.canon(arg, at)]

    def items(self, n: Node) -> list:
        if n.kind != "stmt":
            return []
        s = n.ast
        if isinstance(s, ast.Expr) and isinstance(s.value, ast.Call):
            c = s.value
            if is_logging_call(c):
                return []
            d = dotted(c.func) or ""
            if self.is_sink(c):
                if len(c.args) != 1:
                    raise Undecided(f"hasher sink with {len(c.args)} arguments at {self.fn.key}:{s.lineno}")
                return [["emit", self.describe(c.args[0], n)]]
            if self.is_rec(c):
                kw = {k.arg: src(k.value) for k in c.keywords}
                t = ["rec", self.canon(c.args[0], n)]
                if kw:
                    t.append(kw)
                return [t]
            if isinstance(c.func, ast.Attribute) and c.func.attr == "sort":
                key = ""
                for k in c.keywords:
                    if k.arg == "key":
                        key = self.canon(k.value, n)
                    if k.arg == "reverse":
                        key += f" reverse={src(k.value)}"
                return [["sort", self.canon(c.func.value, n), key]]
            if isinstance(c.func, ast.Attribute) and c.func.attr in ("append", "add", "extend", "update", "setdefault"):
                return []  # building a local container: looked through by canonicalisation of its uses
            if d.startswith("self.") and d.count(".") == 1:
                self.unknown_helpers.append(d)
            return [["call", self.canon(c, n)]]
        if isinstance(s, (ast.Assign, ast.AnnAssign, ast.AugAssign)):
            for c in walk_local(s):
                if isinstance(c, ast.Call) and (self.is_sink(c) or self.is_rec(c)):
                    raise Undecided(f"hasher call inside an assignment at {self.fn.key}:{s.lineno}")
        return []

    def abstracted(self, n: Node, in_arg_loop: bool) -> bool:
        if in_arg_loop:
            return True
        t = self.rd.canon(n.ast, n)
        if any(w in t for w in CACHE_WORDS):
            return True
        # a local that may hold a cached identifier (result variable of a spliced helper, several definitions)
        from .dataflow import expansions

        try:
            if any(any(w in x for w in CACHE_WORDS) for x in expansions(self.rd, n.ast, n, depth=4)):
                return True
        except Exception:
            pass
        if "isEnabledFor" in t:
            return True
        if isinstance(n.ast, ast.Name) and n.ast.id in self.rd.params and n.ast.id.startswith("only"):
            return True
        return False

    def traces(self, start: Node, head: Optional[Node] = None, in_arg_loop=False, limit=4000) -> List[list]:
        g = self.cfg
        out: List[str] = []
        seen_out = set()

        def emit(trace):
            self.paths += 1
            if self.paths > limit:
                raise Undecided(f"more than {limit} paths in {self.fn.key}")
            k = json.dumps(trace, ensure_ascii=False)
            if k not in seen_out:
                seen_out.add(k)
                out.append(k)

        def walk(n: Node, trace: list, visited: frozenset):
            while True:
                if n is g.exit:
                    emit(trace)
                    return
                if n is g.raise_:
                    emit(trace + [["end", "raise"]])
                    return
                if head is not None and n is head:
                    emit(trace)
                    return
                if n.id in visited and n.kind in ("for", "join"):
                    emit(trace + [["end", "loop-back"]])
                    return
                if n.kind == "for":
                    it = self.canon(n.ast.iter, n)
                    is_arg = ".arguments" in self.rd.canon(n.ast.iter, n)
                    body_start = [m for m, l in n.succ if l == "loop"][0]
                    sub = self.traces(body_start, head=n, in_arg_loop=in_arg_loop or is_arg)
                    sub = [t for t in sub if t]
                    if sub:
                        trace = trace + [["loop", it, sorted(sub, key=lambda t: json.dumps(t, ensure_ascii=False))]]
                    visited = visited | {n.id}
                    n = [m for m, l in n.succ if l == "done"][0]
                    continue
                if n.kind == "test":
                    visited2 = visited | {n.id}
                    skip = self.abstracted(n, in_arg_loop)
                    text = None if skip else self.canon(n.ast, n)
                    for m, l in n.succ:
                        if l in (True, False):
                            walk(m, trace if skip else trace + [["if", text, l]], visited2)
                    return
                if n.kind == "stmt":
                    if isinstance(n.ast, ast.Raise):
                        name = ""
                        if n.ast.exc is not None:
                            e = n.ast.exc.func if isinstance(n.ast.exc, ast.Call) else n.ast.exc
                            name = dotted(e) or ""
                        if not name.startswith("__InlineReturn"):
                            emit(trace + [["end", f"raise:{name}"]])
                            return
                    if isinstance(n.ast, ast.Return) and n.ast.value is not None and head is None:
                        v = self.rd.canon(n.ast.value, n)
                        from .dataflow import expansions

                        try:
                            vs = expansions(self.rd, n.ast.value, n, depth=4) | {v}
                        except Exception:
                            vs = {v}
                        if not any(w in x for x in vs for w in ("raw_identifier", "full_identifier")):
                            trace = trace + [["end", "return " + self.canon(n.ast.value, n)]]
                    trace = trace + self.items(n)
                explicit = all(l == "exc" for _, l in n.succ)
                nxt = [(m, l) for m, l in n.succ if l != "exc" or explicit]
                if not nxt:
                    emit(trace)
                    return
                if len(nxt) == 1:
                    visited = visited | {n.id}
                    n = nxt[0][0]
                    continue
                visited2 = visited | {n.id}
                for m, l in nxt:
                    walk(m, trace, visited2)
                return

        walk(start, [], frozenset())
        return [json.loads(k) for k in out]


def _renum(obj):
    return json.loads(renumber(json.dumps(obj, ensure_ascii=False)))


def kind_of(cond: str) -> str:
    c = renumber(cond)
    if c == "$1 is None":
        return "None"
    if c.startswith("isinstance($1, ") and c.endswith(")"):
        return c[len("isinstance($1, "):-1]
    return "?" + c


def extract_update(tree: Tree) -> dict:
    cls = tree.cls("core.objects", "HashComputer")
    tags = class_bytes_constants(cls.node)
    fn = tree.func("core.objects", "HashComputer.update")
    ex = Extractor(tree, fn, tags)
    traces = ex.traces(ex.cfg.entry)
    kinds: List[str] = []
    groups: Dict[str, List[list]] = {}
    for t in traces:
        i = 0
        kind = "else"
        while i < len(t) and t[i][0] == "if" and (kind_of(t[i][1])[0] != "?"):
            k = kind_of(t[i][1])
            if k not in kinds:
                kinds.append(k)
            if t[i][2] is True:
                kind = k
                i += 1
                break
            i += 1
        groups.setdefault(kind, []).append(t[i:])
    if not kinds:
        raise Undecided("HashComputer.update: no value-kind dispatch (isinstance chain on the value) found")
    order = kinds + (["else"] if "else" in groups else [])
    branches = []
    for k in order:
        ts = sorted((_renum(t) for t in groups.get(k, [])), key=lambda t: json.dumps(t, ensure_ascii=False))
        branches.append([k, ts])
    model = {"tags": {k: v.hex() for k, v in sorted(tags.items())}, "branches": branches}
    return {"model": model, "unknown_helpers": ex.unknown_helpers, "extractor": ex}


def extract_fn(tree: Tree, modname: str, qual: str, tags) -> dict:
    fn = tree.func(modname, qual)
    ex = Extractor(tree, fn, tags)
    traces = ex.traces(ex.cfg.entry)
    ts = sorted((_renum(t) for t in traces if t), key=lambda t: json.dumps(t, ensure_ascii=False))
    uniq = []
    for t in ts:
        if t not in uniq:
            uniq.append(t)
    return {"terms": uniq, "unknown_helpers": ex.unknown_helpers, "extractor": ex}


def full_model(tree: Tree) -> dict:
    up = extract_update(tree)
    tags = {k: bytes.fromhex(v) for k, v in up["model"]["tags"].items()}
    ids = extract_fn(tree, "core.objects", "ConfigInformation.identifiers", tags)
    comp = extract_fn(tree, "core.objects", "HashComputer.compute", tags)
    return {
        "update": up["model"],
        "identifiers": ids["terms"],
        "compute": comp["terms"],
        "_unknown_helpers": up["unknown_helpers"] + ids["unknown_helpers"] + comp["unknown_helpers"],
    }


# ---------------------------------------------------------------- queries on traces


def walk_items(trace, pred=None):
    for it in trace:
        if pred is None or pred(it):
            yield it
        if it and it[0] == "loop":
            for sub in it[2]:
                yield from walk_items(sub, pred)


def emits(trace) -> list:
    return [it for it in walk_items(trace, lambda x: x[0] in ("emit", "rec"))]


def loops(trace) -> list:
    return [it for it in walk_items(trace, lambda x: x[0] == "loop")]


def find_terms(terms, pred, path=()):
    for i, t in enumerate(terms):
        for it in walk_items(t, pred):
            yield path + (i,), it


def flat_emits(terms) -> list:
    return [it for t in terms for it in emits(t)]
