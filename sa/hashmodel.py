"""Extraction of the identifier byte-stream model (DESIGN A7) from HashComputer.update,
HashComputer.compute and ConfigInformation.identifiers.

A model is a tree of terms, independent of local names and statement layout:
  ["emit", ["tag", NAME, HEX]]                 a tag byte resolved by value
  ["emit", ["pack", FMT, EXPR]]                struct.pack
  ["emit", ["text", ENCODING, EXPR]]           str.encode
  ["emit", ["bytes", EXPR]]                    anything else fed to the hasher
  ["rec", EXPR]                                recursive update of a value
  ["sort", EXPR, KEY]                          in-place sort of a local sequence
  ["for", ITER, BODY]  ["if", COND, THEN, ELSE]  ["continue"] ["return", EXPR] ["raise", NAME]
  ["call", EXPR]                               any other call statement (not logging)
EXPR are canonical expression texts (locals substituted/renamed by binding site).
"""

from __future__ import annotations

import ast
import json
from typing import Dict, List, Optional, Tuple

from .astq import dotted, is_logging_call, src, walk_local
from .cfg import CFG, Node
from .dataflow import ReachingDefs, renumber
from .loader import Func, Tree, Undecided


def class_bytes_constants(cls_node: ast.ClassDef) -> Dict[str, bytes]:
    out = {}
    for s in cls_node.body:
        if isinstance(s, ast.Assign) and len(s.targets) == 1 and isinstance(s.targets[0], ast.Name):
            if isinstance(s.value, ast.Constant) and isinstance(s.value.value, bytes):
                out[s.targets[0].id] = s.value.value
    return out


class Extractor:
    def __init__(self, tree: Tree, fn: Func, tags: Dict[str, bytes], tagclass: str = "HashComputer"):
        self.tree = tree
        self.fn = fn
        self.tags = tags
        self.tagclass = tagclass
        self.cfg = CFG(fn.node)
        self.rd = ReachingDefs(self.cfg)
        self.unknown_helpers: List[str] = []
        # local names bound to a HashComputer instance (HashComputer.compute uses `self = HashComputer(...)`)
        self.computers = {"self"}
        # local names bound to a hashlib object
        self.hashers = set()
        for n in self.cfg.live:
            for d in self.rd.gen[n.id]:
                if d.kind == "assign" and isinstance(d.value, ast.Call):
                    dn = dotted(d.value.func) or ""
                    if dn.startswith("hashlib."):
                        self.hashers.add(d.name)
                    if dn.split(".")[-1] == tagclass:
                        self.computers.add(d.name)

    def node_of(self, astnode) -> Node:
        ns = self.cfg.nodes_of(astnode)
        if not ns:
            raise Undecided(f"statement at line {getattr(astnode, 'lineno', '?')} of {self.fn.key} is unreachable in the CFG")
        return ns[0]

    def canon(self, e, at: Node) -> str:
        return self.rd.acanon(e, at)

    def is_sink(self, c: ast.Call) -> bool:
        d = dotted(c.func) or ""
        parts = d.split(".")
        if len(parts) == 2 and parts[0] in self.computers and parts[1] == "_hashupdate":
            return True
        if parts[-1] == "update" and len(parts) >= 2:
            base = ".".join(parts[:-1])
            if base in self.hashers or base == "self._hasher":
                return True
        return False

    def describe(self, arg, at: Node):
        # tag constant?
        d = dotted(arg)
        if d:
            parts = d.split(".")
            if len(parts) == 2 and parts[0] in (self.tagclass, "self", "cls") and parts[1] in self.tags:
                return ["tag", parts[1], self.tags[parts[1]].hex()]
        if isinstance(arg, ast.Constant) and isinstance(arg.value, bytes):
            return ["tag", "<literal>", arg.value.hex()]
        if isinstance(arg, ast.Call):
            dn = dotted(arg.func) or ""
            if dn == "struct.pack" and arg.args and isinstance(arg.args[0], ast.Constant):
                return ["pack", arg.args[0].value] + [self.canon(a, at) for a in arg.args[1:]]
            if isinstance(arg.func, ast.Attribute) and arg.func.attr == "encode":
                enc = "utf-8"
                if arg.args and isinstance(arg.args[0], ast.Constant):
                    enc = str(arg.args[0].value)
                for kw in arg.keywords:
                    if kw.arg == "encoding" and isinstance(kw.value, ast.Constant):
                        enc = str(kw.value.value)
                enc = enc.lower().replace("_", "-")
                if enc == "utf8":
                    enc = "utf-8"
                return ["text", enc, self.canon(arg.func.value, at)]
        return ["bytes", self.canon(arg, at)]

    def block(self, stmts) -> list:
        out = []
        for s in stmts:
            out += self.stmt(s)
        return out

    def stmt(self, s) -> list:
        if isinstance(s, ast.If):
            at = self.node_of(self._first_atom(s.test))
            then = self.block(s.body)
            els = self.block(s.orelse)
            if not then and not els:
                return []
            return [["if", self.canon_cond(s.test), then, els]]
        if isinstance(s, (ast.For, ast.AsyncFor)):
            at = self.node_of(s.iter)
            body = self.block(s.body)
            if not body:
                return []
            return [["for", self.canon(s.iter, at), body]]
        if isinstance(s, (ast.With, ast.AsyncWith)):
            return self.block(s.body)
        if isinstance(s, ast.Try) and len(s.handlers) == 1 and isinstance(s.handlers[0].type, ast.Name) and s.handlers[0].type.id.startswith("__InlineReturn"):
            return self.block(s.body)
        if isinstance(s, ast.Try):
            out = self.block(s.body)
            for h in s.handlers:
                hb = self.block(h.body)
                if hb:
                    out.append(["except", src(h.type) if h.type else "", hb])
            out += self.block(s.orelse) + self.block(s.finalbody)
            return out
        if isinstance(s, ast.Expr) and isinstance(s.value, ast.Call):
            c = s.value
            at = self.node_of(c)
            if is_logging_call(c):
                return []
            d = dotted(c.func) or ""
            if self.is_sink(c):
                if len(c.args) != 1:
                    raise Undecided(f"hasher sink with {len(c.args)} arguments at {self.fn.key}:{s.lineno}")
                return [["emit", self.describe(c.args[0], at)]]
            if len(d.split(".")) == 2 and d.split(".")[0] in self.computers and d.split(".")[1] == "update":
                kw = {k.arg: src(k.value) for k in c.keywords}
                t = ["rec", self.canon(c.args[0], at)]
                if kw:
                    t.append(kw)
                return [t]
            if isinstance(c.func, ast.Attribute) and c.func.attr == "sort":
                key = ""
                for k in c.keywords:
                    if k.arg == "key":
                        key = self.canon(k.value, at)
                    if k.arg == "reverse":
                        key += f" reverse={src(k.value)}"
                return [["sort", self.canon(c.func.value, at), key]]
            if d.startswith("self.") and d.count(".") == 1:
                self.unknown_helpers.append(d)
            return [["call", self.canon(c, at)]]
        if isinstance(s, ast.Expr):
            return []
        if isinstance(s, ast.Return):
            at = self.node_of(s.value) if s.value is not None else None
            return [["return", self.canon(s.value, at) if s.value is not None else ""]]
        if isinstance(s, ast.Continue):
            return [["continue"]]
        if isinstance(s, ast.Break):
            return [["break"]]
        if isinstance(s, ast.Raise) and isinstance(s.exc, ast.Name) and s.exc.id.startswith("__InlineReturn"):
            return [["return", ""]]
        if isinstance(s, ast.Raise):
            e = s.exc.func if isinstance(s.exc, ast.Call) else s.exc
            return [["raise", dotted(e) or "" if e is not None else ""]]
        if isinstance(s, (ast.Assign, ast.AnnAssign, ast.AugAssign)):
            # helper calls hidden in assignments are inlined by canonicalisation; calls with hashing
            # effects in an assignment are not a shape we model
            for c in walk_local(s):
                if isinstance(c, ast.Call) and (self.is_sink(c) or ((dotted(c.func) or "").split(".")[-1] == "update" and (dotted(c.func) or "").split(".")[0] in self.computers and (dotted(c.func) or "").count(".") == 1)):
                    raise Undecided(f"hasher call inside an assignment at {self.fn.key}:{s.lineno}")
            return []
        if isinstance(s, (ast.Pass, ast.Import, ast.ImportFrom, ast.Global, ast.Nonlocal, ast.Assert)):
            return []
        if isinstance(s, (ast.FunctionDef, ast.AsyncFunctionDef, ast.ClassDef)):
            return []
        raise Undecided(f"unmodelled statement {type(s).__name__} at {self.fn.key}:{s.lineno}")

    def _first_atom(self, e):
        while True:
            if isinstance(e, ast.BoolOp):
                e = e.values[0]
            elif isinstance(e, ast.UnaryOp) and isinstance(e.op, ast.Not):
                e = e.operand
            else:
                return e

    def canon_cond(self, e) -> str:
        """Canonical text of a (possibly compound) condition; each atom canonicalised at its node"""
        if isinstance(e, ast.BoolOp):
            op = " and " if isinstance(e.op, ast.And) else " or "
            return "(" + op.join(self.canon_cond(v) for v in e.values) + ")"
        if isinstance(e, ast.UnaryOp) and isinstance(e.op, ast.Not):
            return "not " + self.canon_cond(e.operand)
        if isinstance(e, ast.Constant):
            return src(e)
        return normalise_atom(self.canon(e, self.node_of(e)))


def normalise_atom(text: str) -> str:
    return text


def kind_of(cond: str) -> str:
    c = renumber(cond)
    if c == "$1 is None":
        return "None"
    if c.startswith("isinstance($1, ") and c.endswith(")"):
        return c[len("isinstance($1, "):-1]
    return "?" + c


def extract_update(tree: Tree) -> dict:
    cls = tree.cls("core.objects", "HashComputer")
    tags = class_bytes_constants(cls.node)
    fn = tree.func("core.objects", "HashComputer.update")
    ex = Extractor(tree, fn, tags)
    body = [s for s in fn.node.body if not (isinstance(s, ast.Expr) and isinstance(s.value, ast.Constant))]
    branches: List[Tuple[str, list]] = []
    prelude = []
    chain = None
    for s in body:
        if isinstance(s, ast.If) and chain is None:
            chain = s
        elif chain is None:
            prelude += ex.stmt(s)
        else:
            raise Undecided("HashComputer.update: statements after the value-kind dispatch chain")
    if chain is None:
        raise Undecided("HashComputer.update: no isinstance dispatch chain found (table dispatch is not modelled)")
    s = chain
    while True:
        cond = ex.canon_cond(s.test)
        branches.append((kind_of(cond), ex.block(s.body)))
        if len(s.orelse) == 1 and isinstance(s.orelse[0], ast.If):
            s = s.orelse[0]
            continue
        if s.orelse:
            branches.append(("else", ex.block(s.orelse)))
        break
    model = {
        "tags": {k: v.hex() for k, v in sorted(tags.items())},
        "prelude": prelude,
        "branches": [[k, json.loads(renumber(json.dumps(t, ensure_ascii=False)))] for k, t in branches],
    }
    return {"model": model, "unknown_helpers": ex.unknown_helpers, "extractor": ex, "raw_branches": branches}


def extract_fn(tree: Tree, modname: str, qual: str, tags) -> dict:
    fn = tree.func(modname, qual)
    ex = Extractor(tree, fn, tags)
    body = [s for s in fn.node.body if not (isinstance(s, ast.Expr) and isinstance(s.value, ast.Constant))]
    terms = ex.block(body)
    return {"terms": json.loads(renumber(json.dumps(terms, ensure_ascii=False))), "raw": terms, "unknown_helpers": ex.unknown_helpers, "extractor": ex}


def abstract_decisions(terms, in_arg_loop=False):
    """Remove from a term list what other rules decide semantically, so that the wire model does
    not freeze it as text: (a) the skip logic of the argument loop (`if ...: continue`, decided by
    the C02.R2 decision table) and (b) cache guards (conditions on _sealed / cached identifiers and
    early returns of cached values, decided by C01.R3)."""
    out = []
    for t in terms:
        if t[0] == "if":
            cond = t[1]
            then = abstract_decisions(t[2], in_arg_loop)
            els = abstract_decisions(t[3], in_arg_loop)
            if in_arg_loop and not then and not els:
                continue
            if any(k in cond for k in ("_sealed", "_full_identifier", "_raw_identifier")):
                if not then and not els:
                    continue
                out.append(["if", "<cache-guard>", then, els])
                continue
            if not then and not els:
                continue
            out.append(["if", cond, then, els])
        elif t[0] == "for":
            is_arg = ".arguments" in t[1]
            out.append(["for", t[1], abstract_decisions(t[2], in_arg_loop or is_arg)])
        elif t[0] == "continue" and in_arg_loop:
            continue
        elif t[0] == "return" and any(k in (t[1] or "") for k in ("_raw_identifier", "_full_identifier", "raw_identifier", "full_identifier")):
            continue
        else:
            out.append(t)
    return out


def full_model(tree: Tree) -> dict:
    up = extract_update(tree)
    tags = {k: bytes.fromhex(v) for k, v in up["model"]["tags"].items()}
    ids = extract_fn(tree, "core.objects", "ConfigInformation.identifiers", tags)
    comp = extract_fn(tree, "core.objects", "HashComputer.compute", tags)

    def norm(raw):
        return json.loads(renumber(json.dumps(abstract_decisions(raw), ensure_ascii=False)))

    model = dict(up["model"])
    model["branches"] = [[k, norm(t)] for k, t in up["raw_branches"]]
    return {
        "update": model,
        "identifiers": norm(ids["raw"]),
        "compute": norm(comp["raw"]),
        "_unknown_helpers": up["unknown_helpers"] + ids["unknown_helpers"] + comp["unknown_helpers"],
    }


def find_terms(terms, pred, path=()):
    """Depth-first iteration over (path, term)"""
    for i, t in enumerate(terms):
        if pred(t):
            yield path + (i,), t
        if t and t[0] == "if":
            yield from find_terms(t[2], pred, path + (i, "then"))
            yield from find_terms(t[3], pred, path + (i, "else"))
        elif t and t[0] == "for":
            yield from find_terms(t[2], pred, path + (i, "body"))
        elif t and t[0] == "except":
            yield from find_terms(t[2], pred, path + (i, "handler"))


def flat_emits(terms) -> list:
    """All emit/rec terms in order, ignoring control structure"""
    return [t for _, t in find_terms(terms, lambda t: t and t[0] in ("emit", "rec"))]
