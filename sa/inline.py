"""Helper extraction is not semantics: functions that did not exist when the rules were written
(not in spec/param_names.json) and are only *called* from functions of the same class / module are
spliced into their callers before analysis, so that a rule sees the same statements in the same
lexical and control-flow context as before the refactoring.

A `return v` inside the helper becomes `__inlK_ret = v; raise __InlineReturnK`, the spliced body is
wrapped in `try: ... except __InlineReturnK: pass`; the CFG routes that synthetic exception exactly
like a return out of the helper (through the with-exits / finally blocks of the helper only) and never
routes anything else to the synthetic handler.
"""

from __future__ import annotations

import ast
from typing import Dict, List, Optional

from .astq import FUNC_TYPES, ast_copy

SYN = "__InlineReturn"
PY_SPECIAL = {f"__{x}__" for x in """init new del repr str bytes format lt le eq ne gt ge hash bool getattr getattribute setattr delattr dir get set delete set_name
init_subclass class_getitem call len length_hint getitem setitem delitem missing iter next reversed contains add sub mul matmul truediv floordiv mod divmod pow lshift rshift
and xor or radd rsub rmul rmatmul rtruediv rfloordiv rmod rdivmod rpow rlshift rrshift rand rxor ror iadd isub imul imatmul itruediv ifloordiv imod ipow ilshift irshift iand ixor ior
neg pos abs invert complex int float index round trunc floor ceil enter exit aenter aexit await aiter anext copy deepcopy reduce reduce_ex getstate setstate getnewargs sizeof fspath
post_init validate getxpmtype xpm xpmtype""".split()}

# pinned helpers that are transparent for the rules: the rules are written against the spliced form, so that inlining them by hand changes nothing
ALWAYS_INLINE = {"core.objects:ConfigInformation.validate_and_seal"}


def is_synthetic_handler(h: ast.ExceptHandler) -> bool:
    return isinstance(h.type, ast.Name) and h.type.id.startswith(SYN)


def is_synthetic_try(s) -> bool:
    return isinstance(s, ast.Try) and len(s.handlers) == 1 and is_synthetic_handler(s.handlers[0]) and not s.finalbody and not s.orelse


def _pure_chain(e) -> bool:
    while isinstance(e, ast.Attribute):
        e = e.value
    return isinstance(e, ast.Name)


def only_tail_false(body, returns) -> bool:
    return False


class Inliner:
    def __init__(self, tree, pinned: set):
        self.tree = tree
        self.pinned = pinned
        self.counter = 0
        self.log: List[str] = []
        self._spliced: Dict[str, set] = {}
        self.generators: Dict[str, object] = {}

    # ---- candidates
    def candidates(self) -> Dict[str, object]:
        out = {}
        for key, f in self.tree.funcs.items():
            if f.module.is_test() or (key in self.pinned and key not in ALWAYS_INLINE) or (f.parent is not None and f.cls is None):
                continue  # plain nested functions are closures; methods of a class defined inside a function are ordinary methods
            n = f.node
            if n.name.startswith("__") and n.name.endswith("__") and n.name in PY_SPECIAL:
                continue
            if n.args.vararg or n.args.kwarg:
                continue
            if any(isinstance(x, (ast.Yield, ast.YieldFrom)) for x in ast.walk(n)):
                if self._simple_generator(n) is not None and not (f.cls is not None and any(f.name in k.methods and k is not f.cls for k in self.tree.classes.values() if f.cls in self.tree.mro(k) or k in self.tree.mro(f.cls))) \
                        and not [d for d in n.decorator_list if ast.unparse(d) != "staticmethod"]:
                    self.generators[key] = f
                continue
            decos = [ast.unparse(d) for d in n.decorator_list]
            if any(d not in ("staticmethod",) for d in decos):
                continue
            if f.cls is not None and any(f.name in k.methods and k is not f.cls for k in self.tree.classes.values() if f.cls in self.tree.mro(k) or k in self.tree.mro(f.cls)):
                continue  # overridden / overriding: polymorphic
            out[key] = f
        return out

    @staticmethod
    def _simple_generator(n):
        """(statements before the loop, the loop, the yield statement) of a generator of the form
        `<prelude>; for v in it: <body whose only yield is in tail position>` -- nothing after the loop, no return, no other yield"""
        if isinstance(n, ast.AsyncFunctionDef) or n.args.vararg or n.args.kwarg:
            return None
        body = [x for x in n.body if not (isinstance(x, ast.Expr) and isinstance(x.value, ast.Constant) and isinstance(x.value.value, str))]
        if not body or not isinstance(body[-1], ast.For) or body[-1].orelse:
            return None
        loop = body[-1]
        ys = [x for x in ast.walk(n) if isinstance(x, (ast.Yield, ast.YieldFrom))]
        if len(ys) != 1 or isinstance(ys[0], ast.YieldFrom) or ys[0].value is None:
            return None
        if any(isinstance(x, ast.Return) for x in ast.walk(n)) or any(isinstance(x, (ast.Yield, ast.YieldFrom)) for b in body[:-1] for x in ast.walk(b)):
            return None
        # the yield is an expression statement in tail position of the loop body (through trailing if / else / with / try bodies only)
        def tail(stmts):
            if not stmts:
                return None
            last = stmts[-1]
            if isinstance(last, ast.Expr) and last.value is ys[0]:
                return (stmts, len(stmts) - 1)
            if isinstance(last, ast.If):
                return tail(last.body) or tail(last.orelse)
            return None

        pos = tail(loop.body)
        if pos is None:
            return None
        # no inner loop may contain the yield (a `break` of the consumer must end everything)
        for x in ast.walk(loop):
            if x is not loop and isinstance(x, (ast.For, ast.While)) and any(y is ys[0] for y in ast.walk(x)):
                return None
        return body[:-1], loop, pos

    def _try_splice_generator(self, s, f):
        """`for T in gen(args): B`  ->  the generator's own loop with `T = <yielded value>; B` in place of its yield"""
        if not (isinstance(s, ast.For) and not s.orelse and isinstance(s.iter, ast.Call)):
            return None
        c = s.iter
        g = self._callee(c, f, self.generators)
        if g is None or g is f:
            return None
        a = g.node.args
        params = [x.arg for x in a.posonlyargs + a.args]
        is_method = g.cls is not None and not any(ast.unparse(d) == "staticmethod" for d in g.node.decorator_list)
        if is_method:
            params = params[1:]
        if any(isinstance(x, ast.Starred) for x in c.args) or c.keywords or len(c.args) != len(params) or a.kwonlyargs or a.defaults:
            return None
        self.counter += 1
        prefix = f"__gen{self.counter}_"
        from .loader import local_bindings

        fa = f.node.args
        caller_names = {x.arg for x in fa.posonlyargs + fa.args + fa.kwonlyargs} | {n.id for n in ast.walk(f.node) if isinstance(n, ast.Name)}
        locals_ = [n for n, _ in local_bindings(g.node)]
        assigned = {n.id for n in ast.walk(g.node) if isinstance(n, ast.Name) and isinstance(n.ctx, (ast.Store, ast.Del))}
        rename, subst, pre = {}, {}, []
        for p_, v in zip(params, c.args):
            pure = isinstance(v, (ast.Name, ast.Constant)) or (isinstance(v, ast.Attribute) and _pure_chain(v))
            if pure and p_ not in assigned:
                subst[p_] = v
            else:
                rename[p_] = prefix + p_
                st = ast.Assign(targets=[ast.Name(id=prefix + p_, ctx=ast.Store())], value=ast_copy(v))
                ast.copy_location(st, s)
                pre.append(st)
        for n in locals_:
            rename[n] = (prefix + n) if n in caller_names else n
        copy = ast_copy(g.node)
        got = self._simple_generator(copy)
        if got is None:
            return None
        prelude, loop, (stmts, idx) = got

        class R(ast.NodeTransformer):
            def visit_Name(self, n):
                if n.id in subst and isinstance(n.ctx, ast.Load):
                    return ast.copy_location(ast_copy(subst[n.id]), n)
                if n.id in rename:
                    n.id = rename[n.id]
                return n

        yielded = stmts[idx].value.value
        bind = ast.Assign(targets=[s.target], value=yielded)
        ast.copy_location(bind, s)
        stmts[idx:idx + 1] = ["__BODY__"]
        block = [R().visit(x) for x in prelude] + [loop]
        # rename inside the loop (the consumer's body is inserted afterwards, untouched)
        def ren(stmts_):
            for k_, x in enumerate(stmts_):
                if x == "__BODY__":
                    continue
                if isinstance(x, ast.If):
                    x.test = R().visit(x.test)
                    ren(x.body)
                    ren(x.orelse)
                else:
                    stmts_[k_] = R().visit(x)
        loop.target = R().visit(loop.target)
        loop.iter = R().visit(loop.iter)
        ren(loop.body)
        bind.value = R().visit(bind.value)

        def put(stmts_):
            for k_, x in enumerate(stmts_):
                if x == "__BODY__":
                    stmts_[k_:k_ + 1] = [bind] + s.body
                    return True
                if isinstance(x, ast.If) and (put(x.body) or put(x.orelse)):
                    return True
            return False

        if not put(loop.body):
            return None
        out = pre + block
        for b in out:
            ast.fix_missing_locations(b)
        self._spliced.setdefault(g.key, set()).add(f.key)
        return out

    def _callee(self, call: ast.Call, caller, cands):
        fn = call.func
        if isinstance(fn, ast.Attribute) and isinstance(fn.value, ast.Name) and caller.cls is not None:
            if fn.value.id in ("self", "cls", caller.cls.qual.split(".")[-1]):
                key = f"{caller.module.name}:{caller.cls.qual}.{fn.attr}"
                if key in cands:
                    return cands[key]
                # a helper inherited from a base class of the same module (not overridden: see candidates())
                for k in self.tree.mro(caller.cls)[1:]:
                    key = f"{k.module.name}:{k.qual}.{fn.attr}"
                    if key in cands and k.module is caller.module:
                        return cands[key]
                    if fn.attr in k.methods:
                        break
                return None
        if isinstance(fn, ast.Name):
            key = f"{caller.module.name}:{fn.id}"
            c = cands.get(key)
            if c is not None and c.cls is None:
                return c
        return None

    # ---- main
    def run(self):
        cands = self.candidates()
        if not cands and not self.generators:
            return
        # generators referenced otherwise than as `for ... in gen(...)` stay functions
        for key, g in list(self.generators.items()):
            name = g.name
            for n in ast.walk(g.module.tree):
                ref = (isinstance(n, ast.Attribute) and n.attr == name) or (g.cls is None and isinstance(n, ast.Name) and n.id == name and isinstance(n.ctx, ast.Load))
                if ref:
                    par = getattr(n, "_parent", None)
                    gp = getattr(par, "_parent", None)
                    if not (isinstance(par, ast.Call) and par.func is n and isinstance(gp, ast.For) and gp.iter is par):
                        self.generators.pop(key, None)
        # a new module-level function that is one expression, passed as a value (`key=_item_key`), is the lambda it stands for
        for key, g in list(cands.items()):
            body = [x for x in g.node.body if not (isinstance(x, ast.Expr) and isinstance(x.value, ast.Constant) and isinstance(x.value.value, str))]
            a = g.node.args
            if g.cls is not None or len(body) != 1 or not isinstance(body[0], ast.Return) or body[0].value is None or a.defaults or a.kwonlyargs or isinstance(g.node, ast.AsyncFunctionDef):
                continue
            for n in list(ast.walk(g.module.tree)):
                if isinstance(n, ast.Name) and n.id == g.name and isinstance(n.ctx, ast.Load):
                    par = getattr(n, "_parent", None)
                    if par is None or (isinstance(par, ast.Call) and par.func is n):
                        continue
                    # fresh parameter names: the function's own may be locals of the place it is passed from
                    ren = {x.arg: f"__fv_{x.arg}" for x in a.posonlyargs + a.args}
                    lbody = ast_copy(body[0].value)
                    for y in ast.walk(lbody):
                        if isinstance(y, ast.Name) and y.id in ren:
                            y.id = ren[y.id]
                    lam = ast.Lambda(args=ast.arguments(posonlyargs=[], args=[ast.arg(arg=ren[x.arg]) for x in a.posonlyargs + a.args], kwonlyargs=[], kw_defaults=[], defaults=[]),
                                     body=lbody)
                    ast.copy_location(lam, n)
                    ast.fix_missing_locations(lam)
                    for fld, val in ast.iter_fields(par):
                        if val is n:
                            setattr(par, fld, lam)
                        elif isinstance(val, list) and any(v is n for v in val):
                            setattr(par, fld, [lam if v is n else v for v in val])
                    lam._parent = par
                    self._spliced.setdefault(key, set()).add("(as a value)")
        # any reference that is not a direct call disqualifies a candidate
        for key, g in list(cands.items()):
            name = g.name
            for n in ast.walk(g.module.tree):
                if isinstance(n, ast.Attribute) and n.attr == name and not (isinstance(getattr(n, "_parent", None), ast.Call) and n._parent.func is n):
                    cands.pop(key, None)
                if g.cls is None and isinstance(n, ast.Name) and n.id == name and isinstance(n.ctx, ast.Load) and not (
                        isinstance(getattr(n, "_parent", None), ast.Call) and n._parent.func is n):
                    cands.pop(key, None)
        # recursive helpers (directly or through other new helpers) cannot be spliced
        def calls_of(g):
            return {h.key for c in ast.walk(g.node) if isinstance(c, ast.Call) for h in [self._callee(c, g, cands)] if h is not None}

        graph = {k: calls_of(g) for k, g in cands.items()}
        for k in list(cands):
            seen, stack = set(), list(graph.get(k, ()))
            while stack:
                x = stack.pop()
                if x == k:
                    cands.pop(k, None)
                    break
                if x in seen:
                    continue
                seen.add(x)
                stack.extend(graph.get(x, ()))
        remaining_refs = {k: 0 for k in cands}
        for _ in range(3):
            changed = False
            for f in list(self.tree.funcs.values()):
                if f.module.is_test():
                    continue
                if self._inline_in(f, cands, remaining_refs):
                    changed = True
            if not changed:
                break
        # helpers all of whose call sites were spliced disappear from the function tables
        for key, g in list(cands.items()) + list(self.generators.items()):
            if remaining_refs.get(key, 0) == 0 and self._spliced.get(key):
                self.tree.funcs.pop(key, None)
                if g.cls is not None:
                    g.cls.methods.pop(g.name, None)
                self.log.append(f"{key} spliced into {sorted(self._spliced[key])}")
        for m in self.tree.modules.values():
            for parent in ast.walk(m.tree):
                for child in ast.iter_child_nodes(parent):
                    child._parent = parent

    def _inline_in(self, f, cands, remaining) -> bool:
        changed = False

        def process(body: list):
            nonlocal changed
            i = 0
            while i < len(body):
                s = body[i]
                # recurse into compound statements first
                for field in ("body", "orelse", "finalbody"):
                    sub = getattr(s, field, None)
                    if isinstance(sub, list) and sub and isinstance(sub[0], ast.stmt) and not isinstance(s, FUNC_TYPES + (ast.ClassDef,)):
                        process(sub)
                if isinstance(s, ast.Try):
                    for h in s.handlers:
                        process(h.body)
                rep = self._try_splice_generator(s, f) if self.generators else None
                if rep is None:
                    rep = self._try_splice(s, f, cands)
                if rep is not None:
                    body[i:i + 1] = rep
                    changed = True
                    # the spliced block may itself contain calls to other helpers: revisit it
                    continue
                # calls in unsupported positions keep the helper alive
                for c in ast.walk(s) if not isinstance(s, FUNC_TYPES + (ast.ClassDef,)) else []:
                    if isinstance(c, ast.Call):
                        g = self._callee(c, f, cands)
                        if g is not None and g is not f and not getattr(c, "_counted", False):
                            c._counted = True
                            remaining[g.key] = remaining.get(g.key, 0) + 1
                i += 1

        process(f.node.body)
        return changed

    def _supported_position(self, s, c) -> bool:
        return self._site(s) is c

    @staticmethod
    def _strip_await(e):
        return e.value if isinstance(e, ast.Await) else e

    def _site(self, s) -> Optional[ast.Call]:
        """The call whose result the statement consumes directly, if the statement has a supported form"""
        e = None
        if isinstance(s, ast.Expr):
            e = s.value
        elif isinstance(s, ast.Assign) and len(s.targets) == 1:
            e = s.value  # the right-hand side is evaluated before the target's sub-expressions
        elif isinstance(s, ast.AnnAssign) and isinstance(s.target, ast.Name) and s.value is not None:
            e = s.value
        elif isinstance(s, ast.Return) and s.value is not None:
            e = s.value
        elif isinstance(s, ast.If):
            e = s.test
            if isinstance(e, ast.UnaryOp) and isinstance(e.op, ast.Not):
                e = e.operand
        if e is None:
            return None
        e = self._strip_await(e)
        return e if isinstance(e, ast.Call) else None

    def _hoist(self, s, f, cands):
        """A helper call nested in the part of `s` that is evaluated first and exactly once: everything evaluated before it is bound to
        temporaries (in evaluation order), the call itself to `__inlvK`, so that the next visit can splice `__inlvK = helper(...)`"""
        from .normalise import _eval_order, _header_exprs

        if isinstance(s, FUNC_TYPES + (ast.ClassDef,)):
            return None
        top = self._site(s)
        for h in _header_exprs(s):
            target = None
            for x, cond in _eval_order(h):
                if isinstance(x, ast.Call) and x is not top and not cond:
                    g = self._callee(x, f, cands)
                    if g is not None and g is not f and not any(isinstance(p, ast.Await) and p.value is x for p in ast.walk(h)) \
                            and not isinstance(g.node, ast.AsyncFunctionDef):
                        target = x
                        break
                if isinstance(x, (ast.NamedExpr, ast.Yield, ast.YieldFrom)):
                    break
            if target is None:
                continue
            # path from the root of the header to the call
            path = []

            def find(n):
                if n is target:
                    return True
                for c in ast.iter_child_nodes(n):
                    if find(c):
                        path.append((n, c))
                        return True
                return False

            if not find(h):
                return None
            path.reverse()
            self.counter += 1
            k = self.counter
            pre = []
            ti = 0

            def pure(e):
                # names, constants and attribute chains (method look-ups): the same purity the alias normal form assumes
                return isinstance(e, (ast.Name, ast.Constant)) or (isinstance(e, ast.Attribute) and _pure_chain(e))

            def temp(e):
                nonlocal ti
                ti += 1
                nm = f"__inlh{k}_{ti}"
                st = ast.Assign(targets=[ast.Name(id=nm, ctx=ast.Store())], value=e)
                ast.copy_location(st, s)
                ast.fix_missing_locations(st)
                pre.append(st)
                new = ast.Name(id=nm, ctx=ast.Load())
                ast.copy_location(new, e)
                return new

            for parent, child in path:
                if isinstance(parent, (ast.BoolOp, ast.IfExp, ast.Lambda, ast.ListComp, ast.SetComp, ast.DictComp, ast.GeneratorExp, ast.Dict)) or (
                        isinstance(parent, ast.Compare) and len(parent.ops) > 1):
                    if not ((isinstance(parent, ast.BoolOp) and parent.values[0] is child) or (isinstance(parent, ast.IfExp) and parent.test is child)):
                        return None
                    continue
                # children evaluated before `child`, in order
                for field, val in ast.iter_fields(parent):
                    if val is child:
                        break
                    if isinstance(val, list):
                        done = False
                        for j, y in enumerate(val):
                            if y is child:
                                done = True
                                break
                            if isinstance(y, ast.expr) and not pure(y):
                                if isinstance(y, ast.Starred):
                                    return None
                                val[j] = temp(y)
                            elif isinstance(y, ast.keyword) and not pure(y.value):
                                y.value = temp(y.value)
                        if done:
                            break
                    elif isinstance(val, ast.expr) and not pure(val):
                        setattr(parent, field, temp(val))
            nm = f"__inlv{k}"
            call_st = ast.Assign(targets=[ast.Name(id=nm, ctx=ast.Store())], value=target)
            ast.copy_location(call_st, s)
            ast.fix_missing_locations(call_st)
            repl = ast.Name(id=nm, ctx=ast.Load())
            ast.copy_location(repl, target)
            parent, _ = path[-1] if path else (None, None)
            if parent is None:
                # the call is the whole header expression (`for x in helper():`, `with helper():`)
                done_ = False
                for field, val in ast.iter_fields(s):
                    if val is target:
                        setattr(s, field, repl)
                        done_ = True
                    elif isinstance(val, list):
                        for y in val:
                            if isinstance(y, ast.withitem) and y.context_expr is target:
                                y.context_expr = repl
                                done_ = True
                return pre + [call_st, s] if done_ else None
            for field, val in ast.iter_fields(parent):
                if val is target:
                    setattr(parent, field, repl)
                elif isinstance(val, list):
                    for j, y in enumerate(val):
                        if y is target:
                            val[j] = repl
            return pre + [call_st, s]
        return None

    def _try_splice(self, s, f, cands):
        c = self._site(s)
        g = self._callee(c, f, cands) if c is not None else None
        if g is None or g is f:
            return self._hoist(s, f, cands)
        awaited = any(isinstance(x, ast.Await) and x.value is c for x in ast.walk(s))
        if isinstance(g.node, ast.AsyncFunctionDef) != awaited:
            return None
        # bind arguments
        a = g.node.args
        params = [x.arg for x in a.posonlyargs + a.args]
        is_method = g.cls is not None and not any(ast.unparse(d) == "staticmethod" for d in g.node.decorator_list)
        if is_method:
            params = params[1:]
        if any(isinstance(x, ast.Starred) for x in c.args) or any(k.arg is None for k in c.keywords):
            return None
        if len(c.args) > len(params):
            return None
        self.counter += 1
        k = self.counter
        prefix = f"__inl{k}_"
        from .loader import local_bindings

        locals_ = [n for n, _ in local_bindings(g.node)]
        kwonly = [x.arg for x in a.kwonlyargs]
        fa = f.node.args
        caller_names = {x.arg for x in fa.posonlyargs + fa.args + fa.kwonlyargs} | {n for n, _ in local_bindings(f.node)} | {
            n.id for n in ast.walk(f.node) if isinstance(n, ast.Name)}
        # helper locals keep their names unless they would capture a name of the caller
        rename = {p: prefix + p for p in params + kwonly}
        for n in locals_:
            rename[n] = (prefix + n) if n in caller_names else n
        assigned_in_g = {n.id for n in ast.walk(g.node) if isinstance(n, ast.Name) and isinstance(n.ctx, (ast.Store, ast.Del))}
        scoped_bound = set()
        for x in ast.walk(g.node):
            if isinstance(x, ast.comprehension):
                scoped_bound |= {y.id for y in ast.walk(x.target) if isinstance(y, ast.Name)}
            elif isinstance(x, ast.Lambda):
                scoped_bound |= {y.arg for y in x.args.posonlyargs + x.args.args + x.args.kwonlyargs}
        subst = {}
        binds = {}
        for p, v in zip(params, c.args):
            binds[p] = v
        for kw in c.keywords:
            if kw.arg not in params + kwonly or kw.arg in binds:
                return None
            binds[kw.arg] = kw.value
        defaults = dict(zip(reversed([x.arg for x in a.posonlyargs + a.args]), reversed(a.defaults)))
        for x, d in zip(a.kwonlyargs, a.kw_defaults):
            if d is not None:
                defaults[x.arg] = d
        # in/out parameters: `a, b = helper(a, b, ...)` where the helper ends with `return a', b'` (its parameters bound to a, b):
        # the parameter *is* the caller's variable
        inout = {}
        if isinstance(s, ast.Assign) and len(s.targets) == 1 and isinstance(s.targets[0], (ast.Tuple, ast.Name)) and s.value is c:
            tgt = s.targets[0].elts if isinstance(s.targets[0], ast.Tuple) else [s.targets[0]]
            gbody = [x for x in g.node.body]
            rets_ = [x for b in gbody for x in ast.walk(b) if isinstance(x, ast.Return)]
            if len(rets_) == 1 and gbody and gbody[-1] is rets_[0] and rets_[0].value is not None:
                rv = rets_[0].value.elts if isinstance(rets_[0].value, ast.Tuple) else [rets_[0].value]
                if len(rv) == len(tgt) and all(isinstance(x, ast.Name) for x in list(rv) + list(tgt)):
                    for r_, t_ in zip(rv, tgt):
                        a_ = binds.get(r_.id)
                        if r_.id in params + kwonly and isinstance(a_, ast.Name) and a_.id == t_.id:
                            inout[r_.id] = t_.id
        pre = []
        for p in params + kwonly:
            v = binds.get(p, defaults.get(p))
            if v is None:
                return None
            if p in inout:
                rename[p] = inout[p]
                continue
            pure = isinstance(v, (ast.Name, ast.Constant)) or (isinstance(v, ast.Attribute) and _pure_chain(v))
            # a name bound by a comprehension / lambda of the helper would capture the substituted argument
            if pure and any(isinstance(x, ast.Name) and x.id in scoped_bound for x in ast.walk(v)):
                pure = False
            if pure and p not in assigned_in_g and not (isinstance(v, ast.Name) and v.id in locals_ and rename.get(v.id) == v.id):
                subst[p] = v
                rename.pop(p, None)
                continue
            st = ast.Assign(targets=[ast.Name(id=rename[p], ctx=ast.Store())], value=ast_copy(v), lineno=c.lineno, col_offset=c.col_offset)
            pre.append(st)
        body = [ast_copy(x) for x in g.node.body]
        body = [x for x in body if not (isinstance(x, ast.Expr) and isinstance(x.value, ast.Constant) and isinstance(x.value.value, str))]
        ret = prefix + "ret"
        exc = f"{SYN}{k}"
        returns = [x for b in body for x in ast.walk(b) if isinstance(x, ast.Return)]
        nested_defs = [x for b in body for x in ast.walk(b) if isinstance(x, FUNC_TYPES + (ast.Lambda,))]
        returns = [r for r in returns if not any(r in list(ast.walk(d)) and r is not d for d in nested_defs)]
        only_tail = len(returns) == 0 or (len(returns) == 1 and body and body[-1] is returns[0])
        # `return helper(...)`: a return of the helper *is* a return of the caller (the helper's own with / finally blocks come along)
        return_site = isinstance(s, ast.Return) and (s.value is c or (isinstance(s.value, ast.Await) and s.value.value is c)) and not only_tail

        class R(ast.NodeTransformer):
            def visit_Name(self, n):
                if n.id in subst and isinstance(n.ctx, ast.Load):
                    return ast.copy_location(ast_copy(subst[n.id]), n)
                if n.id in rename:
                    n.id = rename[n.id]
                return n

            def visit_arg(self, n):
                return n

            def visit_ExceptHandler(self, n):
                if n.name in rename:
                    n.name = rename[n.name]
                self.generic_visit(n)
                return n

            def visit_Return(self, n):
                self.generic_visit(n)
                if return_site:
                    return n
                val = n.value if n.value is not None else ast.Constant(value=None)
                asg = ast.Assign(targets=[ast.Name(id=ret, ctx=ast.Store())], value=val)
                ast.copy_location(asg, n)
                if only_tail:
                    # single return at the tail of the helper: its value replaces the call, no result variable
                    tail_value.append(val)
                    return None
                rs = ast.Raise(exc=ast.Name(id=exc, ctx=ast.Load()), cause=None)
                ast.copy_location(rs, n)
                if specialise is not None:
                    chosen = branch_for(None if n.value is None else val.value)
                    return [asg] + chosen + [rs]
                return [asg, rs]

            def visit_FunctionDef(self, n):
                if getattr(n, "name", None) in rename:
                    n.name = rename[n.name]
                return n  # nested definitions keep their own returns (closure variables are not renamed)

            visit_AsyncFunctionDef = visit_FunctionDef
            visit_Lambda = visit_FunctionDef

        # `if [not] helper(...)` where every return of the helper is a constant: the selected branch of the
        # caller's `if` is copied to each return site (exact control flow, no flag variable)
        specialise = None
        if isinstance(s, ast.If) and returns and all(r.value is None or isinstance(r.value, ast.Constant) for r in returns) and not only_tail_false(body, returns):
            negated = isinstance(s.test, ast.UnaryOp) and isinstance(s.test.op, ast.Not)
            specialise = (negated, s.body, s.orelse)
            only_tail = False

        def branch_for(value):
            negated, then, orelse = specialise
            truth = bool(value)
            if negated:
                truth = not truth
            return [ast_copy(x) for x in (then if truth else orelse)]

        tail_value = []
        body = [R().visit(b) for b in body]
        body = [b for b in body if b is not None]
        from .normalise import _fold_fstrings

        for b_ in body + tail_value:
            for x_ in (b_ if isinstance(b_, list) else [b_]):
                _fold_fstrings(x_)
        flat = []
        for b in body:
            flat.extend(b if isinstance(b, list) else [b])
        init = ast.Assign(targets=[ast.Name(id=ret, ctx=ast.Store())], value=ast.Constant(value=None), lineno=c.lineno, col_offset=c.col_offset)
        if return_site:
            fall = ast.Return(value=ast.Constant(value=None))
            ast.copy_location(fall, s)
            block = pre + flat + [fall]
            for b in block:
                ast.fix_missing_locations(b)
            self._spliced.setdefault(g.key, set()).add(f.key)
            return block
        if only_tail:
            block = pre + flat
        else:
            tr = ast.Try(body=flat or [ast.Pass()], handlers=[ast.ExceptHandler(type=ast.Name(id=exc, ctx=ast.Load()), name=None, body=[ast.Pass()])], orelse=[], finalbody=[])
            ast.copy_location(tr, s)
            block = pre + [init, tr]
        # the statement itself, with the call replaced by the result
        if only_tail:
            result = tail_value[0] if tail_value else ast.Constant(value=None)
        else:
            result = ast.Name(id=ret, ctx=ast.Load())
        ast.copy_location(result, c)
        if isinstance(s, ast.Expr) or specialise is not None:
            tail = []
            if specialise is not None:
                # falling off the end of the helper returns None
                fall = ast.Assign(targets=[ast.Name(id=ret, ctx=ast.Store())], value=ast.Constant(value=None))
                ast.copy_location(fall, s)
                tr.body.extend([fall] + branch_for(None))
        else:
            s2 = s
            target = None
            for x in ast.walk(s2):
                for field, val in ast.iter_fields(x):
                    if isinstance(val, ast.Await) and val.value is c:
                        setattr(x, field, result)
                        target = x
                    elif val is c:
                        setattr(x, field, result)
                        target = x
            if target is None:
                return None
            tail = [s2]
        for b in block:
            ast.fix_missing_locations(b)
        self._spliced.setdefault(g.key, set()).add(f.key)
        return block + tail
