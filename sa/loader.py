"""Parses /repo's current working tree on every run and builds symbol tables."""

from __future__ import annotations

import ast
import os
from pathlib import Path
from typing import Dict, Iterator, List, Optional


class Undecided(Exception):
    """The analysis met a shape it does not model: ANALYSIS-ERROR (exit 2), never a pass."""


class AnchorMissing(Undecided):
    pass


def repo_root() -> Path:
    return Path(os.environ.get("VERIF_REPO", "/repo"))


class Module:
    def __init__(self, name: str, path: Path, rel: str, src: str):
        self.name = name
        self.path = path
        self.rel = rel
        self.src = src
        self.tree = ast.parse(src, filename=str(path))
        self.lines = src.splitlines()
        for parent in ast.walk(self.tree):
            for child in ast.iter_child_nodes(parent):
                child._parent = parent  # type: ignore[attr-defined]
        self.tree._parent = None  # type: ignore[attr-defined]
        # import table: local name -> dotted target ("experimaestro.locking.Lock")
        self.imports: Dict[str, str] = {}
        pkgparts = ["experimaestro"] + name.split(".")
        is_pkg = path.name == "__init__.py"
        for node in ast.walk(self.tree):
            if isinstance(node, ast.Import):
                for a in node.names:
                    self.imports[a.asname or a.name.split(".")[0]] = (
                        a.name if a.asname else a.name.split(".")[0]
                    )
            elif isinstance(node, ast.ImportFrom):
                if node.level:
                    base = pkgparts if is_pkg else pkgparts[:-1]
                    base = base[: len(base) - (node.level - 1)]
                    modname = ".".join(base + ([node.module] if node.module else []))
                else:
                    modname = node.module or ""
                for a in node.names:
                    self.imports[a.asname or a.name] = f"{modname}.{a.name}"

    def is_test(self) -> bool:
        return self.name.startswith("tests.") or self.name == "tests"


class Cls:
    def __init__(self, module: Module, qual: str, node: ast.ClassDef):
        self.module = module
        self.qual = qual
        self.node = node
        self.methods: Dict[str, "Func"] = {}

    @property
    def key(self) -> str:
        return f"{self.module.name}:{self.qual}"

    def __repr__(self):
        return f"<Cls {self.key}>"


class Func:
    def __init__(self, module: Module, qual: str, node, cls: Optional[Cls], parent: Optional["Func"]):
        self.module = module
        self.qual = qual
        self.node = node
        self.cls = cls
        self.parent = parent

    @property
    def key(self) -> str:
        return f"{self.module.name}:{self.qual}"

    @property
    def name(self) -> str:
        return self.node.name

    def __repr__(self):
        return f"<Func {self.key}>"


FUNC_TYPES = (ast.FunctionDef, ast.AsyncFunctionDef)


class Tree:
    def __init__(self, root: Optional[Path] = None, overrides: Optional[Dict[str, str]] = None):
        """overrides: {path relative to the repository root: source text} replaces files in memory
        (used by the mutation self-test; the files on disk are not touched)"""
        self.root = Path(root) if root else repo_root()
        overrides = overrides or {}
        self.pkg = self.root / "src" / "experimaestro"
        if not self.pkg.is_dir():
            raise AnchorMissing(f"package directory {self.pkg} not found")
        self.modules: Dict[str, Module] = {}
        self.funcs: Dict[str, Func] = {}
        self.classes: Dict[str, Cls] = {}
        self.parse_errors: List[str] = []
        for path in sorted(self.pkg.rglob("*.py")):
            relparts = path.relative_to(self.pkg).with_suffix("").parts
            if "node_modules" in relparts:
                continue
            if relparts[-1] == "__init__":
                relparts = relparts[:-1]
            name = ".".join(relparts) if relparts else "__init__"
            rel = str(path.relative_to(self.root))
            try:
                src = overrides[rel] if rel in overrides else path.read_text(encoding="utf-8")
                m = Module(name, path, rel, src)
            except SyntaxError as e:  # a tree that does not compile is not analysable
                self.parse_errors.append(f"{rel}: {e}")
                continue
            self.modules[name] = m
            self._index(m)
        if self.parse_errors:
            raise Undecided("syntax errors: " + "; ".join(self.parse_errors))
        self.renamed: List[str] = []
        self.inlined: List[str] = []
        self._canonical_params()
        self._inline_new_helpers()

    def _inline_new_helpers(self):
        import json

        spec = Path(__file__).resolve().parent.parent / "spec" / "param_names.json"
        if not spec.exists() or os.environ.get("VERIF_NO_CANON"):
            return
        from .inline import Inliner

        inl = Inliner(self, set(json.loads(spec.read_text())))
        inl.run()
        self.inlined = inl.log
        self._normalise_bodies()
        if not os.environ.get("VERIF_NO_CANON2"):
            self._canonical_locals("local_names_norm.json")
            self._resolve_moved()
        self._unsplit()
        # renaming back can leave `x = x` behind (a spliced helper that returns its argument)
        from .normalise import drop_self_assignments

        for f in self.funcs.values():
            if not f.module.is_test() and not isinstance(f.node, ast.Lambda):
                if drop_self_assignments(f.node):
                    for parent in ast.walk(f.node):
                        for child in ast.iter_child_nodes(parent):
                            child._parent = parent

    def _unsplit(self):
        """what is left of the variables split by split_webs goes back to its written name"""
        for f in self.funcs.values():
            if f.module.is_test():
                continue
            for x in ast.walk(f.node):
                if isinstance(x, ast.Name) and "__" in x.id:
                    base, _, k = x.id.rpartition("__")
                    if base and k.isdigit() and not base.startswith("__"):
                        x.id = base

    def _resolve_moved(self):
        """A pinned function (or nested function / method of a nested class) that is gone under its name but lives on, body unchanged, under
        another name or nesting level (nested function turned into a method, local class moved to module level) is aliased to its old key"""
        import json

        spec = Path(__file__).resolve().parent.parent / "spec" / "func_skeletons.json"
        if not spec.exists():
            return
        pinned = json.loads(spec.read_text())
        missing = [k for k in pinned if k not in self.funcs]
        if not missing:
            return
        new = {k: f for k, f in self.funcs.items() if k not in pinned and not f.module.is_test()}
        self.moved: List[str] = []
        taken = set()
        for k in missing:
            mod = k.split(":", 1)[0]
            leaf = k.rsplit(".", 1)[-1].split(":")[-1].lstrip("_")
            best, score = None, 0.0
            for nk, f in new.items():
                if nk in taken or nk.split(":", 1)[0] != mod:
                    continue
                same_leaf = f.node.name.lstrip("_") == leaf
                parts_old = k.split(":", 1)[1].split(".")
                parts_new = nk.split(":", 1)[1].split(".")
                co_, cn_ = (parts_old[-2].lstrip("_"), parts_new[-2].lstrip("_")) if len(parts_old) > 1 and len(parts_new) > 1 else ("", "")
                same_cls = bool(co_) and bool(cn_) and (co_ == cn_ or (min(len(co_), len(cn_)) >= 6 and (co_.startswith(cn_) or cn_.startswith(co_))))
                if len(pinned[k]) < 4 and not (same_leaf and same_cls):
                    continue  # too small to be recognised by its body alone
                sc = skeleton_similarity(pinned[k], skeleton_tokens(f.node))
                # the leaf name usually survives (awaitcompletion -> _awaitcompletion, Sealer.preprocess -> _Sealer.preprocess)
                if same_leaf:
                    sc += 0.15
                if sc > score:
                    best, score = nk, sc
            if best is not None and score >= 0.8:
                taken.add(best)
                f = self.funcs.pop(best)
                f.written_qual = f.qual
                f.qual = k.split(":", 1)[1]  # the function answers to its pinned key (rules, tables of legitimate sites)
                self.funcs[k] = f
                self.moved.append(f"{k} -> {best} ({score:.2f})")
                # a nested function renamed in place: its definition and the references of the enclosing function follow
                if f.parent is not None and k.rsplit(".", 1)[0] == best.rsplit(".", 1)[0]:
                    old_leaf, new_leaf = k.rsplit(".", 1)[1], best.rsplit(".", 1)[1]
                    encl = f.parent.node
                    if not any(isinstance(n, ast.Name) and n.id == old_leaf for n in ast.walk(encl)):
                        f.node.name = old_leaf
                        for n in ast.walk(encl):
                            if isinstance(n, ast.Name) and n.id == new_leaf:
                                n.id = old_leaf
        if self.moved:
            # the re-found functions get their pinned parameter / local vocabulary too
            self._canonical_params()
            self._canonical_locals("local_names_norm.json")

    def _normalise_bodies(self):
        from .normalise import inline_aliases, loops_to_comprehensions, positive_ifexps, unroll_literal_loops, updates_to_loops, inline_single_use_temps, forward_attr_stores, searches_to_loops, genexp_loops, split_webs, ifexp_to_if, default_none_gets, while_true_breaks, integer_attributes, explicit_to_augmented, hoist_walrus, push_not, or_defaults, split_chained_assignments, split_tuple_assignments, merge_nested_withs, conditional_iter_loops, index_while_to_for, strip_annotations, list_literal_augments, list_augments, conditional_max, joinpaths, sink_returns, drop_self_assignments, operator_getters, dict_key_loops, index_to_unpack, inline_method_aliases, len_truthiness

        self.normalised: List[str] = []
        int_attrs = integer_attributes([m.tree for m in self.modules.values() if not m.is_test()])
        for f in list(self.funcs.values()):
            if f.module.is_test():
                continue
            strip_annotations(f.node)
            if f.cls is not None and f.parent is None:
                inline_method_aliases(f.node, set(f.cls.methods))
            len_truthiness(f.node)
            operator_getters(f.node)
            dict_key_loops(f.node)
            index_to_unpack(f.node)
            list_literal_augments(f.node)
            list_augments(f.node)
            conditional_max(f.node)
            joinpaths(f.node)
            default_none_gets(f.node)
            split_chained_assignments(f.node)
            split_tuple_assignments(f.node)
            merge_nested_withs(f.node)
            conditional_iter_loops(f.node)
            index_while_to_for(f.node)
            or_defaults(f.node)
            push_not(f.node)
            explicit_to_augmented(f.node, int_attrs)
            hoist_walrus(f.node)
            while_true_breaks(f.node)
            positive_ifexps(f.node)
            sink_returns(f.node)
            inline_single_use_temps(f.node)
            ifexp_to_if(f.node)
            unroll_literal_loops(f.node)
            updates_to_loops(f.node)
            genexp_loops(f.node)
            split_tuple_assignments(f.node)
            searches_to_loops(f.node)
            inline_single_use_temps(f.node)
            push_not(f.node)
            forward_attr_stores(f.node)
            explicit_to_augmented(f.node, int_attrs)
            split_webs(f.node)
            drop_self_assignments(f.node)
            n = loops_to_comprehensions(f.node)
            # inline_aliases needs many CFG builds: only for functions that have candidate assignments
            names = inline_aliases(f.node, max_rounds=12)
            if n or names:
                self.normalised.append(f"{f.key}: {n} loop(s) -> comprehension, aliases {names}")
        for m in self.modules.values():
            for parent in ast.walk(m.tree):
                for child in ast.iter_child_nodes(parent):
                    child._parent = parent

    # --- parameter names are not semantics: rename them back to the names the rules were written with
    def _canonical_params(self):
        import json

        spec = Path(__file__).resolve().parent.parent / "spec" / "param_names.json"
        if not spec.exists() or os.environ.get("VERIF_NO_CANON"):
            return
        table = json.loads(spec.read_text())
        for key, want in table.items():
            f = self.funcs.get(key)
            if f is None:
                continue
            a = f.node.args
            params = a.posonlyargs + a.args + a.kwonlyargs
            have = [x.arg for x in params]
            if len(have) != len(want) or have == want:
                continue
            mapping = {h: w for h, w in zip(have, want) if h != w}
            # refuse if a new name would capture an existing local / free name of the function
            used = {n.id for n in ast.walk(f.node) if isinstance(n, ast.Name)}
            if any(w in used and w not in have for w in mapping.values()):
                continue
            for x in params:
                if x.arg in mapping:
                    x.arg = mapping[x.arg]
            self._rename(f.node, mapping, top=True)
            self.renamed.append(f"{key}: {mapping}")
            # keyword arguments of the calls that resolve to this function by name (same module: plain name, or self./cls./Class. attribute)
            scope = f.parent.node if f.parent is not None else f.module.tree
            for c in ast.walk(scope):
                if not isinstance(c, ast.Call) or not c.keywords:
                    continue
                fn_ = c.func
                hit = (isinstance(fn_, ast.Name) and fn_.id == f.node.name and f.cls is None) or (
                    isinstance(fn_, ast.Attribute) and fn_.attr == f.node.name and f.cls is not None and isinstance(fn_.value, ast.Name)
                    and fn_.value.id in ("self", "cls", f.cls.qual.split(".")[-1]))
                if hit:
                    for k in c.keywords:
                        if k.arg in mapping:
                            k.arg = mapping[k.arg]
        self._canonical_locals()

    def _canonical_locals(self, table="local_names.json"):
        import json

        spec = Path(__file__).resolve().parent.parent / "spec" / "param_names.json"
        if not spec.exists() or os.environ.get("VERIF_NO_CANON"):
            return
        # local variables: same number of bindings of the same kinds in the same order => positional rename
        lspec = spec.with_name(table)
        if lspec.exists():
            ltable = json.loads(lspec.read_text())
            for key, want in ltable.items():
                f = self.funcs.get(key)
                if f is None:
                    continue
                have = local_bindings(f.node, defs=True)
                if {h[0] for h in have} == {w[0] for w in want}:
                    continue  # same names (possibly in another order: reordered independent statements): nothing to rename
                mapping = match_locals(have, want) if want and len(want[0]) == 4 else {}
                mapping = {k: v for k, v in mapping.items() if k != v}
                if not mapping:
                    continue
                # a swap of two names cannot be done in one pass without capture: go through temporaries
                a = f.node.args
                pnames = {x.arg for x in a.posonlyargs + a.args + a.kwonlyargs}
                used = {n.id for n in ast.walk(f.node) if isinstance(n, ast.Name)} | pnames
                merging = any(w in used and w not in mapping for w in mapping.values()) or len(set(mapping.values())) != len(mapping)
                if merging:
                    # one pinned name for several locals (the function used to reuse a variable): accepted when the def-use chains
                    # are unchanged by the merge and no merged name is visible to a nested scope
                    from .normalise import comprehension_vars, names_in_nested_scopes, same_def_use
                    from .astq import ast_copy

                    forbidden = names_in_nested_scopes(f.node) | comprehension_vars(f.node) | pnames
                    counts = {}
                    for v_ in mapping.values():
                        counts[v_] = counts.get(v_, 0) + 1
                    # the renames that merge nothing are always safe: keep them, and add the merging ones only if they are harmless
                    plain = {k: v_ for k, v_ in mapping.items() if counts[v_] == 1 and not (v_ in used and v_ not in mapping) and k not in pnames}
                    full_ok = not ((set(mapping) | set(mapping.values())) & forbidden)
                    if full_ok:
                        trial = ast_copy(f.node)
                        self._rename_two_pass(trial, mapping)
                        full_ok = same_def_use(f.node, trial)
                    if not full_ok:
                        mapping = plain
                        if not mapping:
                            continue
                self._rename_two_pass(f.node, mapping)
                self.renamed.append(f"{key}: locals {mapping}")
        cspec = spec.with_name(table.replace("local_names", "scoped_names"))
        if cspec.exists():
            for key, want in json.loads(cspec.read_text()).items():
                f = self.funcs.get(key)
                if f is not None:
                    r = rename_scoped(f.node, want)
                    if r:
                        self.renamed.append(f"{key}: scoped {r}")

    def _rename_two_pass(self, fn, mapping):
        # a swap of two names cannot be done in one pass without capture: go through temporaries
        tmp = {k: f"__ren_{i}" for i, k in enumerate(mapping)}
        for mp in (tmp, {tmp[k]: v for k, v in mapping.items()}):
            self._rename(fn, mp, top=True)
            for n in ast.walk(fn):
                if isinstance(n, ast.ExceptHandler) and n.name in mp:
                    n.name = mp[n.name]

    def _rename(self, node, mapping, top=False):
        for child in ast.iter_child_nodes(node):
            if isinstance(child, FUNC_TYPES + (ast.Lambda,)):
                a = child.args
                own = {x.arg for x in a.posonlyargs + a.args + a.kwonlyargs}
                if a.vararg:
                    own.add(a.vararg.arg)
                if a.kwarg:
                    own.add(a.kwarg.arg)
                sub = {k: v for k, v in mapping.items() if k not in own}
                # defaults / decorators are evaluated in the enclosing scope
                for d in list(a.defaults) + [d for d in a.kw_defaults if d is not None] + list(getattr(child, "decorator_list", [])):
                    self._rename_expr(d, mapping)
                if sub:
                    body = child.body if isinstance(child.body, list) else [child.body]
                    for b in body:
                        self._rename_expr(b, sub) if not isinstance(b, ast.stmt) else self._rename_stmt(b, sub)
                continue
            if isinstance(child, ast.Name) and child.id in mapping:
                child.id = mapping[child.id]
            elif isinstance(child, ast.keyword):
                self._rename(child, mapping)
                continue
            self._rename(child, mapping)

    def _rename_expr(self, e, mapping):
        if isinstance(e, ast.Name) and e.id in mapping:
            e.id = mapping[e.id]
        self._rename(e, mapping)

    def _rename_stmt(self, s, mapping):
        self._rename(s, mapping)
        if isinstance(s, ast.Name) and s.id in mapping:
            s.id = mapping[s.id]

    # --- indexing
    def _index(self, m: Module):
        def visit(body, prefix: str, cls: Optional[Cls], parent: Optional[Func]):
            for node in body:
                self._index_stmt(m, node, prefix, cls, parent, visit)

        visit(m.tree.body, "", None, None)

    def _index_stmt(self, m, node, prefix, cls, parent, visit):
        if isinstance(node, ast.ClassDef):
            qual = prefix + node.name
            c = Cls(m, qual, node)
            self.classes[c.key] = c
            visit(node.body, qual + ".", c, parent)
        elif isinstance(node, FUNC_TYPES):
            qual = prefix + node.name
            f = Func(m, qual, node, cls, parent)
            # later definitions with the same name (overloads) win, like at run time
            self.funcs[f.key] = f
            if cls is not None and prefix == cls.qual + ".":
                cls.methods[node.name] = f
            # nested definitions (anywhere in the body)
            for sub in ast.walk(node):
                if sub is node:
                    continue
                if isinstance(sub, (ast.ClassDef,) + FUNC_TYPES) and self._owner(sub) is node:
                    self._index_stmt(m, sub, qual + ".", None, f, visit)
        else:
            # definitions nested in compound statements at module/class level
            for sub in ast.iter_child_nodes(node):
                if isinstance(sub, (ast.stmt,)):
                    self._index_stmt(m, sub, prefix, cls, parent, visit)
                elif isinstance(sub, ast.ExceptHandler):
                    for s2 in sub.body:
                        self._index_stmt(m, s2, prefix, cls, parent, visit)

    @staticmethod
    def _owner(node):
        """Nearest enclosing function/class definition"""
        p = getattr(node, "_parent", None)
        while p is not None and not isinstance(p, (ast.ClassDef,) + FUNC_TYPES):
            p = getattr(p, "_parent", None)
        return p

    # --- lookups
    def mod(self, name: str) -> Module:
        if name not in self.modules:
            raise AnchorMissing(f"module {name} not found")
        return self.modules[name]

    def func(self, modname: str, qual: str) -> Func:
        self.mod(modname)
        key = f"{modname}:{qual}"
        if key not in self.funcs:
            raise AnchorMissing(f"function {key} not found")
        return self.funcs[key]

    def has_func(self, modname: str, qual: str) -> bool:
        return f"{modname}:{qual}" in self.funcs

    def cls(self, modname: str, qual: str) -> Cls:
        self.mod(modname)
        key = f"{modname}:{qual}"
        if key not in self.classes:
            raise AnchorMissing(f"class {key} not found")
        return self.classes[key]

    def nontest_modules(self) -> Iterator[Module]:
        for m in self.modules.values():
            if not m.is_test():
                yield m

    def nontest_funcs(self) -> Iterator[Func]:
        for f in self.funcs.values():
            if not f.module.is_test():
                yield f

    def loc(self, module: Module, node) -> str:
        return f"{module.rel}:{getattr(node, 'lineno', 0)}"

    # --- class hierarchy
    def resolve_name(self, module: Module, name: str) -> Optional[Cls]:
        """Resolve a (possibly dotted) class name used in `module`"""
        head, *rest = name.split(".")
        # local class
        key = f"{module.name}:{name}"
        if key in self.classes:
            return self.classes[key]
        target = module.imports.get(head)
        if target is None:
            return None
        full = ".".join([target] + rest)
        if not full.startswith("experimaestro"):
            return None
        parts = full.split(".")[1:]
        # try module prefixes (longest first)
        for i in range(len(parts) - 1, -1, -1):
            modname = ".".join(parts[:i]) if i else "__init__"
            qual = ".".join(parts[i:])
            if modname in self.modules:
                k = f"{modname}:{qual}"
                if k in self.classes:
                    return self.classes[k]
                # re-export: follow one level of import in that module
                m2 = self.modules[modname]
                if qual.split(".")[0] in m2.imports and m2 is not module:
                    r = self.resolve_name(m2, qual)
                    if r is not None:
                        return r
        return None

    def bases(self, c: Cls) -> List[Cls]:
        out = []
        for b in c.node.bases:
            from .astq import dotted

            d = dotted(b)
            if d:
                r = self.resolve_name(c.module, d)
                if r is not None:
                    out.append(r)
        return out

    def base_names(self, c: Cls) -> List[str]:
        from .astq import dotted

        return [dotted(b) or ast.unparse(b) for b in c.node.bases]

    def mro(self, c: Cls) -> List[Cls]:
        seen, out = set(), []

        def rec(x: Cls):
            if x.key in seen:
                return
            seen.add(x.key)
            out.append(x)
            for b in self.bases(x):
                rec(b)

        rec(c)
        return out

    def find_method(self, c: Cls, name: str) -> Optional[Func]:
        for k in self.mro(c):
            if name in k.methods:
                return k.methods[name]
        return None

    def subclasses(self, c: Cls, strict=False) -> List[Cls]:
        out = []
        for k in self.classes.values():
            if k.module.is_test():
                continue
            m = self.mro(k)
            if c in m and (not strict or k is not c):
                out.append(k)
        return out


def local_bindings(fn, defs=False) -> list:
    """[(name, kind)] of the local names of a function in order of first binding (source order);
    nested function / class bodies, comprehension and lambda variables are not included.
    With defs=True: [(name, kind, position-in-target, source of the first bound value)]"""
    out = []
    seen = set()

    def add(name, kind, val=None, pos=""):
        if name not in seen or defs:
            seen.add(name)
            if defs:
                try:
                    txt = ast.unparse(val) if isinstance(val, ast.AST) else (val or "")
                except Exception:
                    txt = ""
                out.append([name, kind, pos, txt])
            else:
                out.append([name, kind])

    def targets(t, kind, val=None, pos=""):
        if isinstance(t, ast.Name):
            add(t.id, kind, val, pos)
        elif isinstance(t, (ast.Tuple, ast.List)):
            for i, e in enumerate(t.elts):
                targets(e, kind, val, f"{pos}.{i}")
        elif isinstance(t, ast.Starred):
            targets(t.value, kind, val, pos + "*")

    def visit(node):
        for child in ast.iter_child_nodes(node):
            if isinstance(child, FUNC_TYPES + (ast.ClassDef,)):
                add(child.name, "def", child.name)
                continue
            if isinstance(child, (ast.Lambda, ast.ListComp, ast.SetComp, ast.DictComp, ast.GeneratorExp)):
                continue
            if isinstance(child, ast.Assign):
                visit(child.value)
                for t in child.targets:
                    targets(t, "assign", child.value)
                continue
            if isinstance(child, (ast.AnnAssign, ast.AugAssign)):
                if child.value is not None:
                    visit(child.value)
                targets(child.target, "assign", child.value)
                continue
            if isinstance(child, (ast.For, ast.AsyncFor)):
                visit(child.iter)
                targets(child.target, "for", child.iter)
                for b in child.body + child.orelse:
                    visit_stmt(b)
                continue
            if isinstance(child, (ast.With, ast.AsyncWith)):
                for i in child.items:
                    visit(i.context_expr)
                    if i.optional_vars is not None:
                        targets(i.optional_vars, "with", i.context_expr)
                for b in child.body:
                    visit_stmt(b)
                continue
            if isinstance(child, ast.ExceptHandler):
                if child.name:
                    add(child.name, "except", child.type)
                for b in child.body:
                    visit_stmt(b)
                continue
            if isinstance(child, ast.NamedExpr):
                visit(child.value)
                targets(child.target, "walrus", child.value)
                continue
            if isinstance(child, (ast.Import, ast.ImportFrom)):
                for a in child.names:
                    add((a.asname or a.name).split(".")[0], "import", a.name)
                continue
            visit(child)

    def visit_stmt(s):
        holder = ast.Module(body=[s], type_ignores=[])
        visit(holder)

    for s in fn.body:
        visit_stmt(s)
    a = fn.args
    params = {x.arg for x in a.posonlyargs + a.args + a.kwonlyargs}
    return [x for x in out if x[0] not in params]


def match_locals(have, want) -> dict:
    """Alpha-renaming of local names by definition signature: have / want are lists of (name, kind, pos, value-source), one per binding.
    A local of the analysed function is matched with the pinned local one of whose bindings has the same kind, target position and value
    as its first binding, once the already matched locals are renamed and the unmatched ones blanked; ties are broken by order. Several
    locals may map to one pinned name (the pinned function reused a variable): the caller checks that def-use chains are unchanged."""
    first = {}
    for h in have:
        first.setdefault(h[0], h)
    hset = set(first)
    wset = {w[0] for w in want}
    mapping = {}
    consumed = set()
    parsed = {}

    def sig(entry, names, known):
        name, kind, pos, txt = entry
        if kind in ("def", "import"):
            return f"{kind}:{name}"
        key = (kind, txt)
        if key not in parsed:
            try:
                parsed[key] = ast.parse(txt, mode="eval").body if txt else None
            except SyntaxError:
                parsed[key] = None
        e = parsed[key]
        if e is None:
            return f"{kind}:{pos}:{txt}"
        saved = []
        for n in ast.walk(e):
            if isinstance(n, ast.Name):
                saved.append((n, n.id))
                n.id = known.get(n.id, "\u00a7" if n.id in names else n.id)
        out = f"{kind}:{pos}:" + ast.unparse(e)
        for n, i in saved:
            n.id = i
        return out

    rounds = 0
    progress = True
    while (progress or rounds <= 4) and rounds < 12:
        rounds += 1
        progress = False
        wknown = {v: v for v in mapping.values()}
        hs, ws = {}, {}
        for name, h in first.items():
            if name not in mapping:
                hs.setdefault(sig(h, hset, mapping), []).append(name)
        for i, w in enumerate(want):
            if i not in consumed:
                ws.setdefault(sig(w, wset, wknown), []).append(i)
        for k, names in hs.items():
            cand = ws.get(k)
            if not cand:
                continue
            # the same name on both sides with the same definition: keep it
            for nm in list(names):
                same = [i for i in cand if want[i][0] == nm]
                if same:
                    mapping[nm] = nm
                    consumed.add(same[0])
                    cand.remove(same[0])
                    names.remove(nm)
                    progress = True
            if names and len(cand) == len(names) and (len(cand) == 1 or rounds > 3):
                for a, i in zip(names, cand):
                    mapping[a] = want[i][0]
                    consumed.add(i)
                progress = True
    return mapping


COMP_TYPES = (ast.ListComp, ast.SetComp, ast.DictComp, ast.GeneratorExp)


def scoped_names(fn) -> list:
    """Comprehensions and lambdas of a function (not of nested defs) in source order:
    [kind, [target names per generator] | [parameter names], signature] -- the signature is the source with the bound names blanked"""
    out = []

    def blank(node, names):
        c = ast.parse(ast.unparse(node), mode="eval").body
        for n in ast.walk(c):
            if isinstance(n, ast.Name) and n.id in names:
                n.id = "§"
            elif isinstance(n, ast.arg) and n.arg in names:
                n.arg = "§"
        return ast.unparse(c)

    def visit(node):
        for child in ast.iter_child_nodes(node):
            if isinstance(child, FUNC_TYPES + (ast.ClassDef,)):
                continue
            if isinstance(child, COMP_TYPES):
                names = [[n.id for n in ast.walk(g.target) if isinstance(n, ast.Name)] for g in child.generators]
                flat = {x for g in names for x in g}
                out.append([type(child).__name__, names, blank(child, flat), child])
            elif isinstance(child, ast.Lambda):
                names = [a.arg for a in child.args.posonlyargs + child.args.args + child.args.kwonlyargs]
                out.append(["Lambda", [names], blank(child, set(names)), child])
            visit(child)

    visit(fn)
    return out


def rename_scoped(fn, want) -> list:
    """Rename comprehension / lambda variables back to the pinned ones when the construct is the same up to those names"""
    have = scoped_names(fn)
    done = []
    used = set()
    for kind, names, sig, node in have:
        for i, w in enumerate(want):
            if i in used or w[0] != kind or w[2] != sig:
                continue
            used.add(i)
            old = [x for g in names for x in g]
            new = [x for g in w[1] for x in g]
            if old == new or len(old) != len(new) or len(set(new)) != len(new):
                break
            mapping = dict(zip(old, new))
            free = {n.id for n in ast.walk(node) if isinstance(n, ast.Name)} - set(old)
            if set(mapping.values()) & free:
                break
            tmp = {k: f"__sc_{j}" for j, k in enumerate(mapping)}
            for mp in (tmp, {tmp[k]: v for k, v in mapping.items()}):
                for n in ast.walk(node):
                    if isinstance(n, ast.Name) and n.id in mp:
                        n.id = mp[n.id]
                    elif isinstance(n, ast.arg) and n.arg in mp and isinstance(node, ast.Lambda):
                        n.arg = mp[n.arg]
            done.append(mapping)
            break
    return done


def skeleton_tokens(fn) -> list:
    """What a function does, independent of names and layout: statement kinds, attribute names, called names, small constants"""
    out = []
    body = [s for s in fn.body if not (isinstance(s, ast.Expr) and isinstance(s.value, ast.Constant) and isinstance(s.value.value, str))]
    for s in body:
        for n in ast.walk(s):
            if isinstance(n, ast.stmt):
                out.append("S:" + type(n).__name__)
            elif isinstance(n, ast.Attribute):
                out.append("A:" + n.attr)
            elif isinstance(n, ast.Call) and isinstance(n.func, ast.Name):
                out.append("C:" + n.func.id)
            elif isinstance(n, ast.Constant) and isinstance(n.value, (int, bool)) or isinstance(n, ast.Constant) and n.value is None:
                out.append("K:" + repr(n.value))
            elif isinstance(n, (ast.Compare,)):
                out.append("O:" + "".join(type(o).__name__ for o in n.ops))
    return out


def skeleton_similarity(a: list, b: list) -> float:
    from collections import Counter

    ca, cb = Counter(a), Counter(b)
    inter = sum((ca & cb).values())
    union = sum((ca | cb).values())
    return inter / union if union else 1.0
