"""Mutation analysis of the rules: AST-located single-point mutants of the anchored functions are
analysed in memory (Tree overrides, nothing written under /repo); a mutant is *killed* when at least
one check does not exit 0.  Survivors are the to-do list for new rules (or equivalent mutants).

./vf mutate [--funcs key,key...] [--jobs N] [--out file]
"""

from __future__ import annotations

import ast
import contextlib
import io
import json
import os
import sys
import time
from concurrent.futures import ProcessPoolExecutor
from pathlib import Path
from typing import List, Tuple

from .astq import FUNC_TYPES, src
from .loader import Tree, repo_root

PIDS = [f"C{i:02d}" for i in range(1, 21)]

ANCHORS = [
    ("core.objects", "HashComputer.update"), ("core.objects", "HashComputer.compute"), ("core.objects", "ConfigInformation.identifiers"),
    ("core.objects", "is_ignored"), ("core.objects", "remove_meta"), ("core.objects", "updatedependencies"),
    ("core.objects", "ConfigInformation.updatedependencies"), ("core.objects", "ConfigWalk.__call__"), ("core.objects", "ConfigWalkContext.push"),
    ("core.objects", "ConfigWalkContext.currentpath"), ("core.objects", "ConfigInformation.set"), ("core.objects", "ConfigInformation.set_meta"),
    ("core.objects", "ConfigInformation.validate"), ("core.objects", "ConfigInformation.seal"), ("core.objects", "ConfigInformation.__unseal__"),
    ("core.objects", "ConfigInformation.submit"), ("core.objects", "ConfigInformation.validate_and_seal"), ("core.objects", "ConfigInformation.xpmvalues"),
    ("core.objects", "ConfigInformation._outputjsonvalue"), ("core.objects", "ConfigInformation.__get_objects__"), ("core.objects", "ConfigInformation.__collect_objects__"),
    ("core.objects", "ConfigInformation._objectFromParameters"), ("core.objects", "ConfigInformation.load_objects"), ("core.objects", "ConfigInformation.fromParameters"),
    ("core.objects", "ConfigInformation.FromPython.preprocess"), ("core.objects", "ConfigInformation.FromPython.stub"), ("core.objects", "ConfigInformation.FromPython.postprocess"),
    ("core.objects", "ConfigInformation.fromConfig"), ("core.objects", "TypeConfig.__init__"), ("core.objects", "TypeConfig.add_pretasks"), ("core.objects", "copyconfig"),
    ("core.types", "ObjectType.deprecate"), ("core.types", "IntType.validate"), ("core.types", "FloatType.validate"), ("core.types", "PathType.validate"),
    ("core.types", "ArrayType.validate"), ("core.types", "DictType.validate"), ("core.types", "UnionType.validate"), ("core.types", "ObjectType.validate"),
    ("core.arguments", "Argument.__init__"), ("core.arguments", "Argument.validate"), ("generators", "PathGenerator.__call__"),
    ("scheduler.base", "JobDependency.status"), ("scheduler.base", "Job.dependencychanged"), ("scheduler.base", "Scheduler.submit"),
    ("scheduler.base", "Scheduler.aio_registerJob"), ("scheduler.base", "Scheduler.aio_submit"), ("scheduler.base", "Scheduler.aio_start"),
    ("scheduler.base", "experiment.__enter__"), ("scheduler.base", "experiment.__exit__"), ("scheduler.base", "experiment.wait"),
    ("scheduler.base", "JobState.finished"), ("scheduler.base", "Job.relpath"), ("scheduler.base", "Job.lockpath"),
    ("scheduler.dependencies", "Dependency.check"), ("locking", "Lock.acquire"), ("locking", "Lock.release"), ("locking", "Locks._release"),
    ("tokens", "Token.aio_notify"), ("tokens", "CounterTokenDependency.status"), ("tokens", "TokenFile.watch"), ("tokens", "CounterToken._update"),
    ("tokens", "CounterToken.on_deleted"), ("tokens", "CounterToken.on_created"), ("tokens", "CounterToken.on_modified"), ("tokens", "CounterToken.acquire"),
    ("tokens", "CounterToken.release"), ("tokens", "ProcessCounterToken.acquire"), ("tokens", "ProcessCounterToken.release"),
    ("run", "TaskRunner.run"), ("run", "TaskRunner.cleanup"), ("run", "TaskRunner.handle_error"), ("run", "run"),
    ("commandline", "CommandLineJob.aio_process"), ("commandline", "CommandLineJob.aio_run"), ("commandline", "CommandLineJob.prepare"),
    ("connectors.local", "LocalProcess.fromspec"),
    ("cli.filter", "VarExpr.get"), ("cli.filter", "BaseInExpr.__init__"), ("cli.filter", "InExpr.filter"), ("cli.filter", "NotInExpr.filter"),
    ("cli.filter", "RegexExpr.__init__"), ("cli.filter", "RegexExpr.filter"), ("cli.filter", "EqExpr.filter"), ("cli.filter", "LogicExpr.filter"), ("cli.filter", "LogicExpr.summary"),
    ("cli.jobs", "process"), ("cli", "orphans"), ("tools.jobs", "fix_deprecated"), ("tools.jobs", "load_job"),
    ("launcherfinder.specs", "CPUSpecification.__lt__"), ("launcherfinder.specs", "CudaSpecification.match"), ("launcherfinder.specs", "RequirementUnion.match"),
    ("launcherfinder.specs", "HostSimpleRequirement.__and__"), ("launcherfinder.specs", "HostSimpleRequirement._add"), ("launcherfinder.specs", "HostSimpleRequirement.match"),
    ("launcherfinder.specs", "HostSimpleRequirement.__mul__"), ("launcherfinder.parser", "Visitor.visit_cuda"), ("launcherfinder.parser", "Visitor.visit_one_spec"),
    ("launcherfinder.registry", "LauncherRegistry.find"),
]

CMP_SWAP = {ast.Eq: ast.NotEq, ast.NotEq: ast.Eq, ast.Lt: ast.LtE, ast.LtE: ast.Lt, ast.Gt: ast.GtE, ast.GtE: ast.Gt, ast.Is: ast.IsNot, ast.IsNot: ast.Is, ast.In: ast.NotIn, ast.NotIn: ast.In}


def is_logging_stmt(s) -> bool:
    return isinstance(s, ast.Expr) and isinstance(s.value, ast.Call) and (src(s.value.func).split(".")[0] in ("logger", "logging", "hash_logger") or src(s.value.func) in ("print", "cprint"))


def mutation_points(fn) -> List[Tuple[str, ast.AST, str]]:
    """(operator, node, description) for every mutation point of a function (nested defs included)"""
    pts = []
    for n in ast.walk(fn):
        if isinstance(n, (ast.If, ast.While)) and not (isinstance(n.test, ast.Constant)):
            pts.append(("COND_NEG", n, f"negate `{src(n.test)[:60]}`"))
        if isinstance(n, ast.IfExp):
            pts.append(("IFEXP_SWAP", n, f"swap arms of `{src(n)[:60]}`"))
        if isinstance(n, ast.BoolOp):
            pts.append(("BOOLOP", n, f"and<->or in `{src(n)[:60]}`"))
            if len(n.values) >= 2:
                for i in range(len(n.values)):
                    pts.append((f"DROP_OPERAND:{i}", n, f"drop `{src(n.values[i])[:40]}` from `{src(n)[:50]}`"))
        if isinstance(n, ast.Compare) and len(n.ops) == 1 and type(n.ops[0]) in CMP_SWAP:
            pts.append(("CMP", n, f"swap operator of `{src(n)[:60]}`"))
        if isinstance(n, ast.UnaryOp) and isinstance(n.op, ast.Not):
            pts.append(("NOT_DEL", n, f"remove `not` in `{src(n)[:60]}`"))
        if isinstance(n, ast.Constant) and isinstance(n.value, bool):
            pts.append(("BOOL_CONST", n, f"flip {n.value}"))
        if isinstance(n, ast.stmt) and not isinstance(n, FUNC_TYPES + (ast.ClassDef, ast.If, ast.While, ast.For, ast.AsyncFor, ast.With, ast.AsyncWith, ast.Try, ast.Import, ast.ImportFrom, ast.Pass, ast.Global, ast.Nonlocal)):
            if n is fn or is_logging_stmt(n):
                continue
            if isinstance(n, ast.Expr) and isinstance(n.value, ast.Constant):
                continue  # docstring
            pts.append(("STMT_DEL", n, f"delete `{' '.join(src(n).split())[:70]}`"))
        if isinstance(n, ast.Call) and isinstance(n.func, ast.Name) and n.func.id == "sorted" and n.args:
            pts.append(("UNSORT", n, f"drop sorted() in `{src(n)[:60]}`"))
        if isinstance(n, ast.Attribute) and isinstance(n.value, ast.Name) and n.value.id in ("JobState", "DependencyStatus") and isinstance(n.ctx, ast.Load):
            pts.append(("ENUM_SWAP", n, f"replace {src(n)}"))
    return pts


def apply_mutation(modsrc: str, modtree: ast.Module, fn, idx: int) -> Tuple[str, str, int]:
    """Returns (new module source, description, line) for mutation point idx of fn (operating on a fresh parse)"""
    pts = mutation_points(fn)
    op, node, desc = pts[idx]
    line = getattr(node, "lineno", 0)
    if op == "COND_NEG":
        node.test = ast.UnaryOp(op=ast.Not(), operand=node.test)
    elif op == "IFEXP_SWAP":
        node.body, node.orelse = node.orelse, node.body
    elif op == "BOOLOP":
        node.op = ast.Or() if isinstance(node.op, ast.And) else ast.And()
    elif op.startswith("DROP_OPERAND"):
        i = int(op.split(":")[1])
        vals = [v for j, v in enumerate(node.values) if j != i]
        if len(vals) == 1:
            # replace BoolOp by its remaining operand: rewrite in place as `x and x`-free form
            node.values = vals + [ast.Constant(value=isinstance(node.op, ast.And))]
        else:
            node.values = vals
    elif op == "CMP":
        node.ops = [CMP_SWAP[type(node.ops[0])]()]
    elif op == "NOT_DEL":
        node.op = ast.UAdd() if False else node.op
        # replace `not x` by `bool(x)`-equivalent: x itself in boolean context
        parent_fix = ast.Call(func=ast.Name(id="bool", ctx=ast.Load()), args=[node.operand], keywords=[])
        node.__class__ = ast.Call
        node.func = parent_fix.func
        node.args = parent_fix.args
        node.keywords = []
        node._fields = ast.Call._fields
    elif op == "BOOL_CONST":
        node.value = not node.value
    elif op == "STMT_DEL":
        node_repl = ast.Pass()
        for a in ("lineno", "col_offset", "end_lineno", "end_col_offset"):
            if hasattr(node, a):
                setattr(node_repl, a, getattr(node, a))
        # replace in parent body lists
        for parent in ast.walk(modtree):
            for field in ("body", "orelse", "finalbody"):
                lst = getattr(parent, field, None)
                if isinstance(lst, list):
                    for k, s in enumerate(lst):
                        if s is node:
                            lst[k] = node_repl
    elif op == "UNSORT":
        inner = node.args[0]
        node.func = ast.Name(id="list", ctx=ast.Load())
        node.args = [inner]
        node.keywords = []
    elif op == "ENUM_SWAP":
        swaps = {"DONE": "ERROR", "ERROR": "DONE", "READY": "WAITING", "WAITING": "READY", "RUNNING": "READY", "OK": "WAIT", "FAIL": "WAIT", "WAIT": "OK", "UNSCHEDULED": "WAITING", "SCHEDULED": "RUNNING"}
        node.attr = swaps.get(node.attr, node.attr)
    ast.fix_missing_locations(modtree)
    return ast.unparse(modtree), f"{op}: {desc}", line


def _worker(args):
    modrel, modname, qual, idx = args
    root = repo_root()
    path = root / modrel
    text = path.read_text()
    tree = ast.parse(text)
    fn = find_fn(tree, qual)
    if fn is None:
        return None
    try:
        newsrc, desc, line = apply_mutation(text, tree, fn, idx)
        compile(newsrc, str(path), "exec")
    except Exception as e:
        return {"func": f"{modname}:{qual}", "idx": idx, "error": str(e)[:100]}
    from .cli import run_check

    try:
        t = Tree(root, overrides={modrel: newsrc})
    except Exception as e:
        return {"func": f"{modname}:{qual}", "idx": idx, "desc": desc, "line": line, "killed_by": {"loader": 2}}
    killed = {}
    for pid in PIDS:
        buf = io.StringIO()
        with contextlib.redirect_stdout(buf):
            chk, code = run_check(pid, "quick", 0, write=False, tree=t, quiet=True)
        if code:
            killed[pid] = {"exit": code, "rules": sorted({f.rule for f in chk.findings})[:4]}
    return {"func": f"{modname}:{qual}", "idx": idx, "desc": desc, "line": line, "killed_by": killed}


def find_fn(tree: ast.Module, qual: str):
    cur = tree
    for part in qual.split("."):
        nxt = None
        for n in ast.walk(cur) if cur is not tree else tree.body:
            if isinstance(n, (ast.ClassDef,) + FUNC_TYPES) and n.name == part and n is not cur:
                nxt = n
                break
        if nxt is None:
            # search deeper (nested in functions)
            for n in ast.walk(cur):
                if isinstance(n, (ast.ClassDef,) + FUNC_TYPES) and n.name == part and n is not cur:
                    nxt = n
                    break
        if nxt is None:
            return None
        cur = nxt
    return cur


def run_mutation(funcs=None, jobs=16, out=None, quiet=False):
    t0 = time.time()
    base = Tree()
    work = []
    for modname, qual in ANCHORS:
        key = f"{modname}:{qual}"
        if funcs and key not in funcs:
            continue
        f = base.funcs.get(key)
        if f is None:
            continue
        text = f.module.path.read_text()
        tree = ast.parse(text)
        fn = find_fn(tree, qual)
        if fn is None:
            continue
        for i in range(len(mutation_points(fn))):
            work.append((f.module.rel, modname, qual, i))
    results = []
    with ProcessPoolExecutor(max_workers=jobs) as ex:
        for r in ex.map(_worker, work, chunksize=4):
            if r is not None:
                results.append(r)
    valid = [r for r in results if "error" not in r]
    killed = [r for r in valid if r["killed_by"]]
    surv = [r for r in valid if not r["killed_by"]]
    summary = {"mutants": len(valid), "killed": len(killed), "survived": len(surv), "invalid": len(results) - len(valid), "wall_s": round(time.time() - t0, 1)}
    if not quiet:
        print(json.dumps(summary))
    if out:
        Path(out).write_text(json.dumps({"summary": summary, "survivors": surv, "killed": killed}, indent=1))
    return summary, surv, killed


def _worker_pid(args):
    modrel, modname, qual, idx, pid = args
    root = repo_root()
    path = root / modrel
    text = path.read_text()
    tree = ast.parse(text)
    fn = find_fn(tree, qual)
    if fn is None:
        return None
    try:
        newsrc, desc, line = apply_mutation(text, tree, fn, idx)
        compile(newsrc, str(path), "exec")
    except Exception:
        return None
    from .cli import run_check

    try:
        t = Tree(root, overrides={modrel: newsrc})
    except Exception:
        return {"func": f"{modname}:{qual}", "desc": desc, "line": line, "exit": 2}
    buf = io.StringIO()
    with contextlib.redirect_stdout(buf):
        chk, code = run_check(pid, "quick", 0, write=False, tree=t, quiet=True)
    return {"func": f"{modname}:{qual}", "desc": desc, "line": line, "exit": code, "rules": sorted({f.rule for f in chk.findings})[:3]}


def run_property_mutation(pid: str, jobs=16, cap=240, seed=0):
    """Sensitivity of one property's rules: single-point mutants of the functions its rules consult (recorded by tracing Tree.func),
    each analysed in memory by that property's check alone.  Informational: written to evidence/mutation-<pid>.json"""
    import random
    from .cli import run_check

    t0 = time.time()
    base = Tree()
    consulted = set()
    orig = base.func

    def traced(modname, qual):
        consulted.add(f"{modname}:{qual}")
        return orig(modname, qual)

    base.func = traced
    buf = io.StringIO()
    with contextlib.redirect_stdout(buf):
        run_check(pid, "quick", 0, write=False, tree=base, quiet=True)
    anchors = {f"{m}:{q}" for m, q in ANCHORS}
    funcs = sorted(consulted & anchors)
    work = []
    for key in funcs:
        f = base.funcs.get(key)
        if f is None:
            continue
        modname, qual = key.split(":", 1)
        text = f.module.path.read_text()
        fn = find_fn(ast.parse(text), qual)
        if fn is None:
            continue
        for i in range(len(mutation_points(fn))):
            work.append((f.module.rel, modname, qual, i, pid))
    total = len(work)
    if total > cap:
        random.Random(seed).shuffle(work)
        work = sorted(work[:cap])
    res = []
    if work:
        with ProcessPoolExecutor(max_workers=jobs) as ex:
            res = [r for r in ex.map(_worker_pid, work, chunksize=2) if r is not None]
    reported = [r for r in res if r["exit"] == 1]
    undecided = [r for r in res if r["exit"] == 2]
    summary = {"property": pid, "functions_consulted_and_mutated": funcs, "mutation_points": total, "mutants_analysed": len(res), "reported_as_violation": len(reported),
               "analysis_error": len(undecided), "silent": len(res) - len(reported) - len(undecided), "wall_s": round(time.time() - t0, 1),
               "note": "sensitivity of the rules, not a verdict on /repo: a silent mutant is equivalent, irrelevant to this property (logging, messages, other properties' clauses), "
                       "fails the test suite anyway, or shows a clause no rule decides",
               "silent_mutants": [f"{r['func']} L{r['line']} {r['desc'][:90]}" for r in res if r["exit"] == 0][:400]}
    evd = Path(os.environ.get("VERIF_EVIDENCE_DIR", Path(__file__).resolve().parent.parent / "evidence"))
    evd.mkdir(exist_ok=True)
    (evd / f"mutation-{pid}.json").write_text(json.dumps(summary, indent=1))
    print(f"mutation sensitivity: {len(reported)} of {len(res)} mutants of {len(funcs)} consulted functions are reported by {pid} ({len(undecided)} analysis errors, {summary['wall_s']}s)")
    return summary
