"""Analysis-time normalisations of function bodies (never written back to /repo):

* alias inlining: a local assigned exactly once from a *pure* expression (names, attribute chains,
  constants, comparisons / boolean / arithmetic operators over them, calls of a few pure builtins)
  whose operands cannot change between the assignment and any use is replaced by that expression at
  its uses, and the assignment is dropped.  `info = value.__xpm__ ... info.task` and
  `value.__xpm__.task` are then the same text for every rule;
* filter/append loops are rewritten as the equivalent comprehension
  (`xs = []` / `for t in it: [if c:] xs.append(e)`  ->  `xs = [e for t in it if c]`, same for set.add and dict item stores).
"""

from __future__ import annotations

import ast
from typing import Dict, List, Optional

from .astq import FUNC_TYPES, ast_copy, src

PURE_CALLS = {"len", "isinstance", "bool", "id", "type", "getattr", "hasattr"}


def is_pure(e) -> bool:
    for n in ast.walk(e):
        if isinstance(n, (ast.Await, ast.Yield, ast.YieldFrom, ast.NamedExpr, ast.Lambda, ast.ListComp, ast.SetComp, ast.DictComp, ast.GeneratorExp,
                          ast.Subscript, ast.Starred, ast.JoinedStr, ast.List, ast.Dict, ast.Set, ast.Tuple, ast.IfExp, ast.BinOp)):
            return False
        if isinstance(n, ast.Call):
            if not (isinstance(n.func, ast.Name) and n.func.id in PURE_CALLS) or n.keywords:
                return False
    return True


def loops_to_comprehensions(fn) -> int:
    """xs = [] ; for t in it: [if c:] xs.append(e)  ->  xs = [e for t in it if c]"""
    count = 0

    def process(body: list):
        nonlocal count
        i = 0
        while i < len(body):
            s = body[i]
            for field in ("body", "orelse", "finalbody"):
                sub = getattr(s, field, None)
                if isinstance(sub, list) and sub and isinstance(sub[0], ast.stmt) and not isinstance(s, FUNC_TYPES + (ast.ClassDef,)):
                    process(sub)
            if isinstance(s, ast.Try):
                for h in s.handlers:
                    process(h.body)
            if isinstance(s, ast.Assign) and len(s.targets) == 1 and isinstance(s.targets[0], ast.Name):
                name = s.targets[0].id
                v = s.value
                kind = None
                if isinstance(v, ast.List) and not v.elts:
                    kind = "list"
                elif isinstance(v, ast.Dict) and not v.keys:
                    kind = "dict"
                elif isinstance(v, ast.Call) and isinstance(v.func, ast.Name) and v.func.id in ("set", "list", "dict") and not v.args and not v.keywords:
                    kind = v.func.id
                if kind:
                    # next statement that mentions `name` must be the filling loop
                    j = i + 1
                    while j < len(body) and not any(isinstance(n, ast.Name) and n.id == name for n in ast.walk(body[j])):
                        j += 1
                    if j < len(body) and isinstance(body[j], ast.For) and not body[j].orelse:
                        comp = _as_comprehension(body[j], name, kind)
                        if comp is not None and not any(isinstance(n, ast.Name) and n.id == name for k in range(i + 1, j) for n in ast.walk(body[k])):
                            new = ast.Assign(targets=[ast.Name(id=name, ctx=ast.Store())], value=comp)
                            ast.copy_location(new, body[j])
                            ast.fix_missing_locations(new)
                            body[j] = new
                            del body[i]
                            count += 1
                            continue
            i += 1

    process(fn.body)
    return count


def _as_comprehension(loop: ast.For, name: str, kind: str):
    body = loop.body
    cond = None
    if len(body) == 1 and isinstance(body[0], ast.If) and not body[0].orelse:
        cond = body[0].test
        body = body[0].body
    # leading temporaries used once in the rest of the body are folded into it
    body = [ast_copy(x) for x in body]
    while len(body) > 1 and isinstance(body[0], ast.Assign) and len(body[0].targets) == 1 and isinstance(body[0].targets[0], ast.Name):
        tmp = body[0].targets[0].id
        uses = [n for b in body[1:] for n in ast.walk(b) if isinstance(n, ast.Name) and n.id == tmp]
        if len(uses) != 1 or tmp == name:
            break
        val = body[0].value

        class S(ast.NodeTransformer):
            def visit_Name(self, n):
                return ast_copy(val) if n.id == tmp and isinstance(n.ctx, ast.Load) else n

        body = [S().visit(b) for b in body[1:]]
    if len(body) != 1:
        return None
    st = body[0]
    gen = ast.comprehension(target=ast_copy(loop.target), iter=ast_copy(loop.iter), ifs=[ast_copy(cond)] if cond is not None else [], is_async=0)
    uses_name = lambda e: any(isinstance(n, ast.Name) and n.id == name for n in ast.walk(e))
    if uses_name(loop.iter) or (cond is not None and uses_name(cond)):
        return None
    if kind == "list" and isinstance(st, ast.Expr) and isinstance(st.value, ast.Call) and isinstance(st.value.func, ast.Attribute) \
            and st.value.func.attr == "append" and isinstance(st.value.func.value, ast.Name) and st.value.func.value.id == name and len(st.value.args) == 1:
        if uses_name(st.value.args[0]):
            return None
        return ast.ListComp(elt=ast_copy(st.value.args[0]), generators=[gen])
    if kind == "set" and isinstance(st, ast.Expr) and isinstance(st.value, ast.Call) and isinstance(st.value.func, ast.Attribute) \
            and st.value.func.attr == "add" and isinstance(st.value.func.value, ast.Name) and st.value.func.value.id == name and len(st.value.args) == 1:
        return ast.SetComp(elt=ast_copy(st.value.args[0]), generators=[gen])
    if kind == "dict" and isinstance(st, ast.Assign) and len(st.targets) == 1 and isinstance(st.targets[0], ast.Subscript) \
            and isinstance(st.targets[0].value, ast.Name) and st.targets[0].value.id == name:
        if uses_name(st.value) or uses_name(st.targets[0].slice):
            return None
        return ast.DictComp(key=ast_copy(st.targets[0].slice), value=ast_copy(st.value), generators=[gen])
    return None


def inline_aliases(fn, max_rounds=3) -> List[str]:
    """See module docstring.  Returns the names that were inlined"""
    from .cfg import CFG
    from .dataflow import ReachingDefs

    done: List[str] = []
    if not any(isinstance(n, ast.Assign) and len(n.targets) == 1 and isinstance(n.targets[0], ast.Name) and not isinstance(n.value, ast.Constant) and is_pure(n.value)
               for n in ast.walk(fn)):
        return done
    for _ in range(max_rounds):
        try:
            g = CFG(fn)
        except Exception:
            return done
        rd = ReachingDefs(g)
        # static definition counts
        defs: Dict[str, list] = {}
        for n in g.live:
            for d in rd.gen[n.id]:
                defs.setdefault(d.name, []).append(d)
        nested_names = set()
        for n in ast.walk(fn):
            if n is not fn and isinstance(n, FUNC_TYPES + (ast.Lambda, ast.ClassDef)):
                nested_names |= {x.id for x in ast.walk(n) if isinstance(x, ast.Name)}
        comp_names = set()
        for n in ast.walk(fn):
            if isinstance(n, (ast.ListComp, ast.SetComp, ast.DictComp, ast.GeneratorExp)):
                for gen in n.generators:
                    comp_names |= {x.id for x in ast.walk(gen.target) if isinstance(x, ast.Name)}
        attr_stores = []  # (node, text)
        for n in g.live:
            if n.kind == "stmt":
                for x in ast.walk(n.ast) if not isinstance(n.ast, FUNC_TYPES + (ast.ClassDef,)) else []:
                    if isinstance(x, ast.Attribute) and isinstance(x.ctx, (ast.Store, ast.Del)):
                        attr_stores.append((n, src(x)))
        changed = False
        for name, ds in defs.items():
            if len(ds) != 1 or name in rd.params or name in nested_names or name in comp_names or name.startswith("__inl"):
                continue
            d = ds[0]
            if d.kind != "assign" or d.value is None or not is_pure(d.value) or d.node.kind != "stmt":
                continue
            if not isinstance(d.node.ast, (ast.Assign, ast.AnnAssign)):
                continue
            if isinstance(d.node.ast, ast.Assign) and (len(d.node.ast.targets) != 1 or not isinstance(d.node.ast.targets[0], ast.Name)):
                continue
            if isinstance(d.value, ast.Constant):
                continue  # flags / counters initialised by a constant are state, not aliases
            succ0 = [m for m, l in d.node.succ]
            reach = set()
            for m in succ0:
                reach |= g.reachable(m)
            roots = {x.id for x in ast.walk(d.value) if isinstance(x, ast.Name)}
            if name in roots:
                continue
            uses = []
            use_nodes = []
            ok = True
            for n in g.live:
                for x in n.walk():
                    if isinstance(x, ast.Name) and x.id == name and isinstance(x.ctx, ast.Load):
                        if rd.defs_at(name, n) != frozenset([d]) or n is d.node or not g.dominates(d.node, n):
                            ok = False
                        uses.append(x)
                        if n not in use_nodes:
                            use_nodes.append(n)
            if not ok or not uses:
                continue
            # operands must not change between the definition and a use: a redefinition N reachable from the
            # definition D is harmless only if every path from N to a use passes through D again (next iteration)
            bad = False
            chains = {src(x) for x in ast.walk(d.value) if isinstance(x, ast.Attribute)}
            for n in g.live:
                if n.id not in reach:
                    continue
                touches = any(dd.name in roots for dd in rd.gen[n.id]) or any(
                    nn is n and any(c == t or c.startswith(t + ".") or t.startswith(c + ".") for c in chains) for nn, t in attr_stores)
                if touches and n is not d.node:
                    if not all(g.must_pass(n, u, [d.node]) for u in use_nodes):
                        bad = True
            if bad:
                continue
            # apply
            value = d.value

            class S(ast.NodeTransformer):
                def visit_Name(self, x):
                    if x.id == name and isinstance(x.ctx, ast.Load):
                        return ast.copy_location(ast_copy(value), x)
                    return x

                def visit_FunctionDef(self, x):
                    return x

                visit_AsyncFunctionDef = visit_FunctionDef
                visit_Lambda = visit_FunctionDef

            target_stmt = d.node.ast
            for stmt_list in _stmt_lists(fn):
                for k, s in enumerate(stmt_list):
                    if s is target_stmt:
                        p = ast.Pass()
                        ast.copy_location(p, s)
                        stmt_list[k] = p
                    else:
                        stmt_list[k] = S().visit(s)
            done.append(name)
            changed = True
            break  # rebuild the CFG: expressions changed
        if not changed:
            break
    return done


def _stmt_lists(fn):
    out = [fn.body]
    for n in ast.walk(fn):
        if n is fn or isinstance(n, FUNC_TYPES + (ast.ClassDef,)) and n is not fn:
            if n is not fn:
                continue
        for field in ("body", "orelse", "finalbody"):
            sub = getattr(n, field, None)
            if isinstance(sub, list) and sub and isinstance(sub[0], ast.stmt) and sub is not fn.body:
                out.append(sub)
        if isinstance(n, ast.Try):
            for h in n.handlers:
                out.append(h.body)
    return out
