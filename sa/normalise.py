"""Analysis-time normalisations of function bodies (never written back to /repo):

* alias inlining: a local assigned exactly once from a *pure* expression (names, attribute chains,
  constants, comparisons / boolean / arithmetic operators over them, calls of a few pure builtins)
  whose operands cannot change between the assignment and any use is replaced by that expression at
  its uses, and the assignment is dropped.  `info = value.__xpm__ ... info.task` and
  `value.__xpm__.task` are then the same text for every rule;
* filter/append loops are rewritten as the equivalent comprehension
  (`xs = []` / `for t in it: [if c:] xs.append(e)`  ->  `xs = [e for t in it if c]`, same for set.add and dict item stores).
"""

from __future__ import annotations

import ast
import copy
from typing import Dict, List, Optional

from .astq import FUNC_TYPES, ast_copy, src

PURE_CALLS = {"len", "isinstance", "bool", "id", "type", "getattr", "hasattr"}


def is_pure(e) -> bool:
    for n in ast.walk(e):
        if isinstance(n, (ast.Await, ast.Yield, ast.YieldFrom, ast.NamedExpr, ast.Lambda, ast.ListComp, ast.SetComp, ast.DictComp, ast.GeneratorExp,
                          ast.Subscript, ast.Starred, ast.JoinedStr, ast.List, ast.Dict, ast.Set, ast.Tuple, ast.IfExp, ast.BinOp)):
            return False
        if isinstance(n, ast.Call):
            if not (isinstance(n.func, ast.Name) and n.func.id in PURE_CALLS) or n.keywords:
                return False
    return True


def loops_to_comprehensions(fn) -> int:
    """xs = [] ; for t in it: [if c:] xs.append(e)  ->  xs = [e for t in it if c]"""
    count = 0

    def process(body: list):
        nonlocal count
        i = 0
        while i < len(body):
            s = body[i]
            for field in ("body", "orelse", "finalbody"):
                sub = getattr(s, field, None)
                if isinstance(sub, list) and sub and isinstance(sub[0], ast.stmt) and not isinstance(s, FUNC_TYPES + (ast.ClassDef,)):
                    process(sub)
            if isinstance(s, ast.Try):
                for h in s.handlers:
                    process(h.body)
            if isinstance(s, ast.Assign) and len(s.targets) == 1 and isinstance(s.targets[0], ast.Name):
                name = s.targets[0].id
                v = s.value
                kind = None
                if isinstance(v, ast.List) and not v.elts:
                    kind = "list"
                elif isinstance(v, ast.Dict) and not v.keys:
                    kind = "dict"
                elif isinstance(v, ast.Call) and isinstance(v.func, ast.Name) and v.func.id in ("set", "list", "dict") and not v.args and not v.keywords:
                    kind = v.func.id
                if kind:
                    # next statement that mentions `name` must be the filling loop
                    j = i + 1
                    while j < len(body) and not any(isinstance(n, ast.Name) and n.id == name for n in ast.walk(body[j])):
                        j += 1
                    if j < len(body) and isinstance(body[j], ast.For) and not body[j].orelse:
                        comp = _as_comprehension(body[j], name, kind)
                        if comp is not None and not any(isinstance(n, ast.Name) and n.id == name for k in range(i + 1, j) for n in ast.walk(body[k])):
                            new = ast.Assign(targets=[ast.Name(id=name, ctx=ast.Store())], value=comp)
                            ast.copy_location(new, body[j])
                            ast.fix_missing_locations(new)
                            body[j] = new
                            del body[i]
                            count += 1
                            continue
            i += 1

    process(fn.body)
    return count


def _as_comprehension(loop: ast.For, name: str, kind: str):
    body = loop.body
    cond = None
    if len(body) == 1 and isinstance(body[0], ast.If) and not body[0].orelse:
        cond = body[0].test
        body = body[0].body
    # leading temporaries used once in the rest of the body are folded into it
    body = [ast_copy(x) for x in body]
    while len(body) > 1 and isinstance(body[0], ast.Assign) and len(body[0].targets) == 1 and isinstance(body[0].targets[0], ast.Name):
        tmp = body[0].targets[0].id
        uses = [n for b in body[1:] for n in ast.walk(b) if isinstance(n, ast.Name) and n.id == tmp]
        if len(uses) != 1 or tmp == name:
            break
        val = body[0].value

        class S(ast.NodeTransformer):
            def visit_Name(self, n):
                return ast_copy(val) if n.id == tmp and isinstance(n.ctx, ast.Load) else n

        body = [S().visit(b) for b in body[1:]]
    if len(body) != 1:
        return None
    st = body[0]
    gen = ast.comprehension(target=ast_copy(loop.target), iter=ast_copy(loop.iter), ifs=[ast_copy(cond)] if cond is not None else [], is_async=0)
    uses_name = lambda e: any(isinstance(n, ast.Name) and n.id == name for n in ast.walk(e))
    if uses_name(loop.iter) or (cond is not None and uses_name(cond)):
        return None
    if kind == "list" and isinstance(st, ast.Expr) and isinstance(st.value, ast.Call) and isinstance(st.value.func, ast.Attribute) \
            and st.value.func.attr == "append" and isinstance(st.value.func.value, ast.Name) and st.value.func.value.id == name and len(st.value.args) == 1:
        if uses_name(st.value.args[0]):
            return None
        return ast.ListComp(elt=ast_copy(st.value.args[0]), generators=[gen])
    if kind == "set" and isinstance(st, ast.Expr) and isinstance(st.value, ast.Call) and isinstance(st.value.func, ast.Attribute) \
            and st.value.func.attr == "add" and isinstance(st.value.func.value, ast.Name) and st.value.func.value.id == name and len(st.value.args) == 1:
        return ast.SetComp(elt=ast_copy(st.value.args[0]), generators=[gen])
    if kind == "dict" and isinstance(st, ast.Assign) and len(st.targets) == 1 and isinstance(st.targets[0], ast.Subscript) \
            and isinstance(st.targets[0].value, ast.Name) and st.targets[0].value.id == name:
        if uses_name(st.value) or uses_name(st.targets[0].slice):
            return None
        return ast.DictComp(key=ast_copy(st.targets[0].slice), value=ast_copy(st.value), generators=[gen])
    return None


def inline_aliases(fn, max_rounds=3) -> List[str]:
    """See module docstring.  Returns the names that were inlined"""
    from .cfg import CFG
    from .dataflow import ReachingDefs

    done: List[str] = []
    if not any(isinstance(n, ast.Assign) and len(n.targets) == 1 and isinstance(n.targets[0], ast.Name) and not isinstance(n.value, ast.Constant) and is_pure(n.value)
               for n in ast.walk(fn)):
        return done
    for _ in range(max_rounds):
        try:
            g = CFG(fn)
        except Exception:
            return done
        rd = ReachingDefs(g)
        # static definition counts
        defs: Dict[str, list] = {}
        for n in g.live:
            for d in rd.gen[n.id]:
                defs.setdefault(d.name, []).append(d)
        nested_names = set()
        for n in ast.walk(fn):
            if n is not fn and isinstance(n, FUNC_TYPES + (ast.Lambda, ast.ClassDef)):
                nested_names |= {x.id for x in ast.walk(n) if isinstance(x, ast.Name)}
        comp_names = set()
        for n in ast.walk(fn):
            if isinstance(n, (ast.ListComp, ast.SetComp, ast.DictComp, ast.GeneratorExp)):
                for gen in n.generators:
                    comp_names |= {x.id for x in ast.walk(gen.target) if isinstance(x, ast.Name)}
        attr_stores = []  # (node, text)
        for n in g.live:
            if n.kind == "stmt":
                for x in ast.walk(n.ast) if not isinstance(n.ast, FUNC_TYPES + (ast.ClassDef,)) else []:
                    if isinstance(x, ast.Attribute) and isinstance(x.ctx, (ast.Store, ast.Del)):
                        attr_stores.append((n, src(x)))
        changed = False
        for name, ds in defs.items():
            if len(ds) != 1 or name in rd.params or name in nested_names or name in comp_names or name.startswith("__inl"):
                continue
            d = ds[0]
            if d.kind != "assign" or d.value is None or not is_pure(d.value) or d.node.kind != "stmt":
                continue
            if not isinstance(d.node.ast, (ast.Assign, ast.AnnAssign)):
                continue
            if isinstance(d.node.ast, ast.Assign) and (len(d.node.ast.targets) != 1 or not isinstance(d.node.ast.targets[0], ast.Name)):
                continue
            if isinstance(d.value, ast.Constant):
                continue  # flags / counters initialised by a constant are state, not aliases
            succ0 = [m for m, l in d.node.succ]
            reach = set()
            for m in succ0:
                reach |= g.reachable(m)
            roots = {x.id for x in ast.walk(d.value) if isinstance(x, ast.Name)}
            if name in roots:
                continue
            uses = []
            use_nodes = []
            ok = True
            for n in g.live:
                for x in n.walk():
                    if isinstance(x, ast.Name) and x.id == name and isinstance(x.ctx, ast.Load):
                        if rd.defs_at(name, n) != frozenset([d]) or n is d.node or not g.dominates(d.node, n):
                            ok = False
                        uses.append(x)
                        if n not in use_nodes:
                            use_nodes.append(n)
            if ok and not uses and not any(isinstance(x, ast.Name) and x.id == name and isinstance(x.ctx, ast.Load) for x in ast.walk(fn)):
                # a pure value bound to a name nobody reads: the binding goes
                target_stmt = d.node.ast
                for stmt_list in _stmt_lists(fn):
                    for k, s_ in enumerate(stmt_list):
                        if s_ is target_stmt:
                            p_ = ast.Pass()
                            ast.copy_location(p_, s_)
                            stmt_list[k] = p_
                done.append(name)
                changed = True
                break
            if not ok or not uses:
                continue
            # operands must not change between the definition and a use: a redefinition N reachable from the
            # definition D is harmless only if every path from N to a use passes through D again (next iteration)
            bad = False
            chains = {src(x) for x in ast.walk(d.value) if isinstance(x, ast.Attribute)}
            for n in g.live:
                if n.id not in reach:
                    continue
                touches = any(dd.name in roots for dd in rd.gen[n.id]) or any(
                    nn is n and any(c == t or c.startswith(t + ".") or t.startswith(c + ".") for c in chains) for nn, t in attr_stores)
                if touches and n is not d.node:
                    if not all(g.must_pass(n, u, [d.node]) for u in use_nodes):
                        bad = True
            if bad:
                continue
            # apply
            value = d.value

            class S(ast.NodeTransformer):
                def visit_Name(self, x):
                    if x.id == name and isinstance(x.ctx, ast.Load):
                        return ast.copy_location(ast_copy(value), x)
                    return x

                def visit_FunctionDef(self, x):
                    return x

                visit_AsyncFunctionDef = visit_FunctionDef
                visit_Lambda = visit_FunctionDef

            target_stmt = d.node.ast
            for stmt_list in _stmt_lists(fn):
                for k, s in enumerate(stmt_list):
                    if s is target_stmt:
                        p = ast.Pass()
                        ast.copy_location(p, s)
                        stmt_list[k] = p
                    else:
                        stmt_list[k] = S().visit(s)
            done.append(name)
            changed = True
            break  # rebuild the CFG: expressions changed
        if not changed:
            break
    return done


def _stmt_lists(fn):
    out = [fn.body]
    for n in ast.walk(fn):
        if n is fn or isinstance(n, FUNC_TYPES + (ast.ClassDef,)) and n is not fn:
            if n is not fn:
                continue
        for field in ("body", "orelse", "finalbody"):
            sub = getattr(n, field, None)
            if isinstance(sub, list) and sub and isinstance(sub[0], ast.stmt) and sub is not fn.body:
                out.append(sub)
        if isinstance(n, ast.Try):
            for h in n.handlers:
                out.append(h.body)
    return out


# ---------------------------------------------------------------- merging split locals (alpha-equivalence up to def-use chains)


def _use_signature(fn):
    """[(cfg node id, index of the read, {definition sites reaching it})] for every read of a local name"""
    from .cfg import CFG
    from .dataflow import ReachingDefs

    g = CFG(fn)
    rd = ReachingDefs(g)
    local = {d.name for n in g.live for d in rd.gen[n.id]} | set(rd.params)
    out = []
    for n in sorted(g.live, key=lambda x: x.id):
        i = 0
        for x in n.walk():
            if isinstance(x, ast.Name) and x.id in local:
                is_use = isinstance(x.ctx, (ast.Load, ast.Del)) or isinstance(getattr(x, "_parent", None), ast.AugAssign)
                if isinstance(x.ctx, ast.Store) and n.kind == "stmt" and isinstance(n.ast, ast.AugAssign) and n.ast.target is x:
                    is_use = True
                if is_use:
                    out.append((n.id, n.kind, i, frozenset((d.node.id if d.node is not None else -1, d.kind) for d in rd.defs_at(x.id, n))))
                i += 1
    return out


def names_in_nested_scopes(fn) -> set:
    """free names of the nested functions / lambdas / classes of fn (names they may share with fn's locals)"""
    out = set()

    def free(scope):
        bound = set()
        if not isinstance(scope, ast.ClassDef):
            a = scope.args
            bound |= {x.arg for x in a.posonlyargs + a.args + a.kwonlyargs}
            if a.vararg:
                bound.add(a.vararg.arg)
            if a.kwarg:
                bound.add(a.kwarg.arg)
        refs = set()
        nonlocal_ = set()
        for y in ast.walk(scope):
            if isinstance(y, (ast.Nonlocal, ast.Global)):
                nonlocal_ |= set(y.names)
            elif isinstance(y, ast.Name):
                refs.add(y.id)
                if isinstance(y.ctx, ast.Store) and not isinstance(scope, ast.Lambda):
                    bound.add(y.id)
        return (refs - bound) | nonlocal_

    def visit(node):
        for x in ast.iter_child_nodes(node):
            if isinstance(x, (ast.FunctionDef, ast.AsyncFunctionDef, ast.Lambda, ast.ClassDef)):
                out.update(free(x))
            else:
                visit(x)

    visit(fn)
    return out


def comprehension_vars(fn) -> set:
    out = set()

    def visit(node):
        for x in ast.iter_child_nodes(node):
            if isinstance(x, (ast.FunctionDef, ast.AsyncFunctionDef, ast.Lambda, ast.ClassDef)):
                continue
            if isinstance(x, ast.comprehension):
                for y in ast.walk(x.target):
                    if isinstance(y, ast.Name):
                        out.add(y.id)
            visit(x)

    visit(fn)
    return out


def same_def_use(fn_a, fn_b) -> bool:
    """True when the two function bodies (same shape, different local names) have identical def-use chains"""
    try:
        return _use_signature(fn_a) == _use_signature(fn_b)
    except Exception:
        return False


# ---------------------------------------------------------------- conditional expressions in positive form


def positive_ifexps(fn) -> int:
    """`a if not c else b` -> `b if c else a` (and the comparison forms of cfg.normalise_test): the polarity of a written test is not semantics"""
    from .cfg import normalise_test

    n = 0
    for x in ast.walk(fn):
        if isinstance(x, ast.IfExp):
            t = x.test
            flip = False
            while isinstance(t, ast.UnaryOp) and isinstance(t.op, ast.Not):
                t = t.operand
                flip = not flip
            if not isinstance(t, ast.BoolOp):
                t2, f2 = normalise_test(t)
                if f2:
                    flip = not flip
                t = t2
            elif flip:
                # not (a and b): keep the written form
                continue
            if t is not x.test:
                x.test = t
                if flip:
                    x.body, x.orelse = x.orelse, x.body
                n += 1
    return n


# ---------------------------------------------------------------- loops over literal tables are unrolled; update(<comprehension>) is a loop of add


def _simple_value(e, assigned) -> bool:
    if isinstance(e, ast.Constant):
        return True
    while isinstance(e, ast.Attribute):
        e = e.value
    return isinstance(e, ast.Name) and e.id not in assigned


def _fold_fstrings(node):
    for x in ast.walk(node):
        if isinstance(x, ast.JoinedStr):
            out = []
            for v in x.values:
                if isinstance(v, ast.FormattedValue) and isinstance(v.value, ast.Constant) and isinstance(v.value.value, str) and v.conversion == -1 and v.format_spec is None:
                    v = ast.Constant(value=v.value.value)
                if isinstance(v, ast.Constant) and out and isinstance(out[-1], ast.Constant):
                    out[-1] = ast.Constant(value=out[-1].value + v.value)
                else:
                    out.append(v)
            x.values = out


def _stmt_blocks(fn):
    """every statement list of the function (not of nested definitions)"""
    out = []

    def visit(body):
        out.append(body)
        for s in body:
            if isinstance(s, FUNC_TYPES + (ast.ClassDef,)):
                continue
            for field in ("body", "orelse", "finalbody"):
                sub = getattr(s, field, None)
                if isinstance(sub, list) and sub and isinstance(sub[0], ast.stmt):
                    visit(sub)
            if isinstance(s, ast.Try):
                for h in s.handlers:
                    visit(h.body)
            if hasattr(ast, "Match") and isinstance(s, ast.Match):
                for c in s.cases:
                    visit(c.body)

    visit(fn.body)
    return out


def _loop_level_jumps(loop) -> bool:
    """break / continue that belong to this loop"""
    def visit(body):
        for s in body:
            if isinstance(s, (ast.Break, ast.Continue)):
                return True
            if isinstance(s, (ast.For, ast.AsyncFor, ast.While) + FUNC_TYPES + (ast.ClassDef,)):
                continue
            for field in ("body", "orelse", "finalbody"):
                sub = getattr(s, field, None)
                if isinstance(sub, list) and sub and isinstance(sub[0], ast.stmt) and visit(sub):
                    return True
            if isinstance(s, ast.Try):
                for h in s.handlers:
                    if visit(h.body):
                        return True
        return False

    return visit(loop.body)


def unroll_literal_loops(fn) -> int:
    count = 0
    for body in _stmt_blocks(fn):
        i = 0
        while i < len(body):
            s = body[i]
            i += 1
            if not (isinstance(s, ast.For) and not s.orelse and isinstance(s.iter, (ast.Tuple, ast.List)) and 1 <= len(s.iter.elts) <= 8):
                continue
            names = [s.target.id] if isinstance(s.target, ast.Name) else (
                [e.id for e in s.target.elts] if isinstance(s.target, (ast.Tuple, ast.List)) and all(isinstance(e, ast.Name) for e in s.target.elts) else None)
            if not names or _loop_level_jumps(s):
                continue
            assigned = {n.id for b in s.body for n in ast.walk(b) if isinstance(n, ast.Name) and isinstance(n.ctx, (ast.Store, ast.Del))}
            if set(names) & assigned:
                continue
            # the loop variables must not be read outside the loop
            inside = {id(n) for n in ast.walk(s)}
            if any(isinstance(n, ast.Name) and n.id in names and id(n) not in inside for n in ast.walk(fn)):
                continue
            rows = []
            for e in s.iter.elts:
                if isinstance(s.target, ast.Name):
                    row = [e]
                elif isinstance(e, (ast.Tuple, ast.List)) and len(e.elts) == len(names):
                    row = list(e.elts)
                else:
                    row = None
                if row is None or not all(_simple_value(v, assigned) for v in row):
                    rows = None
                    break
                rows.append(row)
            if not rows:
                continue
            new = []
            for row in rows:
                env = dict(zip(names, row))

                class S(ast.NodeTransformer):
                    def visit_Name(self, n):
                        if n.id in env and isinstance(n.ctx, ast.Load):
                            return ast.copy_location(ast_copy(env[n.id]), n)
                        return n

                for b in s.body:
                    c = S().visit(ast_copy(b))
                    _fold_fstrings(c)
                    ast.fix_missing_locations(c)
                    new.append(c)
            body[i - 1:i] = new
            i = i - 1 + len(new)
            count += 1
    return count


def updates_to_loops(fn) -> int:
    """`xs.update(e for t in it if c)` / `xs.extend(...)`  ->  `for t in it: if c: xs.add(e)` (comprehension variables renamed when they
    would capture a local of the function)"""
    count = 0
    used = {n.id for n in ast.walk(fn) if isinstance(n, ast.Name)}
    for body in _stmt_blocks(fn):
        for i, s in enumerate(body):
            if not (isinstance(s, ast.Expr) and isinstance(s.value, ast.Call) and isinstance(s.value.func, ast.Attribute) and s.value.func.attr in ("update", "extend", "writelines")
                    and isinstance(s.value.func.value, ast.Name) and len(s.value.args) == 1 and not s.value.keywords):
                continue
            comp = s.value.args[0]
            if not isinstance(comp, (ast.GeneratorExp, ast.SetComp, ast.ListComp)) or len(comp.generators) != 1 or comp.generators[0].is_async:
                continue
            gen = comp.generators[0]
            if s.value.func.attr == "update" and isinstance(comp.elt, ast.Tuple):
                continue  # dict.update(<pairs>)
            inside = {id(n) for n in ast.walk(comp)}
            tnames = {n.id for n in ast.walk(gen.target) if isinstance(n, ast.Name)}
            outside = {n.id for n in ast.walk(fn) if isinstance(n, ast.Name) and id(n) not in inside}
            ren = {t: f"__c{count}_{t}" for t in tnames if t in outside}
            comp2 = ast_copy(comp)
            gen = comp2.generators[0]
            for n in ast.walk(comp2):
                if isinstance(n, ast.Name) and n.id in ren and n is not None:
                    n.id = ren[n.id]
            # the iterable is evaluated outside the comprehension scope: keep its names
            gen.iter = ast_copy(comp.generators[0].iter)
            call = ast.Expr(value=ast.Call(func=ast.Attribute(value=ast_copy(s.value.func.value), attr={"update": "add", "extend": "append", "writelines": "write"}[s.value.func.attr], ctx=ast.Load()), args=[comp2.elt], keywords=[]))
            inner = [call]
            for c in reversed(gen.ifs):
                inner = [ast.If(test=c, body=inner, orelse=[])]
            loop = ast.For(target=gen.target, iter=gen.iter, body=inner, orelse=[], type_comment=None)
            for n in ast.walk(loop.target):
                if isinstance(n, ast.Name):
                    n.ctx = ast.Store()
            ast.copy_location(loop, s)
            ast.fix_missing_locations(loop)
            body[i] = loop
            count += 1
    return count


# ---------------------------------------------------------------- single-use temporaries


def _eval_order(e):
    """sub-expressions of `e` in the order in which their evaluation completes (post-order, Python's left-to-right rule);
    yields (node, conditional?) where conditional marks nodes that may not be evaluated or evaluated several times"""
    def rec(n, cond):
        if isinstance(n, (ast.Lambda, ast.ListComp, ast.SetComp, ast.DictComp, ast.GeneratorExp)):
            for x in ast.walk(n):
                if x is not n:
                    yield x, True
            yield n, cond
            return
        if isinstance(n, ast.BoolOp):
            for i, v in enumerate(n.values):
                yield from rec(v, cond or i > 0)
            yield n, cond
            return
        if isinstance(n, ast.IfExp):
            yield from rec(n.test, cond)
            yield from rec(n.body, True)
            yield from rec(n.orelse, True)
            yield n, cond
            return
        if isinstance(n, ast.Compare) and len(n.ops) > 1:
            yield from rec(n.left, cond)
            for i, v in enumerate(n.comparators):
                yield from rec(v, cond or i > 0)
            yield n, cond
            return
        if isinstance(n, ast.Dict):
            for k, v in zip(n.keys, n.values):
                if k is not None:
                    yield from rec(k, cond)
                yield from rec(v, cond)
            yield n, cond
            return
        for c in ast.iter_child_nodes(n):
            if isinstance(c, (ast.expr_context, ast.operator, ast.unaryop, ast.cmpop, ast.boolop)):
                continue
            yield from rec(c, cond)
        yield n, cond

    yield from rec(e, False)


def _header_exprs(s):
    """expressions of a statement evaluated exactly once, first, when the statement is reached -- in evaluation order"""
    if isinstance(s, ast.Assign):
        return [s.value] + [t for t in s.targets if not isinstance(t, ast.Name)]
    if isinstance(s, ast.AnnAssign) and s.value is not None and isinstance(s.target, ast.Name):
        return [s.value]
    if isinstance(s, ast.AugAssign) and isinstance(s.target, ast.Name):
        return [s.value]
    if isinstance(s, (ast.Expr, ast.Return)) and s.value is not None:
        return [s.value]
    if isinstance(s, ast.If):
        return [s.test]
    if isinstance(s, ast.For):
        return [s.iter]
    if isinstance(s, (ast.With, ast.AsyncWith)):
        return [s.items[0].context_expr]
    if isinstance(s, ast.Raise) and s.exc is not None:
        return [s.exc]
    if isinstance(s, ast.Assert):
        return [s.test]
    return []


_PURE_BEFORE = (ast.Name, ast.Constant, ast.Attribute, ast.expr_context, ast.keyword, ast.FormattedValue, ast.JoinedStr, ast.Tuple, ast.List)


def inline_single_use_temps(fn) -> List[str]:
    """t = e ; S(t)  ->  S(e)   when t is written once, read once (in the part of the next statement S that is evaluated first and exactly once)
    and nothing with an effect is evaluated in S before the read"""
    done = []
    for _ in range(8):
        changed = False
        loads: Dict[str, int] = {}
        stores: Dict[str, int] = {}
        for n in ast.walk(fn):
            if isinstance(n, ast.Name):
                if isinstance(n.ctx, ast.Load):
                    loads[n.id] = loads.get(n.id, 0) + 1
                else:
                    stores[n.id] = stores.get(n.id, 0) + 1
            elif isinstance(n, (ast.Global, ast.Nonlocal)):
                for x in n.names:
                    stores[x] = stores.get(x, 0) + 2
        a = fn.args
        params = {x.arg for x in a.posonlyargs + a.args + a.kwonlyargs} | ({a.vararg.arg} if a.vararg else set()) | ({a.kwarg.arg} if a.kwarg else set())
        for body in _stmt_blocks(fn):
            i = len(body) - 2
            while i >= 0:
                s, nxt = body[i], body[i + 1]
                i -= 1
                if not (isinstance(s, ast.Assign) and len(s.targets) == 1 and isinstance(s.targets[0], ast.Name)):
                    continue
                t = s.targets[0].id
                if t in params or loads.get(t, 0) != 1 or stores.get(t, 0) != 1:
                    continue
                if any(isinstance(x, (ast.Yield, ast.YieldFrom, ast.NamedExpr, ast.Starred)) for x in ast.walk(s.value)):
                    continue
                from .dataflow import _is_state_init

                if _is_state_init(s.value):
                    continue
                ok = None
                for h in _header_exprs(nxt):
                    for x, cond in _eval_order(h):
                        if isinstance(x, ast.Name) and x.id == t and isinstance(x.ctx, ast.Load):
                            ok = (x, h) if not cond and ok is None else False
                            break
                        if cond and any(isinstance(y, ast.Name) and y.id == t for y in ast.walk(x)):
                            ok = False
                            break
                        if not isinstance(x, _PURE_BEFORE):
                            ok = False
                            break
                    if ok is not None:
                        break
                if not ok:
                    continue
                use, h = ok
                val = s.value

                class S(ast.NodeTransformer):
                    def visit_Name(self, n):
                        return ast.copy_location(val, n) if n is use else n

                new_h = S().visit(h)
                for field, v in ast.iter_fields(nxt):
                    if v is h:
                        setattr(nxt, field, new_h)
                    elif isinstance(v, list):
                        for j, y in enumerate(v):
                            if y is h:
                                v[j] = new_h
                            elif isinstance(y, ast.withitem) and y.context_expr is h:
                                y.context_expr = new_h
                del body[i + 1]
                done.append(t)
                changed = True
                loads[t] = 0
        if not changed:
            break
    return done


def forward_attr_stores(fn) -> int:
    """t = E ; X.a = t   ->   X.a = E ; t = X.a   (the alias inliner then replaces t by X.a where X.a cannot have changed)"""
    count = 0
    stores: Dict[str, int] = {}
    for n in ast.walk(fn):
        if isinstance(n, ast.Name) and isinstance(n.ctx, (ast.Store, ast.Del)):
            stores[n.id] = stores.get(n.id, 0) + 1
    a = fn.args
    params = {x.arg for x in a.posonlyargs + a.args + a.kwonlyargs}
    for body in _stmt_blocks(fn):
        for i in range(len(body) - 1):
            s, nxt = body[i], body[i + 1]
            if not (isinstance(s, ast.Assign) and len(s.targets) == 1 and isinstance(s.targets[0], ast.Name)):
                continue
            t = s.targets[0].id
            if t in params or stores.get(t, 0) != 1:
                continue
            if not (isinstance(nxt, ast.Assign) and len(nxt.targets) == 1 and isinstance(nxt.targets[0], ast.Attribute) and isinstance(nxt.value, ast.Name) and nxt.value.id == t):
                continue
            base = nxt.targets[0].value
            while isinstance(base, ast.Attribute):
                base = base.value
            if not isinstance(base, ast.Name) or base.id == t or stores.get(base.id, 0) > 0 and base.id not in params:
                continue
            if isinstance(s.value, (ast.Name, ast.Attribute, ast.Constant)):
                continue  # already an alias
            target = nxt.targets[0]
            new1 = ast.Assign(targets=[target], value=s.value)
            load = ast_copy(target)
            load.ctx = ast.Load()
            new2 = ast.Assign(targets=[ast.Name(id=t, ctx=ast.Store())], value=load)
            ast.copy_location(new1, s)
            ast.copy_location(new2, nxt)
            ast.fix_missing_locations(new1)
            ast.fix_missing_locations(new2)
            body[i], body[i + 1] = new1, new2
            count += 1
    return count


def searches_to_loops(fn) -> int:
    """`if not all(E for t in it): <exits>`  ->  `for t in it: if not E: <exits>`;  `if any(E for t in it): <exits>`  ->  `for t in it: if E: <exits>`
    (all / any stop at the first deciding element, and the body leaves the function or the iteration, so the two forms evaluate the same things)"""
    count = 0
    for body in _stmt_blocks(fn):
        for i, s in enumerate(body):
            if not (isinstance(s, ast.If) and not s.orelse and s.body and isinstance(s.body[-1], (ast.Return, ast.Raise))):
                continue
            t = s.test
            neg = False
            while isinstance(t, ast.UnaryOp) and isinstance(t.op, ast.Not):
                t = t.operand
                neg = not neg
            if not (isinstance(t, ast.Call) and isinstance(t.func, ast.Name) and t.func.id in ("all", "any") and len(t.args) == 1 and not t.keywords):
                continue
            if (t.func.id == "all") != neg:
                continue  # `if all(...)` / `if not any(...)` are not searches for a witness
            comp = t.args[0]
            if not isinstance(comp, (ast.GeneratorExp, ast.ListComp)) or len(comp.generators) != 1 or comp.generators[0].is_async:
                continue
            inside = {id(n) for n in ast.walk(comp)}
            tnames = {n.id for n in ast.walk(comp.generators[0].target) if isinstance(n, ast.Name)}
            outside = {n.id for n in ast.walk(fn) if isinstance(n, ast.Name) and id(n) not in inside}
            ren = {x: f"__s{count}_{x}" for x in tnames if x in outside}
            comp2 = ast_copy(comp)
            for n in ast.walk(comp2):
                if isinstance(n, ast.Name) and n.id in ren:
                    n.id = ren[n.id]
            gen = comp2.generators[0]
            gen.iter = ast_copy(comp.generators[0].iter)
            cond = comp2.elt if t.func.id == "any" else ast.UnaryOp(op=ast.Not(), operand=comp2.elt)
            inner = [ast.If(test=cond, body=s.body, orelse=[])]
            for c in reversed(gen.ifs):
                inner = [ast.If(test=c, body=inner, orelse=[])]
            loop = ast.For(target=gen.target, iter=gen.iter, body=inner, orelse=[], type_comment=None)
            for n in ast.walk(loop.target):
                if isinstance(n, ast.Name):
                    n.ctx = ast.Store()
            ast.copy_location(loop, s)
            ast.fix_missing_locations(loop)
            body[i] = loop
            count += 1
    return count


def genexp_loops(fn) -> int:
    """xs = (t for t in it if c) ; for v in xs: B   ->   for v in it: if c[v/t]: B     (xs used nowhere else; also inline `for v in (t for t in it if c)`)"""
    count = 0
    loads: Dict[str, int] = {}
    stores: Dict[str, int] = {}
    for n in ast.walk(fn):
        if isinstance(n, ast.Name):
            d = loads if isinstance(n.ctx, ast.Load) else stores
            d[n.id] = d.get(n.id, 0) + 1
    for body in _stmt_blocks(fn):
        i = 0
        while i < len(body):
            s = body[i]
            i += 1
            if not (isinstance(s, ast.For) and not s.orelse):
                continue
            comp = None
            drop = None
            if isinstance(s.iter, ast.GeneratorExp):
                comp = s.iter
            elif isinstance(s.iter, ast.Name) and i >= 2:
                prev = body[i - 2]
                nm = s.iter.id
                if isinstance(prev, ast.Assign) and len(prev.targets) == 1 and isinstance(prev.targets[0], ast.Name) and prev.targets[0].id == nm \
                        and isinstance(prev.value, ast.GeneratorExp) and loads.get(nm, 0) == 1 and stores.get(nm, 0) == 1:
                    comp = prev.value
                    drop = i - 2
            if comp is None or len(comp.generators) != 1 or comp.generators[0].is_async:
                continue
            gen = comp.generators[0]
            tnames = [n.id for n in ast.walk(gen.target) if isinstance(n, ast.Name)]
            if not (isinstance(comp.elt, ast.Name) and tnames.count(comp.elt.id) == 1):
                # general element: `for T in (E for t in it if c): B` -> `for t in it: if c: T = E; B`  (t fresh in the function)
                inside_ = {id(n) for n in ast.walk(comp)}
                outside_ = {n.id for n in ast.walk(fn) if isinstance(n, ast.Name) and id(n) not in inside_}
                if isinstance(s.target, ast.Starred):
                    continue
                clash = {t_: f"__g{count}_{t_.lstrip('_')}" for t_ in tnames if t_ in outside_ and t_ != "_"}
                if clash:
                    # the generator's own variables get fresh names (its first iterable is evaluated outside its scope: untouched)
                    first_iter = gen.iter
                    for n in ast.walk(comp):
                        if isinstance(n, ast.Name) and n.id in clash and not any(n is y for y in ast.walk(first_iter)):
                            n.id = clash[n.id]
                bind = ast.Assign(targets=[s.target], value=comp.elt)
                ast.copy_location(bind, s)
                inner = [bind] + s.body
                for c in reversed(gen.ifs):
                    inner = [ast.If(test=c, body=inner, orelse=[])]
                new_target = ast_copy(gen.target)
                for n in ast.walk(new_target):
                    if isinstance(n, ast.Name):
                        n.ctx = ast.Store()
                s.iter = gen.iter
                s.target = new_target
                s.body = inner
                ast.fix_missing_locations(s)
                if drop is not None:
                    del body[drop]
                    i -= 1
                count += 1
                continue
            if not isinstance(s.target, ast.Name):
                continue
            v = s.target.id
            e = comp.elt.id
            if any(isinstance(n, ast.Name) and n.id == v for n in ast.walk(comp)) and v != e:
                continue
            # the other names bound by the generator become locals of the function: they must be fresh
            others = [x for x in tnames if x != e]
            inside = {id(n) for n in ast.walk(comp)}
            outside = {n.id for n in ast.walk(fn) if isinstance(n, ast.Name) and id(n) not in inside}
            if any(o in outside and o != "_" for o in others):
                continue
            conds = [ast_copy(c) for c in gen.ifs]
            for c in conds:
                for n in ast.walk(c):
                    if isinstance(n, ast.Name) and n.id == e:
                        n.id = v
            new_target = ast_copy(gen.target)
            for n in ast.walk(new_target):
                if isinstance(n, ast.Name):
                    if n.id == e:
                        n.id = v
                    n.ctx = ast.Store()
            inner = s.body
            for c in reversed(conds):
                inner = [ast.If(test=c, body=inner, orelse=[])]
            s.iter = gen.iter
            s.target = new_target
            s.body = inner
            ast.fix_missing_locations(s)
            if drop is not None:
                del body[drop]
                i -= 1
            count += 1
    return count


def split_webs(fn) -> List[str]:
    """A local assigned several times whose reads each see exactly one of the assignments is really several variables:
    the k-th assignment (k >= 2, source order) and its reads are renamed `name__k`.  (`d = p.parent` in two consecutive loops)"""
    from .cfg import CFG
    from .dataflow import ReachingDefs

    counts: Dict[str, int] = {}
    for n in ast.walk(fn):
        if isinstance(n, ast.Name) and isinstance(n.ctx, ast.Store):
            counts[n.id] = counts.get(n.id, 0) + 1
    cands = {k for k, v in counts.items() if v >= 2}
    if not cands:
        return []
    try:
        g = CFG(fn)
    except Exception:
        return []
    rd = ReachingDefs(g)
    cands -= set(rd.params) | names_in_nested_scopes(fn) | comprehension_vars(fn)
    done = []
    for name in sorted(cands):
        defs = [d for n in g.live for d in rd.gen[n.id] if d.name == name]

        def target_name(d):
            """the Name node that binds `name` at definition d (simple assignment or for-loop target)"""
            if d.kind == "assign" and d.node.kind == "stmt" and isinstance(d.node.ast, ast.Assign) and len(d.node.ast.targets) == 1 and isinstance(d.node.ast.targets[0], ast.Name):
                return d.node.ast.targets[0]
            if d.kind == "for" and d.node.kind == "for":
                hits = [x for x in ast.walk(d.node.ast.target) if isinstance(x, ast.Name) and x.id == name]
                return hits[0] if len(hits) == 1 else None
            return None

        if any(target_name(d) is None for d in defs):
            continue
        if any(d.kind == "assign" and _is_state(d.value) for d in defs):
            continue
        if len({id(target_name(d)) for d in defs}) != len(defs) or len(defs) != counts[name]:
            continue  # duplicated finally bodies / dead code
        owner: Dict[int, object] = {}
        nodes: Dict[int, ast.Name] = {}
        ok = True
        for n in g.live:
            for x in n.walk():
                if isinstance(x, ast.Name) and x.id == name and isinstance(x.ctx, (ast.Load, ast.Del)):
                    ds = rd.defs_at(name, n)
                    if len(ds) != 1:
                        ok = False
                        break
                    d = next(iter(ds))
                    if d.node is None or owner.get(id(x), d) is not d:
                        ok = False
                        break
                    owner[id(x)] = d
                    nodes[id(x)] = x
            if not ok:
                break
        if not ok:
            continue
        all_loads = [x for x in ast.walk(fn) if isinstance(x, ast.Name) and x.id == name and isinstance(x.ctx, (ast.Load, ast.Del))]
        if len(all_loads) != len(nodes):
            continue
        order = sorted(defs, key=lambda d: (target_name(d).lineno, target_name(d).col_offset))
        for k, d in enumerate(order):
            if k == 0:
                continue
            new = f"{name}__{k + 1}"
            target_name(d).id = new
            for i, dd in owner.items():
                if dd is d:
                    nodes[i].id = new
        done.append(name)
    return done


def _is_state(v) -> bool:
    from .dataflow import _is_state_init

    return v is None or _is_state_init(v)


def ifexp_to_if(fn) -> int:
    """`return A if c else B` -> `if c: return A` / `else: return B`;  `t = A if c else B` -> `if c: t = A` / `else: t = B` (recursively for chained
    conditional expressions).  Conditions then exist once, as tests of the control-flow graph."""
    count = 0

    def split(s):
        v = s.value
        mk = lambda val: (ast.Return(value=val) if isinstance(s, ast.Return) else
                          ast.Assign(targets=[ast_copy(t) for t in s.targets], value=val) if isinstance(s, ast.Assign) else
                          ast.AnnAssign(target=ast_copy(s.target), annotation=ast_copy(s.annotation), value=val, simple=s.simple))
        a, b = mk(v.body), mk(v.orelse)
        for x in (a, b):
            ast.copy_location(x, s)
        node = ast.If(test=v.test, body=expand(a), orelse=expand(b))
        ast.copy_location(node, s)
        ast.fix_missing_locations(node)
        return node

    def expand(s):
        nonlocal count
        if isinstance(s, (ast.Return, ast.Assign, ast.AnnAssign)) and isinstance(getattr(s, "value", None), ast.IfExp):
            if isinstance(s, ast.Assign) and any(not isinstance(t, (ast.Name, ast.Attribute, ast.Subscript)) for t in s.targets):
                return [s]
            count += 1
            return [split(s)]
        return [s]

    for body in _stmt_blocks(fn):
        i = 0
        while i < len(body):
            new = expand(body[i])
            if new[0] is not body[i]:
                body[i:i + 1] = new
            i += 1
    return count


def default_none_gets(fn) -> int:
    """`d.get(k, None)` -> `d.get(k)`"""
    n = 0
    for x in ast.walk(fn):
        if isinstance(x, ast.Call) and isinstance(x.func, ast.Attribute) and x.func.attr == "get" and len(x.args) == 2 and not x.keywords \
                and isinstance(x.args[1], ast.Constant) and x.args[1].value is None:
            x.args = x.args[:1]
            n += 1
    return n


def while_true_breaks(fn) -> int:
    """`while True: if c: break ; B`  ->  `while not c: B`   (the loop has no else clause)"""
    count = 0
    for x in ast.walk(fn):
        if isinstance(x, ast.While) and not x.orelse and isinstance(x.test, ast.Constant) and x.test.value is True and x.body:
            first = x.body[0]
            if isinstance(first, ast.If) and not first.orelse and len(first.body) == 1 and isinstance(first.body[0], ast.Break) and len(x.body) > 1:
                t = first.test
                neg = ast.UnaryOp(op=ast.Not(), operand=t)
                if isinstance(t, ast.UnaryOp) and isinstance(t.op, ast.Not):
                    neg = t.operand
                ast.copy_location(neg, t)
                x.test = neg
                x.body = x.body[1:]
                ast.fix_missing_locations(x)
                count += 1
    return count


def integer_attributes(modules) -> set:
    """attribute names that hold integers: somewhere assigned an int constant, int(...) or len(...)"""
    out = set()
    for m in modules:
        for n in ast.walk(m):
            if isinstance(n, ast.Assign) and len(n.targets) == 1 and isinstance(n.targets[0], ast.Attribute):
                v = n.value
                if (isinstance(v, ast.Constant) and type(v.value) is int) or (isinstance(v, ast.Call) and isinstance(v.func, ast.Name) and v.func.id in ("int", "len")):
                    out.add(n.targets[0].attr)
    # copies of integer attributes are integers
    changed = True
    while changed:
        changed = False
        for m in modules:
            for n in ast.walk(m):
                if isinstance(n, ast.Assign) and len(n.targets) == 1 and isinstance(n.targets[0], ast.Attribute) and n.targets[0].attr not in out \
                        and isinstance(n.value, ast.Attribute) and n.value.attr in out:
                    out.add(n.targets[0].attr)
                    changed = True
    return out


def explicit_to_augmented(fn, int_attrs: set) -> int:
    """`x.c = x.c + e` / `x.c = x.c - e`  ->  `x.c += e` / `x.c -= e`  for integer counters (immutable values: the two forms are the same)"""
    count = 0
    for body in _stmt_blocks(fn):
        for i, s in enumerate(body):
            if isinstance(s, ast.Assign) and len(s.targets) == 1 and isinstance(s.targets[0], ast.Attribute) and s.targets[0].attr in int_attrs \
                    and isinstance(s.value, ast.BinOp) and isinstance(s.value.op, (ast.Add, ast.Sub)):
                # flatten the left-associative chain  X (+|-) a (+|-) b ...
                terms = []
                e = s.value
                while isinstance(e, ast.BinOp) and isinstance(e.op, (ast.Add, ast.Sub)):
                    terms.append((type(e.op), e.right))
                    e = e.left
                if src(e) != src(s.targets[0]):
                    continue
                terms.reverse()
                first_op, value = terms[0]
                for op_, t_ in terms[1:]:
                    # X - a + b = X - (a - b) ; X + a - b = X + (a - b)
                    same = (op_ is first_op)
                    value = ast.BinOp(left=value, op=ast.Add() if same else ast.Sub(), right=t_)
                new = ast.AugAssign(target=s.targets[0], op=first_op(), value=value)
                ast.copy_location(new, s)
                ast.fix_missing_locations(new)
                body[i] = new
                count += 1
    return count


def hoist_walrus(fn) -> int:
    """`if (x := E) ...:`  ->  `x = E` ; `if x ...:`   when the binding is the first thing with an effect that the statement evaluates, exactly once"""
    count = 0
    for body in _stmt_blocks(fn):
        i = 0
        while i < len(body):
            s = body[i]
            i += 1
            if isinstance(s, (ast.While, ast.For, ast.AsyncFor)) or isinstance(s, FUNC_TYPES + (ast.ClassDef,)):
                continue
            done = False
            for h in _header_exprs(s):
                order = list(_eval_order(h))
                first = next(((x, cond) for x, cond in order if isinstance(x, ast.NamedExpr)), None)
                if first is None:
                    # a later header expression is evaluated after this one: stop if this one has effects
                    if any(not isinstance(x, _PURE_BEFORE + (ast.Compare, ast.UnaryOp, ast.BoolOp)) for x, _ in order):
                        break
                    continue
                x, cond = first
                if cond or not isinstance(x.target, ast.Name):
                    break
                inside = {id(z) for z in ast.walk(x.value)}
                ok = True
                for y, _c in order:
                    if y is x:
                        break
                    if id(y) in inside:
                        continue
                    if not isinstance(y, _PURE_BEFORE):
                        ok = False
                        break
                if not ok:
                    break
                asg = ast.Assign(targets=[ast.Name(id=x.target.id, ctx=ast.Store())], value=x.value)
                ast.copy_location(asg, s)
                ast.fix_missing_locations(asg)
                use = ast.Name(id=x.target.id, ctx=ast.Load())
                ast.copy_location(use, x)

                class S(ast.NodeTransformer):
                    def visit_NamedExpr(self, n):
                        return use if n is x else self.generic_visit(n)

                new_h = S().visit(h)
                for field, v in ast.iter_fields(s):
                    if v is h:
                        setattr(s, field, new_h)
                    elif isinstance(v, list):
                        for j, y in enumerate(v):
                            if y is h:
                                v[j] = new_h
                            elif isinstance(y, ast.withitem) and y.context_expr is h:
                                y.context_expr = new_h
                body.insert(i - 1, asg)
                i += 1
                count += 1
                break
    return count



_NEG = {ast.Eq: ast.NotEq, ast.NotEq: ast.Eq, ast.In: ast.NotIn, ast.NotIn: ast.In, ast.Is: ast.IsNot, ast.IsNot: ast.Is}


def push_not(fn) -> int:
    """`not (a in b)` -> `a not in b`, `not (a == b)` -> `a != b`, `not (a is b)` -> `a is not b`, `not not x` in a boolean position is left alone"""
    count = 0

    class T(ast.NodeTransformer):
        def visit_UnaryOp(self, n):
            nonlocal count
            self.generic_visit(n)
            if isinstance(n.op, ast.Not) and isinstance(n.operand, ast.Compare) and len(n.operand.ops) == 1 and type(n.operand.ops[0]) in _NEG:
                c = n.operand
                c.ops = [_NEG[type(c.ops[0])]()]
                count += 1
                return ast.copy_location(c, n)
            return n

        def visit_FunctionDef(self, n):
            return n

        visit_AsyncFunctionDef = visit_FunctionDef

    for i, st in enumerate(fn.body):
        fn.body[i] = T().visit(st)
    return count


def or_defaults(fn) -> int:
    """`if not x: x = E`  ->  `x = x or E`   (x a local name; also `if x is None: x = E` is left alone: not the same test)"""
    count = 0
    for body in _stmt_blocks(fn):
        for i, s in enumerate(body):
            if isinstance(s, ast.If) and not s.orelse and len(s.body) == 1 and isinstance(s.test, ast.UnaryOp) and isinstance(s.test.op, ast.Not) and isinstance(s.test.operand, ast.Name):
                a = s.body[0]
                if isinstance(a, ast.Assign) and len(a.targets) == 1 and isinstance(a.targets[0], ast.Name) and a.targets[0].id == s.test.operand.id:
                    new = ast.Assign(targets=[a.targets[0]], value=ast.BoolOp(op=ast.Or(), values=[ast.Name(id=a.targets[0].id, ctx=ast.Load()), a.value]))
                    ast.copy_location(new, s)
                    ast.fix_missing_locations(new)
                    body[i] = new
                    count += 1
    return count


def split_chained_assignments(fn) -> int:
    """`a = x.b = E`  ->  `a = E` ; `x.b = a`   (one target per assignment; the value is evaluated once, as before)"""
    count = 0
    k = 0
    for body in _stmt_blocks(fn):
        i = 0
        while i < len(body):
            s = body[i]
            i += 1
            if not (isinstance(s, ast.Assign) and len(s.targets) > 1):
                continue
            names = [t for t in s.targets if isinstance(t, ast.Name)]
            new = []
            if isinstance(s.value, ast.Constant):
                for t in s.targets:
                    new.append(ast.Assign(targets=[t], value=ast_copy(s.value)))
            elif names:
                first = names[0]
                a0 = ast.Assign(targets=[first], value=s.value)
                new.append(a0)
                for t in s.targets:
                    if t is not first:
                        new.append(ast.Assign(targets=[t], value=ast.Name(id=first.id, ctx=ast.Load())))
            elif isinstance(s.value, (ast.Constant, ast.Name)) or (isinstance(s.value, ast.Attribute) and isinstance(s.value.value, ast.Name)):
                for t in s.targets:
                    new.append(ast.Assign(targets=[t], value=ast_copy(s.value)))
            else:
                k += 1
                tmp = f"__chain{k}"
                new.append(ast.Assign(targets=[ast.Name(id=tmp, ctx=ast.Store())], value=s.value))
                for t in s.targets:
                    new.append(ast.Assign(targets=[t], value=ast.Name(id=tmp, ctx=ast.Load())))
            for x in new:
                ast.copy_location(x, s)
                ast.fix_missing_locations(x)
            body[i - 1:i] = new
            i += len(new) - 1
            count += 1
    return count


def split_tuple_assignments(fn) -> int:
    """`a, b = X, Y`  ->  `a = X` ; `b = Y`   when no right-hand side mentions a target name and the targets are plain names"""
    count = 0
    for body in _stmt_blocks(fn):
        i = 0
        while i < len(body):
            s = body[i]
            i += 1
            if not (isinstance(s, ast.Assign) and len(s.targets) == 1 and isinstance(s.targets[0], (ast.Tuple, ast.List)) and isinstance(s.value, (ast.Tuple, ast.List))
                    and len(s.targets[0].elts) == len(s.value.elts) and all(isinstance(t, ast.Name) for t in s.targets[0].elts)
                    and not any(isinstance(v, ast.Starred) for v in s.value.elts)):
                continue
            tn = {t.id for t in s.targets[0].elts}
            if any(isinstance(n, ast.Name) and n.id in tn for v in s.value.elts for n in ast.walk(v)):
                continue
            new = []
            for t, v in zip(s.targets[0].elts, s.value.elts):
                a = ast.Assign(targets=[t], value=v)
                ast.copy_location(a, s)
                ast.fix_missing_locations(a)
                new.append(a)
            body[i - 1:i] = new
            i += len(new) - 1
            count += 1
    return count


def merge_nested_withs(fn) -> int:
    """`with a:` / `    with b: B`  ->  `with a, b: B`  (the outer block contains nothing but the inner one)"""
    count = 0
    changed = True
    while changed:
        changed = False
        for x in ast.walk(fn):
            if isinstance(x, (ast.With, ast.AsyncWith)) and len(x.body) == 1 and type(x.body[0]) is type(x):
                inner = x.body[0]
                x.items = x.items + inner.items
                x.body = inner.body
                count += 1
                changed = True
    return count


def conditional_iter_loops(fn) -> int:
    """`for t in (A if c else ()): B`  ->  `if c: for t in A: B`   (an empty literal as the other arm; no else clause on the loop)"""
    count = 0

    def empty(e):
        return (isinstance(e, (ast.Tuple, ast.List, ast.Set)) and not e.elts) or (isinstance(e, ast.Dict) and not e.keys) or (isinstance(e, ast.Constant) and e.value in ("", b""))

    for body in _stmt_blocks(fn):
        for i, s in enumerate(body):
            if isinstance(s, ast.For) and not s.orelse and isinstance(s.iter, ast.IfExp):
                ie = s.iter
                if empty(ie.orelse) and not empty(ie.body):
                    test, it = ie.test, ie.body
                elif empty(ie.body) and not empty(ie.orelse):
                    test, it = ast.UnaryOp(op=ast.Not(), operand=ie.test), ie.orelse
                else:
                    continue
                s.iter = it
                new = ast.If(test=test, body=[s], orelse=[])
                ast.copy_location(new, s)
                ast.fix_missing_locations(new)
                body[i] = new
                count += 1
    return count


def index_while_to_for(fn) -> int:
    """`i = K` ; `while i < len(S): t = S[i]; i += 1; B`  ->  `for t in S[K:]: B`   (i used for nothing else; S not rebound in B; also with
    the increment as the last statement of a body without `continue`)"""
    count = 0
    for body in _stmt_blocks(fn):
        j = 0
        while j + 1 < len(body):
            a, w = body[j], body[j + 1]
            j += 1
            if not (isinstance(a, ast.Assign) and len(a.targets) == 1 and isinstance(a.targets[0], ast.Name) and isinstance(a.value, ast.Constant) and type(a.value.value) is int and a.value.value >= 0):
                continue
            i = a.targets[0].id
            if not (isinstance(w, ast.While) and not w.orelse and isinstance(w.test, ast.Compare) and len(w.test.ops) == 1 and isinstance(w.test.ops[0], ast.Lt)
                    and isinstance(w.test.left, ast.Name) and w.test.left.id == i and isinstance(w.test.comparators[0], ast.Call)
                    and isinstance(w.test.comparators[0].func, ast.Name) and w.test.comparators[0].func.id == "len" and len(w.test.comparators[0].args) == 1
                    and isinstance(w.test.comparators[0].args[0], ast.Name)):
                continue
            S = w.test.comparators[0].args[0].id
            wb = w.body
            if len(wb) < 2:
                continue
            first = wb[0]
            if not (isinstance(first, ast.Assign) and len(first.targets) == 1 and isinstance(first.targets[0], ast.Name) and isinstance(first.value, ast.Subscript)
                    and isinstance(first.value.value, ast.Name) and first.value.value.id == S and isinstance(first.value.slice, ast.Name) and first.value.slice.id == i):
                continue
            t = first.targets[0].id

            def is_inc(s_):
                return isinstance(s_, ast.AugAssign) and isinstance(s_.target, ast.Name) and s_.target.id == i and isinstance(s_.op, ast.Add) and isinstance(s_.value, ast.Constant) and s_.value.value == 1

            if is_inc(wb[1]):
                rest = wb[2:]
            elif is_inc(wb[-1]) and not any(isinstance(x, ast.Continue) for s_ in wb for x in ast.walk(s_)):
                rest = wb[1:-1]
            else:
                continue
            uses_i = [n for s_ in rest for n in ast.walk(s_) if isinstance(n, ast.Name) and n.id == i]
            after = [n for s_ in body[j + 1:] for n in ast.walk(s_) if isinstance(n, ast.Name) and n.id == i and isinstance(n.ctx, ast.Load)]
            rebinds = [n for s_ in rest for n in ast.walk(s_) if isinstance(n, ast.Name) and n.id == S and isinstance(n.ctx, ast.Store)]
            if uses_i or after or rebinds or not rest:
                continue
            it = ast.Subscript(value=ast.Name(id=S, ctx=ast.Load()), slice=ast.Slice(lower=ast.Constant(value=a.value.value), upper=None, step=None), ctx=ast.Load()) if a.value.value else ast.Name(id=S, ctx=ast.Load())
            loop = ast.For(target=ast.Name(id=t, ctx=ast.Store()), iter=it, body=rest, orelse=[], type_comment=None)
            ast.copy_location(loop, w)
            ast.fix_missing_locations(loop)
            body[j - 1:j + 1] = [loop]
            count += 1
    return count


def strip_annotations(fn) -> int:
    """`x: T = v` -> `x = v` ; a bare `x: T` disappears (annotations of locals / attributes have no run-time effect inside functions)"""
    count = 0
    for body in _stmt_blocks(fn):
        i = 0
        while i < len(body):
            s = body[i]
            if isinstance(s, ast.AnnAssign):
                if s.value is None:
                    if len(body) > 1:
                        del body[i]
                    else:
                        body[i] = ast.copy_location(ast.Pass(), s)
                        i += 1
                    count += 1
                    continue
                new = ast.Assign(targets=[s.target], value=s.value)
                ast.copy_location(new, s)
                body[i] = new
                count += 1
            i += 1
    return count


def list_literal_augments(fn) -> int:
    """`xs += [a]` -> `xs.append(a)` ; `xs += [a, b]` -> `xs.extend([a, b])`   (a list literal on the right: xs is a list)"""
    count = 0
    for body in _stmt_blocks(fn):
        for i, s in enumerate(body):
            if isinstance(s, ast.AugAssign) and isinstance(s.op, ast.Add) and isinstance(s.value, ast.List) and isinstance(s.target, (ast.Name, ast.Attribute)) and s.value.elts \
                    and not any(isinstance(e, ast.Starred) for e in s.value.elts):
                recv = ast_copy(s.target)
                recv.ctx = ast.Load()
                if len(s.value.elts) == 1:
                    call = ast.Call(func=ast.Attribute(value=recv, attr="append", ctx=ast.Load()), args=[s.value.elts[0]], keywords=[])
                else:
                    call = ast.Call(func=ast.Attribute(value=recv, attr="extend", ctx=ast.Load()), args=[s.value], keywords=[])
                new = ast.Expr(value=call)
                ast.copy_location(new, s)
                ast.fix_missing_locations(new)
                body[i] = new
                count += 1
    return count


def list_augments(fn) -> int:
    """`xs += e` -> `xs.extend(e)` when xs is a list in this function: a local only ever bound to list displays, or a receiver on which a
    list-only method (append / extend / sort / insert) is called in the same function"""
    LIST_ONLY = {"append", "extend", "sort", "insert"}
    lists, others = set(), set()
    for n in ast.walk(fn):
        if isinstance(n, ast.Call) and isinstance(n.func, ast.Attribute) and n.func.attr in LIST_ONLY and isinstance(n.func.value, (ast.Name, ast.Attribute)):
            lists.add(ast.unparse(n.func.value))
        if isinstance(n, (ast.Assign, ast.AnnAssign)) and getattr(n, "value", None) is not None:
            for t in (n.targets if isinstance(n, ast.Assign) else [n.target]):
                if isinstance(t, ast.Name):
                    v = n.value
                    if isinstance(v, (ast.List, ast.ListComp)) or (isinstance(v, ast.Call) and isinstance(v.func, ast.Name) and v.func.id in ("list", "sorted")):
                        lists.add(t.id)
                    else:
                        others.add(t.id)
                elif isinstance(t, (ast.Tuple, ast.List)):
                    others |= {x.id for x in ast.walk(t) if isinstance(x, ast.Name)}
        if isinstance(n, (ast.For, ast.comprehension, ast.withitem, ast.NamedExpr)):
            t = getattr(n, "target", None) or getattr(n, "optional_vars", None)
            if t is not None:
                others |= {x.id for x in ast.walk(t) if isinstance(x, ast.Name)}
    lists -= others
    count = 0
    for body in _stmt_blocks(fn):
        for i, s in enumerate(body):
            if isinstance(s, ast.AugAssign) and isinstance(s.op, ast.Add) and isinstance(s.target, (ast.Name, ast.Attribute)) and ast.unparse(s.target) in lists \
                    and not isinstance(s.value, ast.List):
                recv = ast_copy(s.target)
                recv.ctx = ast.Load()
                new = ast.Expr(value=ast.Call(func=ast.Attribute(value=recv, attr="extend", ctx=ast.Load()), args=[s.value], keywords=[]))
                ast.copy_location(new, s)
                ast.fix_missing_locations(new)
                body[i] = new
                count += 1
    return count


def conditional_max(fn) -> int:
    """`if a < b: a = b` (also `<=`, `b > a`, `not a > b`, `not a >= b`) -> `a = max(b, a)` ; the mirror image -> `a = min(b, a)`.
    (totally ordered operands assumed for the negated forms: they are what such an update is written for)"""
    count = 0
    for body in _stmt_blocks(fn):
        for i, s in enumerate(body):
            if not (isinstance(s, ast.If) and not s.orelse and len(s.body) == 1 and isinstance(s.body[0], ast.Assign) and len(s.body[0].targets) == 1):
                continue
            a = s.body[0]
            if not isinstance(a.targets[0], (ast.Name, ast.Attribute)):
                continue
            test, neg = s.test, False
            while isinstance(test, ast.UnaryOp) and isinstance(test.op, ast.Not):
                test, neg = test.operand, not neg
            if not (isinstance(test, ast.Compare) and len(test.ops) == 1 and isinstance(test.ops[0], (ast.Lt, ast.LtE, ast.Gt, ast.GtE))):
                continue
            t, v = ast.unparse(a.targets[0]), ast.unparse(a.value)
            l, r = ast.unparse(test.left), ast.unparse(test.comparators[0])
            if t == v or {l, r} != {t, v} or not is_pure(a.value) or not is_pure(a.targets[0]):
                continue
            less = isinstance(test.ops[0], (ast.Lt, ast.LtE))      # left smaller than right
            target_smaller = (less == (l == t)) != neg
            tl = ast_copy(a.targets[0])
            tl.ctx = ast.Load()
            for x in ast.walk(tl):
                if hasattr(x, "ctx"):
                    x.ctx = ast.Load()
            new = ast.Assign(targets=[a.targets[0]], value=ast.Call(func=ast.Name(id="max" if target_smaller else "min", ctx=ast.Load()), args=[a.value, tl], keywords=[]))
            ast.copy_location(new, s)
            ast.fix_missing_locations(new)
            body[i] = new
            count += 1
    return count


def joinpaths(fn) -> int:
    """`p.joinpath(a, b)` -> `p / a / b`"""
    count = 0

    class T(ast.NodeTransformer):
        def visit_Call(self, n):
            nonlocal count
            self.generic_visit(n)
            if isinstance(n.func, ast.Attribute) and n.func.attr == "joinpath" and n.args and not n.keywords and not any(isinstance(a, ast.Starred) for a in n.args):
                e = n.func.value
                for a in n.args:
                    e = ast.BinOp(left=e, op=ast.Div(), right=a)
                count += 1
                return ast.copy_location(e, n)
            return n

        def visit_FunctionDef(self, n):
            return n

        visit_AsyncFunctionDef = visit_FunctionDef

    for i, st in enumerate(fn.body):
        fn.body[i] = ast.fix_missing_locations(T().visit(st))
    return count


def sink_returns(fn) -> int:
    """Single-exit style back to early returns: `if c: A else: B` followed by `return <name>` at the end of a body becomes
    `if c: A; return <name> else: B; return <name>` (recursively through nested if/else tails).  Only a plain name / constant is duplicated."""
    n = 0

    def ends(body):
        return bool(body) and isinstance(body[-1], (ast.Return, ast.Raise, ast.Continue, ast.Break))

    def sink(body, ret):
        """append a copy of `ret` to every open end of `body` (an if/else tail is entered, anything else gets the return after it)"""
        nonlocal n
        if ends(body):
            return
        if body and isinstance(body[-1], ast.If) and body[-1].orelse:
            sink(body[-1].body, ret)
            sink(body[-1].orelse, ret)
            return
        body.append(copy.deepcopy(ret))
        n += 1

    def visit(body):
        for st in body:
            for fld in ("body", "orelse", "finalbody"):
                sub = getattr(st, fld, None)
                if isinstance(sub, list) and not isinstance(st, (ast.FunctionDef, ast.AsyncFunctionDef, ast.ClassDef)):
                    visit(sub)
            for h in getattr(st, "handlers", []) or []:
                visit(h.body)
        if len(body) >= 2 and isinstance(body[-1], ast.Return) and isinstance(body[-1].value, (ast.Name, ast.Constant)) and isinstance(body[-2], ast.If) and body[-2].orelse:
            iff = body[-2]
            # every branch must assign the returned name or end by itself: otherwise nothing is gained
            ret = body.pop()
            sink(iff.body, ret)
            sink(iff.orelse, ret)

    if isinstance(fn, (ast.FunctionDef, ast.AsyncFunctionDef)):
        visit(fn.body)
    return n


def drop_self_assignments(fn) -> int:
    """`x = x` (left behind by splicing a helper that returns its argument) is no statement at all"""
    n = 0
    for body in _stmt_lists(fn):
        for i in range(len(body) - 1, -1, -1):
            st = body[i]
            if isinstance(st, ast.Assign) and len(st.targets) == 1 and isinstance(st.targets[0], ast.Name) and isinstance(st.value, ast.Name) and st.targets[0].id == st.value.id:
                if len(body) > 1:
                    del body[i]
                else:
                    body[i] = ast.copy_location(ast.Pass(), st)
                n += 1
    return n


# ---------------------------------------------------------------- pair idioms: indexing vs unpacking, key loops vs items(), operator getters

def operator_getters(fn) -> int:
    """`itemgetter(k)` / `attrgetter("a")` (module operator) are `lambda x: x[k]` / `lambda x: x.a`"""
    n = 0

    class T(ast.NodeTransformer):
        def visit_Call(self, c):
            nonlocal n
            self.generic_visit(c)
            name = c.func.id if isinstance(c.func, ast.Name) else (c.func.attr if isinstance(c.func, ast.Attribute) and isinstance(c.func.value, ast.Name) and c.func.value.id == "operator" else None)
            if name in ("itemgetter", "attrgetter") and len(c.args) == 1 and not c.keywords and isinstance(c.args[0], ast.Constant):
                k = c.args[0].value
                x = ast.Name(id="x", ctx=ast.Load())
                if name == "itemgetter":
                    body = ast.Subscript(value=x, slice=ast.Constant(value=k), ctx=ast.Load())
                elif isinstance(k, str) and k.isidentifier():
                    body = ast.Attribute(value=x, attr=k, ctx=ast.Load())
                else:
                    return c
                n += 1
                lam = ast.Lambda(args=ast.arguments(posonlyargs=[], args=[ast.arg(arg="x")], kwonlyargs=[], kw_defaults=[], defaults=[]), body=body)
                return ast.fix_missing_locations(ast.copy_location(lam, c))
            return c

    for i, st in enumerate(list(fn.body)):
        fn.body[i] = T().visit(st)
    return n


def dict_key_loops(fn) -> int:
    """`for k in D: v = D[k]; ...` (D a plain name / attribute chain that the body does not rebind) is `for k, v in D.items(): ...`"""
    n = 0
    for body in _stmt_blocks(fn):
        for s in body:
            if not (isinstance(s, ast.For) and isinstance(s.target, ast.Name) and len(s.body) >= 2):
                continue
            d = s.iter
            if isinstance(d, ast.Call) and isinstance(d.func, ast.Attribute) and d.func.attr == "keys" and not d.args:
                d = d.func.value
            if not isinstance(d, (ast.Name, ast.Attribute)) or not is_pure(d):
                continue
            first = s.body[0]
            if not (isinstance(first, ast.Assign) and len(first.targets) == 1 and isinstance(first.targets[0], ast.Name) and isinstance(first.value, ast.Subscript)
                    and src(first.value.value) == src(d) and isinstance(first.value.slice, ast.Name) and first.value.slice.id == s.target.id):
                continue
            root = src(d).split(".")[0]
            stored = {x.id for b in s.body[1:] for x in ast.walk(b) if isinstance(x, ast.Name) and isinstance(x.ctx, (ast.Store, ast.Del))}
            if root in stored or s.target.id in stored or first.targets[0].id == s.target.id:
                continue
            s.target = ast.copy_location(ast.Tuple(elts=[ast.Name(id=s.target.id, ctx=ast.Store()), ast.Name(id=first.targets[0].id, ctx=ast.Store())], ctx=ast.Store()), s.target)
            s.iter = ast.copy_location(ast.Call(func=ast.Attribute(value=ast_copy(d), attr="items", ctx=ast.Load()), args=[], keywords=[]), s.iter)
            del s.body[0]
            ast.fix_missing_locations(s)
            n += 1
    return n


def _pair_arity(scope_nodes, name):
    """uses of `name` inside `scope_nodes`: (max constant index + 1, all uses are constant subscripts or bare loads?) or None"""
    mx = -1
    bare = 0
    parents = {}
    for root in scope_nodes:
        for p in ast.walk(root):
            for c in ast.iter_child_nodes(p):
                parents[id(c)] = p
    for root in scope_nodes:
        for x in ast.walk(root):
            if isinstance(x, ast.Name) and x.id == name:
                if not isinstance(x.ctx, ast.Load):
                    return None
                p = parents.get(id(x))
                if isinstance(p, ast.Subscript) and p.value is x and isinstance(p.ctx, ast.Load) and isinstance(p.slice, ast.Constant) and isinstance(p.slice.value, int) and 0 <= p.slice.value <= 3:
                    mx = max(mx, p.slice.value)
                elif isinstance(p, (ast.For, ast.comprehension)) and p.iter is x:
                    return "iterated"
                else:
                    bare += 1
    if mx < 1:
        return None
    return mx + 1


def _replace_pair(nodes, name, parts):
    class T(ast.NodeTransformer):
        def visit_Subscript(self, s):
            if isinstance(s.value, ast.Name) and s.value.id == name and isinstance(s.slice, ast.Constant) and isinstance(s.slice.value, int) and 0 <= s.slice.value < len(parts):
                return ast.copy_location(ast.Name(id=parts[s.slice.value], ctx=ast.Load()), s)
            return self.generic_visit(s)

        def visit_Name(self, x):
            if x.id == name and isinstance(x.ctx, ast.Load):
                return ast.copy_location(ast.Tuple(elts=[ast.Name(id=p, ctx=ast.Load()) for p in parts], ctx=ast.Load()), x)
            return x

    return [ast.fix_missing_locations(T().visit(n)) for n in nodes]


def _is_pair_source(it) -> bool:
    """iterables whose elements are known to be pairs"""
    if isinstance(it, ast.Call):
        if isinstance(it.func, ast.Attribute) and it.func.attr == "items" and not it.args:
            return True
        if isinstance(it.func, ast.Name) and it.func.id == "enumerate" and 1 <= len(it.args) <= 2:
            return True
        if isinstance(it.func, ast.Name) and it.func.id == "zip" and len(it.args) == 2:
            return True
        if isinstance(it.func, ast.Name) and it.func.id in ("sorted", "list", "tuple", "reversed") and it.args:
            return _is_pair_source(it.args[0])
    if isinstance(it, (ast.GeneratorExp, ast.ListComp)) and len(it.generators) == 1 and isinstance(it.elt, ast.Name) and isinstance(it.generators[0].target, ast.Name) and it.elt.id == it.generators[0].target.id:
        return _is_pair_source(it.generators[0].iter)
    return False


def index_to_unpack(fn) -> int:
    """`for p in pairs: ... p[0] ... p[1]` is `for p__0, p__1 in pairs: ... p__0 ... p__1` (the same for comprehension variables); a nested
    `for el in p:` over a known pair iterates `(p[0], p[1])`.  Applied when every use of the variable is a constant index (or the pair as a whole)"""
    n = 0
    used = {x.id for x in ast.walk(fn) if isinstance(x, ast.Name)}
    # loops over the pair itself first
    for body in _stmt_blocks(fn):
        for s in body:
            if isinstance(s, ast.For) and isinstance(s.target, ast.Name) and _is_pair_source(s.iter):
                for inner in [x for b in s.body for x in ast.walk(b) if isinstance(x, ast.For)]:
                    if isinstance(inner.iter, ast.Name) and inner.iter.id == s.target.id:
                        inner.iter = ast.fix_missing_locations(ast.copy_location(ast.Tuple(elts=[
                            ast.Subscript(value=ast.Name(id=s.target.id, ctx=ast.Load()), slice=ast.Constant(value=i), ctx=ast.Load()) for i in (0, 1)], ctx=ast.Load()), inner.iter))
                        n += 1
    for body in _stmt_blocks(fn):
        for s in body:
            if not (isinstance(s, ast.For) and isinstance(s.target, ast.Name)):
                continue
            name = s.target.id
            inside = {id(x) for x in ast.walk(s)}
            if any(isinstance(x, ast.Name) and x.id == name and id(x) not in inside for x in ast.walk(fn)):
                continue
            ar = _pair_arity(s.body + s.orelse, name)
            if not isinstance(ar, int) or (ar > 2 and not _is_pair_source(s.iter)):
                continue
            if ar == 2 or _is_pair_source(s.iter):
                parts = [f"{name}__{i}" for i in range(ar)]
                if set(parts) & used:
                    continue
                s.target = ast.copy_location(ast.Tuple(elts=[ast.Name(id=p, ctx=ast.Store()) for p in parts], ctx=ast.Store()), s.target)
                s.body = _replace_pair(s.body, name, parts)
                s.orelse = _replace_pair(s.orelse, name, parts)
                ast.fix_missing_locations(s)
                n += 1
    # comprehension variables
    for comp in [x for x in ast.walk(fn) if isinstance(x, (ast.ListComp, ast.SetComp, ast.GeneratorExp, ast.DictComp))]:
        if len(comp.generators) != 1:
            continue
        g = comp.generators[0]
        if not isinstance(g.target, ast.Name):
            continue
        name = g.target.id
        scope = ([comp.key, comp.value] if isinstance(comp, ast.DictComp) else [comp.elt]) + list(g.ifs)
        ar = _pair_arity(scope, name)
        if ar != 2:
            continue
        parts = [f"{name}__{i}" for i in range(2)]
        if set(parts) & used:
            continue
        g.target = ast.copy_location(ast.Tuple(elts=[ast.Name(id=p, ctx=ast.Store()) for p in parts], ctx=ast.Store()), g.target)
        if isinstance(comp, ast.DictComp):
            comp.key, comp.value = _replace_pair([comp.key, comp.value], name, parts)
        else:
            comp.elt = _replace_pair([comp.elt], name, parts)[0]
        g.ifs = _replace_pair(list(g.ifs), name, parts)
        ast.fix_missing_locations(comp)
        n += 1
    return n


def inline_method_aliases(fn, method_names) -> int:
    """`cleanup = self.cleanup` (a method of the enclosing class, cached in a local that is assigned once and nowhere re-bound, also not in
    nested functions) is `self.cleanup` wherever the local is read -- including the nested functions that close over it"""
    if not isinstance(fn, (ast.FunctionDef, ast.AsyncFunctionDef)) or not fn.args.args or fn.args.args[0].arg != "self":
        return 0
    stores = {}
    for x in ast.walk(fn):
        if isinstance(x, ast.Name) and isinstance(x.ctx, (ast.Store, ast.Del)):
            stores[x.id] = stores.get(x.id, 0) + 1
        elif isinstance(x, ast.arg) and x is not fn.args.args[0]:
            stores[x.arg] = stores.get(x.arg, 0) + 1
    if stores.get("self"):
        return 0
    n = 0
    for body in _stmt_lists(fn):
        for i, st in enumerate(body):
            if not (isinstance(st, ast.Assign) and len(st.targets) == 1 and isinstance(st.targets[0], ast.Name)):
                continue
            v = st.value
            if not (isinstance(v, ast.Attribute) and isinstance(v.value, ast.Name) and v.value.id == "self" and v.attr in method_names):
                continue
            name = st.targets[0].id
            if stores.get(name) != 1:
                continue
            # no store into self.<method> anywhere
            if any(isinstance(x, ast.Attribute) and isinstance(x.ctx, (ast.Store, ast.Del)) and isinstance(x.value, ast.Name) and x.value.id == "self" and x.attr == v.attr for x in ast.walk(fn)):
                continue

            class S(ast.NodeTransformer):
                def visit_Name(self, x):
                    if x.id == name and isinstance(x.ctx, ast.Load):
                        return ast.copy_location(ast_copy(v), x)
                    return x

            body[i] = ast.copy_location(ast.Pass(), st)
            for b2 in [fn.body]:
                for k, s2 in enumerate(b2):
                    b2[k] = S().visit(s2)
            ast.fix_missing_locations(fn)
            n += 1
    return n


def len_truthiness(fn) -> int:
    """In a test position `len(x) > 0` / `0 < len(x)` / `len(x) != 0` / `len(x) >= 1` is `x`, `len(x) == 0` / `len(x) < 1` is `not x`, and a bare `len(x)` is `x`"""
    n = 0

    def conv(e):
        nonlocal n
        if isinstance(e, ast.BoolOp):
            e.values = [conv(v) for v in e.values]
            return e
        if isinstance(e, ast.UnaryOp) and isinstance(e.op, ast.Not):
            e.operand = conv(e.operand)
            return e

        def is_len(x):
            return isinstance(x, ast.Call) and isinstance(x.func, ast.Name) and x.func.id == "len" and len(x.args) == 1 and not x.keywords

        def const(x, v):
            return isinstance(x, ast.Constant) and type(x.value) is int and x.value == v

        if is_len(e):
            n += 1
            return e.args[0]
        if isinstance(e, ast.Compare) and len(e.ops) == 1:
            l, op, r = e.left, e.ops[0], e.comparators[0]
            pos = neg = None
            if is_len(l):
                if (isinstance(op, (ast.Gt, ast.NotEq)) and const(r, 0)) or (isinstance(op, ast.GtE) and const(r, 1)):
                    pos = l.args[0]
                elif (isinstance(op, ast.Eq) and const(r, 0)) or (isinstance(op, ast.Lt) and const(r, 1)) or (isinstance(op, ast.LtE) and const(r, 0)):
                    neg = l.args[0]
            elif is_len(r):
                if (isinstance(op, (ast.Lt, ast.NotEq)) and const(l, 0)) or (isinstance(op, ast.LtE) and const(l, 1)):
                    pos = r.args[0]
                elif (isinstance(op, ast.Eq) and const(l, 0)) or (isinstance(op, ast.Gt) and const(l, 1)) or (isinstance(op, ast.GtE) and const(l, 0)):
                    neg = r.args[0]
            if pos is not None:
                n += 1
                return ast.copy_location(pos, e)
            if neg is not None:
                n += 1
                return ast.copy_location(ast.UnaryOp(op=ast.Not(), operand=neg), e)
        return e

    for x in ast.walk(fn):
        if isinstance(x, (ast.If, ast.While, ast.IfExp, ast.Assert)):
            x.test = conv(x.test)
        elif isinstance(x, ast.comprehension):
            x.ifs = [conv(i) for i in x.ifs]
    if n:
        ast.fix_missing_locations(fn)
    return n
