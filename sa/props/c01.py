"""C01 -- identifier is a pure function of content (DESIGN section 4, C01)."""

from __future__ import annotations

import ast
import json
import re
from pathlib import Path

from ..astq import (attr_stores, body_walk, call_name, dotted, enclosing_stmt, in_logging,
                    is_logging_call, src, walk_local, norm_stmt)
from ..cfg import CFG
from ..dataflow import ReachingDefs
from ..hashmodel import full_model
from ..loader import Undecided
from ..report import Check, VERIF

ASSUMPTIONS = [
    "struct.pack / hashlib.sha256 / str.encode behave as documented (trusted)",
    "the pinned wire model (/verif/spec/hash_wire_v2.json) was extracted from the pinned commit: equality "
    "with identifiers stored by earlier releases is decided only through that model",
    "user __eq__ of default values is deterministic",
]

SPEC = VERIF / "spec" / "hash_wire_v2.json"

# functions whose code computes identifiers (slice roots; the slice is closed under calls below)
SLICE_ROOTS = [
    ("core.objects", "HashComputer.compute"),
    ("core.objects", "ConfigInformation.identifiers"),
]

NONDET_CALLS = {"hash", "id", "repr", "os.getenv", "os.getpid", "os.urandom", "object.__repr__", "os.times"}
NONDET_PREFIX = ("time.", "random.", "uuid.", "os.environ", "secrets.", "datetime.", "tempfile.", "socket.")
TEXT_ATTRS = {"__module__", "__qualname__", "__name__", "name"}


def hash_slice(chk: Check):
    """Functions that compute identifiers: every method of HashComputer / ConfigPath / Identifier, the identifier
    properties of ConfigInformation with collect_pre_tasks (and its nested walker), and the module-level predicates
    they call (class-based, so that it does not depend on how receivers are named)"""
    tree = chk.tree
    mod = tree.mod("core.objects")
    out = {}
    for c in ("HashComputer", "ConfigPath", "Identifier"):
        for f in tree.cls("core.objects", c).methods.values():
            out[f.key] = f
    ci = tree.cls("core.objects", "ConfigInformation")
    for name in ("identifiers", "raw_identifier", "full_identifier", "collect_pre_tasks"):
        if name not in ci.methods:
            raise Undecided(f"ConfigInformation.{name} not found")
        out[ci.methods[name].key] = ci.methods[name]
    # nested definitions and module-level functions called from the slice
    changed = True
    modfuncs = {f.qual: f for f in tree.funcs.values() if f.module is mod and "." not in f.qual}
    while changed:
        changed = False
        for f in list(out.values()):
            for g in tree.funcs.values():
                if g.module is f.module and g.qual.startswith(f.qual + ".") and g.key not in out:
                    out[g.key] = g
                    changed = True
            for n in body_walk(f.node):
                if isinstance(n, ast.Call) and isinstance(n.func, ast.Name) and n.func.id in modfuncs and modfuncs[n.func.id].key not in out:
                    out[modfuncs[n.func.id].key] = modfuncs[n.func.id]
                    changed = True
    return list(out.values())


def is_sink_call(c: ast.Call, hashers) -> bool:
    d = dotted(c.func) or ""
    if d in ("self._hashupdate", "self.update"):
        return True
    p = d.split(".")
    if len(p) == 2 and p[1] in ("_hashupdate",) :
        return True
    if len(p) == 2 and p[1] == "update" and p[0] in hashers.get("computers", ()) if isinstance(hashers, dict) else False:
        return True
    return p[-1] == "update" and len(p) >= 2 and (".".join(p[:-1]) in hashers or ".".join(p[:-1]) == "self._hasher")


def fn_hashers(fn) -> set:
    out = set()
    for n in body_walk(fn):
        if isinstance(n, ast.Assign) and isinstance(n.value, ast.Call) and (dotted(n.value.func) or "").startswith("hashlib."):
            for t in n.targets:
                d = dotted(t)
                if d:
                    out.add(d)
    return out


def r1_no_nondeterminism(chk: Check):
    """R1: no nondeterministic source flows into the hasher"""
    fs = hash_slice(chk)
    nsinks = 0
    for f in fs:
        if f.cls is None or f.cls.qual not in ("HashComputer", "ConfigInformation"):
            continue
        hashers = fn_hashers(f.node)
        g = None
        for n in body_walk(f.node):
            if not (isinstance(n, ast.Call) and is_sink_call(n, hashers)):
                continue
            if f.qual == "HashComputer._hashupdate":
                pass
            nsinks += 1
            if g is None:
                g = CFG(f.node)
                rd = ReachingDefs(g)
            nodes = g.nodes_of(n)
            if not nodes:
                continue
            at = nodes[0]
            bad = []
            for a in list(n.args) + [k.value for k in n.keywords]:
                bad += taint(a, at, rd, set())
            key = chk.fkey(f, f"sink {src(n)[:80]}")
            chk.require(not bad, key,
                        f"value fed to the identifier hash derives from a non-reproducible source: {', '.join(sorted(set(bad)))}",
                        chk.loc(f.module, n))
    chk.count("hasher_sink_sites", nsinks)
    chk.min_instances(nsinks, 20, "hasher sink call sites in the identifier slice")


def taint(e, at, rd, seen) -> list:
    bad = []
    for x in walk_local(e):
        if isinstance(x, ast.Call):
            d = dotted(x.func) or ""
            if d in NONDET_CALLS or d.startswith(NONDET_PREFIX):
                bad.append(f"{d}()")
            if d == "str" and x.args and not isinstance(x.args[0], ast.Constant):
                a = x.args[0]
                if not (isinstance(a, ast.Attribute) and a.attr in TEXT_ATTRS):
                    bad.append(f"str({src(a)}) of a non-scalar")
        elif isinstance(x, ast.Attribute):
            d = dotted(x) or ""
            if d.startswith(NONDET_PREFIX):
                bad.append(d)
        elif isinstance(x, ast.FormattedValue):
            v = x.value
            if not (isinstance(v, ast.Attribute) and v.attr in TEXT_ATTRS) and not isinstance(v, ast.Constant):
                bad.append(f"f-string of {src(v)} (text of an arbitrary object)")
        elif isinstance(x, ast.Name) and isinstance(x.ctx, ast.Load):
            for d in rd.defs_at(x.id, at):
                if d.kind in ("assign", "walrus", "aug") and d.value is not None and (d.node.id, x.id) not in seen:
                    seen.add((d.node.id, x.id))
                    bad += taint(d.value, d.node, rd, seen)
                elif d.kind == "for" and (d.node.id, x.id) not in seen:
                    seen.add((d.node.id, x.id))
                    bad += taint(d.value, d.node, rd, seen)
    return bad


def order_class(iter_expr, at, g: CFG, rd: ReachingDefs, fn_key: str):
    """Classify the iteration order of a loop: 'sorted', 'sorted-inplace', 'given:<what>' or
    ('unordered', reason)"""
    e = iter_expr
    if isinstance(e, ast.Call) and dotted(e.func) == "sorted":
        return "sorted", ""
    if isinstance(e, ast.Name):
        ds = rd.defs_at(e.id, at)
        if len(ds) == 1:
            d = next(iter(ds))
            if d.kind == "assign":
                v = d.value
                if isinstance(v, ast.Call) and dotted(v.func) == "sorted":
                    return "sorted", ""
                # in-place sort between the definition and the loop
                for n in g.live:
                    if n.kind == "stmt" and isinstance(n.ast, ast.Expr) and isinstance(n.ast.value, ast.Call):
                        c = n.ast.value
                        if isinstance(c.func, ast.Attribute) and c.func.attr == "sort" and dotted(c.func.value) == e.id:
                            if g.dominates(n, at) and g.dominates(d.node, n):
                                return "sorted-inplace", ""
                return order_class(v, d.node, g, rd, fn_key) if not isinstance(v, ast.Name) else order_class(v, d.node, g, rd, fn_key)
            if d.kind == "param":
                return "given:param", e.id
        return ("unordered", f"`{e.id}` has {len(ds)} reaching definitions, none sorted")
    if isinstance(e, (ast.ListComp,)):
        # order of a list comprehension is the order of its (single) source
        if len(e.generators) == 1:
            return order_class(e.generators[0].iter, at, g, rd, fn_key)
        return ("unordered", "nested comprehension")
    if isinstance(e, ast.Attribute):
        return "given:attr", src(e)
    if isinstance(e, ast.Call):
        d = dotted(e.func) or src(e.func)
        tail = d.split(".")[-1]
        if tail in ("values", "items", "keys"):
            return ("unordered", f"iterates `{src(e)}` (dict/ChainMap order = insertion / class-definition order)")
        if tail in ("set", "frozenset"):
            return ("unordered", f"iterates a set `{src(e)}`")
        if tail == "enumerate" and e.args:
            return order_class(e.args[0], at, g, rd, fn_key)
        if tail in ("list", "tuple", "reversed") and e.args:
            return order_class(e.args[0], at, g, rd, fn_key)
        return ("unordered", f"iterates the result of `{src(e)}` whose order is not canonical")
    return ("unordered", f"iterates `{src(e)}`")


def r2_canonical_order(chk: Check):
    """R2: every loop that feeds the hasher iterates in a canonical order"""
    tree = chk.tree
    nloops = 0
    for modname, qual in [("core.objects", "HashComputer.update"), ("core.objects", "ConfigInformation.identifiers"),
                          ("core.objects", "HashComputer.compute")]:
        f = tree.func(modname, qual)
        g = CFG(f.node)
        rd = ReachingDefs(g)
        hashers = fn_hashers(f.node)
        for n in g.live:
            if n.kind != "for":
                continue
            feeds = any(isinstance(c, ast.Call) and is_sink_call(c, hashers) for s in n.ast.body for c in walk_local(s))
            if not feeds:
                continue
            nloops += 1
            oc = order_class(n.ast.iter, n, g, rd, f.key)
            key = chk.fkey(f, "loop over " + rd.canon(n.ast.iter, n)[:100])
            loc = chk.loc(f.module, n.ast)
            if isinstance(oc, tuple) and oc[0] == "unordered":
                chk.violation(key, "loop feeding the identifier hash does not iterate in a canonical order: " + oc[1], loc)
                continue
            cls, what = oc
            if cls.startswith("sorted"):
                chk.ok(key, loc, cls)
                continue
            # order taken as given: only legitimate where the order is part of the signature
            ok = False
            if qual.endswith("update") and cls == "given:param":
                # the list payload: loop must be guarded by isinstance(<that param>, list)
                for t, pol in g.guards(n):
                    if t.kind == "test" and pol is True and isinstance(t.ast, ast.Call) and dotted(t.ast.func) == "isinstance":
                        a = t.ast.args
                        if len(a) == 2 and dotted(a[0]) == what and dotted(a[1]) in ("list", "List", "tuple"):
                            ok = True
                why = "order of a list value is part of the signature"
            elif qual.endswith("identifiers") and cls == "given:attr" and what == "self.init_tasks":
                ok = True
                why = "order of init tasks is part of the signature"
            else:
                why = ""
            if ok:
                chk.ok(key, loc, f"given order ({why})")
            else:
                chk.violation(key, f"loop feeding the identifier hash iterates `{what or src(n.ast.iter)}` in an order that is neither sorted nor documented as part of the signature", loc)
    chk.count("hash_feeding_loops", nloops)
    chk.min_instances(nloops, 5, "loops feeding the hasher")


CACHE_FIELDS = ("_raw_identifier", "_full_identifier")


def r3_cache(chk: Check):
    """R3: identifier cache legitimacy (stores only when sealed, by the legitimate writers; guard
    reads a flag that is really written; unsealing clears the cache)"""
    tree = chk.tree
    # (i) who writes the cache, and under which guard
    writers = []
    for f in tree.nontest_funcs():
        stores = [(t, v, s) for (t, v, s) in attr_stores(f.node) if t.attr in CACHE_FIELDS]
        # attr_stores walks nested defs' statements too? walk_local does not enter nested bodies
        if not stores:
            continue
        g = CFG(f.node)
        for t, v, s in stores:
            is_none = isinstance(v, ast.Constant) and v.value is None
            loc = chk.loc(f.module, s)
            key = chk.fkey(f, norm_stmt(s))
            if is_none:
                chk.ok(key, loc, "reset of the cache")
                continue
            writers.append((f, t, s))
            base = src(t.value)
            nodes = g.nodes_of(t)
            if not nodes:
                chk.ok(key, loc, "unreachable")
                continue
            guarded = all(any(tn.kind == "test" and pol is True and src(tn.ast) == f"{base}._sealed"
                              for tn, pol in g.guards(n)) for n in nodes)
            chk.require(guarded, key,
                        f"identifier cache field `{t.attr}` is stored without being dominated by a test of `{base}._sealed`: "
                        "an unsealed (still mutable) configuration would keep a stale identifier", loc)
            legit = f.key == "core.objects:ConfigInformation.identifiers"
            chk.require(legit, chk.fkey(f, f"writer of {t.attr}"),
                        f"`{f.qual}` stores the identifier cache field `{t.attr}`; the only legitimate writer is "
                        "ConfigInformation.identifiers (a cache filled while hashing a *parent* can be stale: the producing "
                        "task of a sealed output configuration is attached after its parent was hashed)", loc)
    chk.count("cache_store_sites", len(writers))
    chk.min_instances(len(writers), 2, "non-None stores to the identifier cache fields")

    # (ii) the cached value is returned by compute only under sealed and cached != None and not cached.<loop flag>
    f = tree.func("core.objects", "HashComputer.compute")
    g = CFG(f.node)
    rd = ReachingDefs(g)
    idcls = tree.cls("core.objects", "Identifier")
    defined = class_attrs(idcls)
    nret = 0
    flag_attrs = set()
    from ..dataflow import path_traces

    for tr in path_traces(f.node, alpha=False, pathsens=True):
        if not tr.end.startswith("return ") or "._raw_identifier" not in tr.end:
            continue
        c = tr.end[len("return "):]
        if not c.endswith("._raw_identifier"):
            continue
        nret += 1
        base = c.rsplit("._raw_identifier", 1)[0]
        gs = list(tr.conds)
        sealed = (f"{base}._sealed", True) in gs
        notnone = (f"{c} is None", False) in gs
        flags = [(txt, pol) for txt, pol in gs if txt.startswith(c + ".")]
        key = chk.fkey(f, "return cached identifier")
        last = [n for n in tr.nodes if n.kind == "stmt" and isinstance(n.ast, ast.Return)]
        loc = chk.loc(f.module, last[-1].ast if last else f.node)
        chk.require(sealed, key + " [sealed]", "cached identifier returned without testing that the configuration is sealed", loc)
        chk.require(notnone, key + " [not None]", "cached identifier returned without testing it is not None", loc)
        okflag = False
        for txt, pol in flags:
            attr = txt[len(c) + 1:]
            if pol is False and "(" not in attr:
                flag_attrs.add(attr)
                okflag = True
        chk.require(okflag, key + " [loop-free]",
                    "cached identifier returned without testing its loop flag: an identifier computed inside a cycle "
                    "depends on the path and must not be reused", loc)
    chk.min_instances(nret, 1, "cache-hit return in HashComputer.compute")

    # (ii-b) identifiers(): the cache is *read* only when sealed and filled -- decision table over (cached raw, cached full, sealed, only_raw)
    import itertools
    from ..dataflow import walk_table

    fi = tree.func("core.objects", "ConfigInformation.identifiers")
    gi = CFG(fi.node)
    rdi = ReachingDefs(gi)

    def classify(n):
        t = rdi.canon(n.ast, n)
        return {"self._raw_identifier is None": ("rnone", True), "self._full_identifier is None": ("fnone", True), "self._sealed": ("sealed", True), "only_raw": ("only_raw", True),
                "self.init_tasks": ("init", True)}.get(t)

    def events(n):
        out = []
        for c in n.calls():
            d = dotted(c.func) or ""
            if d == "HashComputer.compute":
                out.append("compute")
            if d.endswith("sha256"):
                out.append("combine")
        if n.kind == "stmt" and isinstance(n.ast, ast.Return):
            out.append("return " + rdi.canon(n.ast.value, n)) if n.ast.value is not None else out.append("return None")
        return out

    bad = []
    nsc = 0
    for rnone, fnone, sealed, only_raw in itertools.product([True, False], repeat=4):
        outs = walk_table(gi, gi.entry, classify, {"rnone": rnone, "fnone": fnone, "sealed": sealed, "only_raw": only_raw, "init": None}, events,
                          lambda n: "exit" if n is gi.exit else ("raise" if n is gi.raise_ else None))
        for o in outs:
            nsc += 1
            unk = [u[0] for u in o.unknown if u[2] is None and "init_tasks" not in u[0] and not u[0].startswith("for ")]
            # `not sealed => recompute` is implied by the cache invariant (stores only under _sealed: (i); unsealing resets: C14.R4), so a cache
            # hit on a filled cache is accepted whatever the flag; a miss must always compute
            must_compute = rnone
            must_combine = (not only_raw) and fnone
            got_c, got_f = "compute" in o.events, "combine" in o.events
            if (must_compute and not got_c) or (must_combine and not got_f) or o.end != "exit" or unk:
                bad.append(f"cached raw={'no' if rnone else 'yes'}, cached full={'no' if fnone else 'yes'}, sealed={sealed}, only_raw={only_raw}: "
                           f"{'recomputes' if got_c else 'reuses raw'}, {'combines' if got_f else 'no full'}{' depending on ' + str(unk) if unk else ''}")
    chk.count("identifiers_scenarios", nsc)
    chk.require(not bad, chk.fkey(fi, "cache read only when sealed and filled"),
                f"identifiers() must compute the raw identifier whenever none is cached, and the full one likewise (unless only the raw one is asked), whatever the sealed flag; found {bad[:3]}: "
                "an unsealed (mutable) configuration would otherwise answer with a stale identifier, or a missing one", chk.loc(fi.module, fi.node))

    # (iii) attributes stored on Identifier objects exist in the class; the guard's flag has a real writer
    nst = 0
    for fq in [("core.objects", "HashComputer.compute"), ("core.objects", "ConfigInformation.identifiers"),
               ("core.objects", "HashComputer.identifier")]:
        if fq[1] == "HashComputer.identifier" and f"{fq[0]}:{fq[1]}" not in tree.funcs:
            continue  # the one-line digest wrapper written out in its only caller (compute, examined above)
        ff = tree.func(*fq)
        gg = CFG(ff.node)
        rr = ReachingDefs(gg)
        for t, v, s in attr_stores(ff.node):
            if not isinstance(t.value, ast.Name):
                continue
            nodes = gg.nodes_of(t)
            if not nodes:
                continue
            d = rr.unique(t.value.id, nodes[0])
            if d is None or d.kind != "assign":
                continue
            if not produces_identifier(d.value):
                continue
            nst += 1
            chk.require(t.attr in defined, chk.fkey(ff, norm_stmt(s)),
                        f"attribute `{t.attr}` stored on an Identifier object is not an attribute of class Identifier "
                        f"(defined: {sorted(a for a in defined if not a.startswith('__'))}): the store is dead and the flag it was "
                        "meant to set keeps its default", chk.loc(ff.module, s))
    chk.min_instances(nst, 2, "attribute stores on Identifier objects")
    for attr in sorted(flag_attrs):
        real = []
        for ff in tree.nontest_funcs():
            for t, v, s in attr_stores(ff.node):
                if t.attr == attr and v is not None and not isinstance(v, ast.Constant):
                    if isinstance(v, ast.Attribute) and v.attr == attr:
                        continue  # copy of the same flag
                    real.append((ff, s))
        chk.require(attr in defined and bool(real), f"core.objects:Identifier.{attr}:writer",
                    f"the cache guard of HashComputer.compute reads `.{attr}`, but no statement writes a computed value to "
                    f"that attribute (it is always its default): identifiers computed inside a cycle would be cached and reused",
                    chk.loc(f.module, f.node))

    # (iv) a function that unseals clears both cache fields
    nuns = 0
    for ff in tree.nontest_funcs():
        sts = [(t, v, s) for (t, v, s) in attr_stores(ff.node) if t.attr == "_sealed"
               and isinstance(v, ast.Constant) and v.value is False]
        if not sts:
            continue
        gg = CFG(ff.node)
        for t, v, s in sts:
            nuns += 1
            base = src(t.value)
            for field in CACHE_FIELDS:
                resets = [s2 for (t2, v2, s2) in attr_stores(ff.node) if t2.attr == field and src(t2.value) == base
                          and isinstance(v2, ast.Constant) and v2.value is None]
                ok = False
                for sn in gg.nodes_of(t):
                    for s2 in resets:
                        for rn in gg.nodes_of(s2.targets[0]) if isinstance(s2, ast.Assign) else []:
                            if gg.dominates(rn, sn) or gg.must_pass(sn, gg.exit, [rn]):
                                ok = True
                chk.require(ok, chk.fkey(ff, f"{base}._sealed = False / {field}"),
                            f"`{ff.qual}` marks a configuration as not sealed without resetting `{field}`: after "
                            "unseal / edit / re-seal the stale cached identifier would be returned", chk.loc(ff.module, s))
    chk.min_instances(nuns, 2, "stores of _sealed = False")


def class_attrs(cls) -> set:
    out = set()
    for n in ast.walk(cls.node):
        if isinstance(n, ast.Attribute) and isinstance(n.ctx, ast.Store) and isinstance(n.value, ast.Name) and n.value.id == "self":
            out.add(n.attr)
        elif isinstance(n, (ast.FunctionDef, ast.AsyncFunctionDef)):
            out.add(n.name)
    for s in cls.node.body:
        if isinstance(s, ast.Assign):
            for t in s.targets:
                if isinstance(t, ast.Name):
                    out.add(t.id)
        elif isinstance(s, ast.AnnAssign) and isinstance(s.target, ast.Name):
            out.add(s.target.id)
    return out


def produces_identifier(v) -> bool:
    if isinstance(v, ast.Call):
        d = dotted(v.func) or ""
        return d.split(".")[-1] in ("Identifier", "identifier")
    return False


def r4_wire(chk: Check):
    """R4: the extracted byte-stream model equals the pinned model of released identifiers"""
    model = full_model(chk.tree)
    helpers = model.pop("_unknown_helpers")
    if not SPEC.exists():
        raise Undecided(f"pinned wire model {SPEC} missing")
    pinned = json.loads(SPEC.read_text())

    def canon_terms(m):
        # HashComputer.identifier() is `Identifier(self._hasher.digest())` (plus a debug log): a caller that writes it out says the same thing
        t = json.dumps(m)
        t = re.sub(r"Identifier\((HashComputer\([^\"]*?\))\._hasher\.digest\(\)\)", r"\1.identifier()", t)
        return json.loads(t)

    model = canon_terms(model)
    diffs = diff_models(pinned, model)
    chk.count("wire_terms", count_terms(model))
    if helpers and diffs:
        raise Undecided(f"wire model differs and unmodelled helper calls are present ({helpers}); inlining bound exceeded")
    loc = chk.loc(chk.tree.mod("core.objects"), chk.tree.func("core.objects", "HashComputer.update").node)
    if not diffs:
        chk.ok("core.objects:HashComputer:wire model", loc, f"{count_terms(model)} terms equal to the pinned model")
    for where, a, b in diffs:
        chk.violation(f"core.objects:wire:{where}",
                      f"identifier byte stream differs from the pinned (released) encoding at {where}: pinned {a} -- now {b}. "
                      "Existing configurations would get identifiers different from earlier releases.", loc,
                      detail={"pinned": a, "now": b})


def count_terms(m) -> int:
    t = json.dumps(m)
    return t.count('["emit"') + t.count('["rec"') + t.count('["loop"') + t.count('["if"')


def diff_models(pinned, now):
    diffs = []
    pu, nu = pinned["update"], now["update"]
    for k, v in pu["tags"].items():
        if nu["tags"].get(k) != v:
            diffs.append((f"tag {k}", v, nu["tags"].get(k)))
    pk = [b[0] for b in pu["branches"]]
    nk = [b[0] for b in nu["branches"]]
    common = [k for k in nk if k in pk]
    if common != pk:
        diffs.append(("value-kind dispatch order", pk, nk))
    else:
        idx_last = max(nk.index(k) for k in pk if k != "else")
        for k in [k for k in nk if k not in pk]:
            if nk.index(k) < idx_last:
                diffs.append((f"new value kind {k} tested before released kinds", pk, nk))
    nb = dict((b[0], b[1]) for b in nu["branches"])
    for k, traces in pu["branches"]:
        if k in nb and nb[k] != traces:
            a, b = first_diff(traces, nb[k])
            diffs.append((f"update[{k}]", a, b))
    for part in ("identifiers", "compute"):
        if pinned[part] != now[part]:
            a, b = first_diff(pinned[part], now[part])
            diffs.append((part, a, b))
    return diffs


def first_diff(a, b):
    """Smallest differing sub-terms, as short JSON texts"""
    if isinstance(a, list) and isinstance(b, list) and len(a) == len(b):
        for x, y in zip(a, b):
            if x != y:
                return first_diff(x, y)
    return json.dumps(a, ensure_ascii=False)[:300], json.dumps(b, ensure_ascii=False)[:300]


def r5_jobpath(chk: Check):
    """R5: the job directory derives only from the type identifier and the configuration identifier"""
    tree = chk.tree
    job = tree.cls("scheduler.base", "Job")
    n = 0
    for name in ("relpath", "relmainpath", "identifier", "hashidentifier"):
        f = job.methods.get(name)
        if f is None:
            raise Undecided(f"Job.{name} not found")
        n += 1
        reads = sorted({dotted(x) for x in body_walk(f.node) if isinstance(x, ast.Attribute) and dotted(x) and dotted(x).startswith("self.")
                        and not isinstance(getattr(x, "_parent", None), ast.Attribute)})
        allowed = all(r.startswith(("self.config.__xpm__.identifier", "self.type.identifier", "self.config.__xpm__.full_identifier")) for r in reads)
        chk.require(allowed and reads, chk.fkey(f, "reads"),
                    f"Job.{name} reads {reads}: the job directory must depend only on the type identifier and the configuration identifier",
                    chk.loc(f.module, f.node), okmsg=f"reads {reads}")
    chk.min_instances(n, 4, "Job path properties")


def r6_defaults_not_aliased(chk: Check):
    """R6: a declared default is copied into each instance, never aliased (an in-place edit of a
    nested default would otherwise change the class-level default, the skip-if-default decision
    and the identifiers of other instances)"""
    tree = chk.tree
    n = 0
    f = tree.func("core.objects", "TypeConfig.__init__")
    for x in body_walk(f.node):
        if not (isinstance(x, ast.Attribute) and x.attr == "default" and isinstance(x.ctx, ast.Load)):
            continue
        par = getattr(x, "_parent", None)
        if isinstance(par, ast.Compare) or isinstance(par, (ast.If, ast.BoolOp, ast.UnaryOp)):
            continue  # a test on the default, not a use of its value
        n += 1
        wrapped = isinstance(par, ast.Call) and (dotted(par.func) or "").split(".")[-1] in ("clone", "deepcopy") and x in par.args
        st = enclosing_stmt(x)
        chk.require(wrapped, chk.fkey(f, "default used by " + norm_stmt(st)[:80]),
                    f"`{norm_stmt(st)}` puts the declared default object itself into the instance; it must be a copy "
                    "(clone): editing the nested default of one instance would silently edit the class default, "
                    "so the edited value still 'equals the default' and is left out of the identifier", chk.loc(f.module, x))
    chk.min_instances(n, 1, "uses of a declared default while building an instance")
    # ... a copy in depth: clone() rebuilds a configuration from clones of its values (and recurses through lists and dicts); a shallow copy
    # leaves the nested sub-configurations of a default shared by every instance -- sealed, with their generated paths, by the first task
    cl = tree.func("core.objects", "clone")
    gc = CFG(cl.node)
    kinds = {}
    for nd in gc.live:
        if nd.kind == "stmt" and isinstance(nd.ast, ast.Return) and nd.ast.value is not None:
            gs = [src(t.ast) for t, pol in gc.guards(nd) if t.kind == "test" and pol is True and src(t.ast).startswith("isinstance(")]
            for k in ("Config", "list", "dict"):
                if any(k in g_ for g_ in gs):
                    rdc = ReachingDefs(gc)
                    txt = rdc.canon(nd.ast.value, nd, depth=6)
                    kinds.setdefault(k, []).append("clone(" in txt)
    for k in ("Config", "list", "dict"):
        chk.require(bool(kinds.get(k)) and all(kinds[k]), chk.fkey(cl, f"deep copy of {k} values"),
                    f"clone() does not clone what a {k} value contains: the nested sub-configurations of a declared default are shared by all instances", chk.loc(cl.module, cl.node))


def r7_reload_tristate(chk: Check):
    from . import c12

    c12.r3_tristate(chk)


def r8_released_decision(chk: Check):
    """Which arguments enter the byte stream is part of the released format: any drift of the argument-loop decision from the documented
    rule -- in either direction -- changes identifiers computed by earlier releases (= C02.R2 and its C03 counterpart)"""
    from .c02 import r2_table

    r2_table(chk, direction="emitted")
    r2_table(chk, direction="skipped")
    from .c03 import init_tasks_attached_first

    init_tasks_attached_first(chk)
    # the pre-tasks that enter the full identifier are collected across task links (released behaviour, = C03.R14)
    from .c03 import r14_pretasks_cross_tasks

    r14_pretasks_cross_tasks(chk)
    # identifier before sealing = identifier after: the default test must not see generated values (= C02.R10)
    from .c02 import r10_default_by_signature

    r10_default_by_signature(chk)
    # equal pre-tasks count once, whether they are one object or two (content, not object identity)
    fi = chk.tree.func("core.objects", "ConfigInformation.identifiers")
    loops = [x for x in body_walk(fi.node) if isinstance(x, ast.For) and "sorted(" in src(x.iter)]
    gi = CFG(fi.node)
    rdi = ReachingDefs(gi)
    okset = False
    for n in gi.live:
        if n.kind == "for" and "sorted(" in rdi.canon(n.ast.iter, n):
            okset = okset or "sorted(set(" in rdi.canon(n.ast.iter, n).replace(" ", "") or "sorted({" in rdi.canon(n.ast.iter, n)
    chk.require(okset, chk.fkey(fi, "pre-task identifiers hashed as a set"), "the pre-task identifiers are hashed as a sorted list: the same graph built with one shared pre-task object or with two equal "
                "pre-task objects gets two different identifiers", chk.loc(fi.module, fi.node))


RULES = [
    ("R1", "no nondeterministic source (hash(), id(), environment, time, random, repr/str of objects) reaches the hasher", r1_no_nondeterminism),
    ("R2", "every loop feeding the hasher iterates in sorted order, or in an order that is part of the signature (list payload, init tasks)", r2_canonical_order),
    ("R3", "identifier cache: written only by identifiers() under _sealed; compute() returns it only if sealed, not None and loop-free; the loop flag is really written; unsealing resets the cache", r3_cache),
    ("R4", "the extracted byte-stream model of update/compute/identifiers equals the pinned model of released identifiers", r4_wire),
    ("R5", "Job.relpath / relmainpath / identifier read only the type identifier and the configuration identifier", r5_jobpath),
    ("R6", "declared defaults are cloned into instances, never aliased", r6_defaults_not_aliased),
    ("R7", "reloading keeps the three states of the meta flag (absent stays unset): the identifier recomputed in another process equals the original (= C12.R3)", r7_reload_tristate),
    ("R8", "the argument-loop decision (which arguments are hashed) equals the documented rule in both directions: a drift changes released identifiers (= C02.R2, C03.R10); init tasks attached before the identifier can be asked for", r8_released_decision),
]
