"""C02 -- identifier ignores what is documented as outside the signature."""

from __future__ import annotations

import ast
import itertools
import json
import re

from ..astq import body_walk, dotted, in_logging, src, walk_local, fn_calls, tail
from ..cfg import CFG
from ..dataflow import ReachingDefs, walk_table
from ..hashmodel import full_model
from ..loader import Undecided
from ..report import Check
from .c01 import hash_slice, is_sink_call, fn_hashers

ASSUMPTIONS = [
    "user __eq__ of default values is reflexive and deterministic",
    "'adding a defaulted parameter' is covered through the decision table (default-valued => not emitted) and "
    "the wire model (nothing about absent arguments or the argument count is hashed)",
]

DENY = {"_tags", "tags", "dependencies", "job", "launcher", "workspace", "run_mode", "_initinfo", "loaded",
        "watched_outputs", "help", "_help", "checker", "_taskoutput", "submittime", "starttime"}


def r1_frame(chk: Check):
    """R1: nothing outside the signature is read while computing an identifier"""
    fs = hash_slice(chk)
    n = 0
    for f in fs:
        for x in body_walk(f.node):
            if isinstance(x, ast.Attribute) and isinstance(x.ctx, ast.Load):
                n += 1
                if x.attr in DENY and not in_logging(x):
                    # method call on a module (e.g. logging) is not a read of config state
                    chk.violation(chk.fkey(f, f"reads .{x.attr}"),
                                  f"identifier computation reads `{src(x)}`: tags, dependencies, job, launcher, workspace, run mode "
                                  "and documentation are outside the signature and must not influence the identifier",
                                  chk.loc(f.module, x))
    chk.count("attribute_reads_in_slice", n)
    chk.ok("identifier slice read set", "", f"{len(fs)} functions, {n} attribute reads, none in the deny list")
    chk.min_instances(len(fs), 8, "functions in the identifier slice")


ATOMS = ["ignored", "generated", "constant", "required", "default_none", "val_none", "is_config", "meta_truthy",
         "meta_false", "eq_default"]


def consistent(s) -> bool:
    if s["val_none"] and (s["is_config"] or s["eq_default"] and False):
        return False
    if not s["is_config"] and (s["meta_truthy"] or s["meta_false"]):
        return False
    if s["meta_truthy"] and s["meta_false"]:
        return False
    if s["default_none"] and s["eq_default"]:
        return False
    if s["required"] and not s["default_none"]:
        return False
    if s["constant"] and s["default_none"]:
        return False
    if s["val_none"] and s["eq_default"]:
        return False  # default is not None here
    return True


def reference_emit(s) -> bool:
    return (
        (not s["generated"])
        and ((not s["ignored"]) or (s["is_config"] and s["meta_false"]))
        and (s["constant"] or not ((not s["required"] and s["default_none"] and s["val_none"])
                                   or ((not s["default_none"]) and s["eq_default"])))
        and not (s["is_config"] and s["meta_truthy"])
    )


def arg_loop(g: CFG, rd: ReachingDefs):
    for n in g.live:
        if n.kind == "for" and ".arguments" in rd.canon(n.ast.iter, n):
            return n
    raise Undecided("argument loop of HashComputer.update not found (no loop over `<type>.arguments`)")


def make_classifier(g, rd, loop):
    argtok = None
    for d in rd.gen[loop.id]:
        if d.kind == "for":
            argtok = rd._defid(d)
    if argtok is None:
        raise Undecided("argument loop has no simple loop variable")
    cfgtok = "«p:1»"
    val_pats = [
        f"getattr({cfgtok}, {argtok}.name, None)",
        f"{cfgtok}.__xpm__.values.get({argtok}.name, None)",
        f"{cfgtok}.__xpm__.values.get({argtok}.name)",
        f"{cfgtok}.__xpm__.values[{argtok}.name]",
        f"{cfgtok}.__xpm__.get({argtok}.name)",
    ]

    def norm(n):
        t = rd.acanon(n.ast, n)
        for p in val_pats:
            t = t.replace(p, "VAL")
        t = t.replace(argtok, "ARG").replace(cfgtok, "CFG")
        # remove_meta(v) is v for anything but a list / dict
        t = re.sub(r"remove_meta\(VAL\) (is None|is not None)", r"VAL \1", t)
        t = t.replace("isinstance(remove_meta(VAL), Config)", "isinstance(VAL, Config)")
        return t

    table = {
        "ARG.ignored": ("ignored", True),
        "ARG.generator": ("generated", True),
        "ARG.generator is not None": ("generated", True),
        "ARG.generator is None": ("generated", False),
        "ARG.constant": ("constant", True),
        "ARG.required": ("required", True),
        "ARG.default is None": ("default_none", True),
        "ARG.default is not None": ("default_none", False),
        "VAL is None": ("val_none", True),
        "VAL is not None": ("val_none", False),
        "isinstance(VAL, Config)": ("is_config", True),
        "VAL.__xpm__.meta": ("meta_truthy", True),
        "VAL.__xpm__.meta is True": ("meta_truthy", True),
        "VAL.__xpm__.meta is not False": ("meta_false", False),
        "VAL.__xpm__.meta is False": ("meta_false", True),
        "ARG.default == remove_meta(VAL)": ("eq_default", True),
        "remove_meta(VAL) == ARG.default": ("eq_default", True),
        "ARG.default != remove_meta(VAL)": ("eq_default", False),
        "self.same_signature(ARG.default, VAL)": ("eq_default", True),
        "self.same_signature(ARG.default, remove_meta(VAL))": ("eq_default", True),
        "is_ignored(VAL)": ("__is_ignored__", True),
    }

    def classify(n):
        t = norm(n)
        if t in table:
            return table[t]
        return None

    return classify, norm


def r2_table(chk: Check, direction: str = "emitted", only_atom: str = None):
    """R2: decision table of the argument loop against the documented rule.
    direction='emitted': report arguments hashed where the documented rule skips them (C02);
    direction='skipped': report arguments skipped where the rule hashes them (C03)"""
    tree = chk.tree
    f = tree.func("core.objects", "HashComputer.update")
    g = CFG(f.node)
    rd = ReachingDefs(g)
    loop = arg_loop(g, rd)
    classify, norm = make_classifier(g, rd, loop)
    start = [m for (m, l) in loop.succ if l == "loop"][0]
    hashers = fn_hashers(f.node)

    def events(n):
        out = []
        if n.kind == "stmt":
            for c in n.calls():
                if is_sink_call(c, hashers) and not in_logging(c):
                    out.append(norm_call(c, n))
        return out

    def norm_call(c, n):
        t = rd.acanon(c, n)
        return t

    def stop(n):
        if n is loop:
            return "next"
        if n is g.exit:
            return "exit"
        if n is g.raise_:
            return "raise"
        return None

    nsc = 0
    bad = 0
    loc = chk.loc(f.module, loop.ast)
    shapes = set()
    for bits in itertools.product([False, True], repeat=len(ATOMS)):
        s = dict(zip(ATOMS, bits))
        if not consistent(s):
            continue
        if only_atom is not None and not s[only_atom]:
            continue
        s2 = dict(s)
        s2["__is_ignored__"] = s["is_config"] and s["meta_truthy"]
        nsc += 1
        outs = walk_table(g, start, classify, s2, events, stop)
        ref = reference_emit(s)
        for o in outs:
            emitted = len(o.events) > 0
            if o.end != "next":
                emitted = None
            if emitted is not ref:
                if emitted is not None and ((direction == "emitted") != bool(emitted)):
                    continue  # the other direction is reported by the sibling property
                bad += 1
                sc = ", ".join(f"{k}={'T' if v else 'F'}" for k, v in s.items())
                unk = [u for u in o.unknown]
                conds = "; ".join(f"L{ln} `{txt}`={val}{'' if known else ' (unmodelled)'}" for ln, txt, val, known in o.trace)
                if unk:
                    key = chk.fkey(f, "argument loop depends on unmodelled condition " + unk[0][0][:80])
                    msg = (f"whether an argument enters the identifier depends on a condition outside the documented rule: `{unk[0][0]}`; "
                           f"with that condition {unk[0][1]} under [{sc}] the argument is {'hashed' if emitted else 'skipped'} but the documented "
                           f"rule says {'hashed' if ref else 'skipped'}. Path: {conds}")
                else:
                    key = chk.fkey(f, "argument loop decision: " + ("emits" if emitted else "skips") + " where the documented rule " + ("emits" if ref else "skips")
                                   + " [" + ",".join(k for k, v in s.items() if v) + "]")
                    msg = (f"argument loop of the hasher: under [{sc}] the argument is {'hashed' if emitted else ('not reaching the next iteration: ' + str(o.end)) if emitted is None else 'skipped'} "
                           f"but the documented signature rule says {'hashed' if ref else 'skipped'}. Path: {conds}")
                if bad <= 3:
                    chk.violation(key, msg, loc, detail={"scenario": s, "trace": o.trace})
            elif emitted:
                shapes.add(o.events)
    chk.count("c02_scenarios", nsc)
    # shape of the emitted triple: name, NAME tag, value
    for sh in shapes:
        ok = (len(sh) == 3 and sh[0].startswith("self.update(") and sh[0].endswith(".name)")
              and "NAME_ID" in sh[1] and sh[2].startswith("self.update("))
        chk.require(ok, chk.fkey(f, "emitted triple"), f"an emitted argument is not hashed as name / NAME tag / value: {list(sh)}", loc)
    if not bad:
        chk.ok(chk.fkey(f, "argument loop decision table"), loc, f"{nsc} consistent scenarios over {len(ATOMS)} atoms agree with the documented rule")
    chk.min_instances(nsc, 60 if only_atom is None else 10, "consistent scenarios")


def r3_containers(chk: Check):
    """R3: meta sub-configurations are filtered out of lists and dicts, consistently"""
    tree = chk.tree
    model = full_model(tree)
    br = dict((k, v) for k, v in model["update"]["branches"])
    f = tree.func("core.objects", "HashComputer.update")
    loc = chk.loc(f.module, f.node)
    for kind in ("list", "dict"):
        if kind not in br:
            raise Undecided(f"no `{kind}` branch in HashComputer.update")
        fors = [it for t in br[kind] for it in t if it[0] == "loop"]
        chk.require(len(fors) == 1 and "if not is_ignored(" in fors[0][1], chk.fkey(f, f"{kind} branch filter"),
                    f"the {kind} branch of the hasher iterates `{fors[0][1] if fors else '?'}`: elements flagged as meta must be filtered out with is_ignored "
                    "(a meta sub-configuration inside a container must not change the identifier)", loc)
        if kind == "list":
            packs = [it for t in br[kind] for it in t if it[0] == "emit" and it[1][0] == "pack"]
            chk.require(len(packs) == 1 and fors and packs[0][1][2] == f"len({fors[0][1]})", chk.fkey(f, "list length prefix"),
                        f"the list length prefix `{packs[0][1][2] if packs else '?'}` is not the length of exactly the iterated (filtered) sequence", loc)
    # helper predicates
    isig = tree.func("core.objects", "is_ignored")
    from ..dataflow import truth_of
    gi = CFG(isig.node)
    pv = isig.node.args.args[0].arg
    texts = {f"{pv} is None": ("none", True), f"isinstance({pv}, Config)": ("config", True), f"{pv}.__xpm__.meta": ("meta", True), f"{pv}.__xpm__.meta is True": ("meta", True)}
    cls_text = lambda t: texts.get(t)
    okp = True
    for none, config, meta in itertools.product([False, True], repeat=3):
        if none and (config or meta):
            continue
        if not config and meta:
            continue
        sc = {"none": none, "config": config, "meta": meta}
        outs = walk_table(gi, gi.entry, lambda n: cls_text(src(n.ast)), sc, lambda n: [],
                          lambda n: ("ret" if (n.kind == "stmt" and isinstance(n.ast, ast.Return)) else ("fall" if n is gi.exit else None)))
        # the walker stops *at* return nodes: evaluate their value
        results = set()
        for o in outs:
            if o.unknown:
                results.add(None)
        for n in gi.live:
            pass
        # re-walk collecting the return nodes reached
        reached = _reached_returns(gi, cls_text, sc)
        for rn in reached:
            results.add(truth_of(rn.ast.value, cls_text, sc) if rn.ast.value is not None else False)
        okp = okp and results == {config and meta}
    chk.require(okp, "core.objects:is_ignored:predicate", "is_ignored must be true exactly for a configuration whose meta flag is truthy", chk.loc(isig.module, isig.node))
    rm = tree.func("core.objects", "remove_meta")
    comps = [x for x in body_walk(rm.node) if isinstance(x, (ast.ListComp, ast.DictComp))]
    okc = len(comps) == 2 and all(len(c.generators) == 1 and len(c.generators[0].ifs) == 1 and src(c.generators[0].ifs[0]).startswith("not is_ignored(") for c in comps)
    if okc:
        for c in comps:
            tgt = c.generators[0].target
            arg = src(c.generators[0].ifs[0])[len("not is_ignored("):-1]
            if isinstance(c, ast.ListComp):
                okc = okc and src(tgt) == arg and src(c.elt) == arg
            else:
                okc = okc and isinstance(tgt, ast.Tuple) and len(tgt.elts) == 2 and src(tgt.elts[1]) == arg and src(c.value) == arg and src(c.key) == src(tgt.elts[0])
    chk.require(okc, "core.objects:remove_meta:filters", "remove_meta does not filter list elements and dict values with `not is_ignored(.)`", chk.loc(rm.module, rm.node))


def _reached_returns(g, cls_text, sc):
    """Return statements reachable under a scenario (tests decided by the scenario follow one branch)"""
    out, seen, stack = [], set(), [g.entry]
    while stack:
        n = stack.pop()
        if n.id in seen:
            continue
        seen.add(n.id)
        if n.kind == "stmt" and isinstance(n.ast, ast.Return):
            out.append(n)
            continue
        succ = [(m, l) for m, l in n.succ if l != "exc"]
        if n.kind == "test":
            c = cls_text(src(n.ast))
            if c is not None and sc.get(c[0]) is not None:
                v = sc[c[0]] if c[1] else not sc[c[0]]
                succ = [(m, l) for m, l in succ if l == v]
        for m, l in succ:
            stack.append(m)
    return out


def _prop_return_const(tree, modname, clsname, prop):
    c = tree.cls(modname, clsname)
    f = c.methods.get(prop)
    if f is None:
        return None
    rets = [x for x in body_walk(f.node) if isinstance(x, ast.Return)]
    if len(rets) == 1 and isinstance(rets[0].value, ast.Constant):
        return rets[0].value.value
    return "?"


def r4_declarations(chk: Check):
    """R4: declaration tables (which parameters are ignored / generated by default)"""
    tree = chk.tree
    m = tree.mod("core.types")
    chk.require(_prop_return_const(tree, "core.types", "PathType", "ignore") is True, "core.types:PathType.ignore",
                "PathType.ignore must be True (Path parameters are outside the signature)", chk.loc(m, tree.cls("core.types", "PathType").node))
    chk.require(_prop_return_const(tree, "core.types", "Type", "ignore") is False, "core.types:Type.ignore",
                "base Type.ignore must be False", chk.loc(m, tree.cls("core.types", "Type").node))
    for c in tree.subclasses(tree.cls("core.types", "Type"), strict=True):
        if c.qual != "PathType" and "ignore" in c.methods:
            chk.violation(f"core.types:{c.qual}.ignore", f"{c.qual} overrides `ignore`: only Path parameters are ignored by type", chk.loc(c.module, c.node))
    # Argument.ignored := type.ignore if ignored is None else ignored
    init = tree.func("core.arguments", "Argument.__init__")
    from ..dataflow import path_traces

    gi = CFG(init.node)
    rdi = ReachingDefs(gi)
    stores = [n for n in gi.live if n.kind == "stmt" and isinstance(n.ast, ast.Assign) and any(src(t) == "self.ignored" for t in n.ast.targets)]
    got = set()
    for n in stores:
        gs = sorted((rdi.canon(t.ast, t), pol) for t, pol in gi.guards(n) if t.kind == "test" and "ignored" in src(t.ast))
        got.add((tuple(gs), rdi.canon(n.ast.value, n)))
    want = {((("ignored is None", True),), "self.type.ignore"), ((("ignored is None", False),), "ignored")}
    want2 = {((("ignored is None", True),), "type.ignore"), ((("ignored is None", False),), "ignored")}
    ok = bool(stores) and got in (want, want2) and gi.on_every_path(stores)
    chk.require(ok, "core.arguments:Argument.__init__:ignored", f"Argument.ignored is set by {sorted(got)}, expected the declared flag or else the type's default", chk.loc(init.module, init.node))
    # generator from field(default_factory)
    gen = [s for s in body_walk(init.node) if isinstance(s, ast.Assign) and src(s.targets[0]) == "self.generator"]
    chk.require(any("default_factory" in src(s.value) for s in gen) and any(src(s.value) == "generator" for s in gen),
                "core.arguments:Argument.__init__:generator", "Argument.generator must come from the `generator` option or field(default_factory=...)", chk.loc(init.module, init.node))
    # hints
    am = tree.mod("core.arguments")
    consts = {}
    for s in am.tree.body:
        if isinstance(s, ast.Assign) and len(s.targets) == 1 and isinstance(s.targets[0], ast.Name):
            consts[s.targets[0].id] = s.value
    def kw(name):
        v = consts.get(name)
        if isinstance(v, ast.Call) and dotted(v.func) == "_Param":
            return {k.arg: src(k.value) for k in v.keywords}
        return None
    chk.require(kw("optionHint") is not None and kw("optionHint").get("ignored") == "True", "core.arguments:optionHint",
                "Option/Meta parameters must be declared with ignored=True", chk.loc(am, consts.get("optionHint", am.tree)))
    chk.require(kw("dataHint") is not None and kw("dataHint").get("ignored") == "True", "core.arguments:dataHint",
                "DataPath parameters must be declared with ignored=True", chk.loc(am, consts.get("dataHint", am.tree)))
    chk.require(kw("paramHint") is not None and "ignored" not in kw("paramHint"), "core.arguments:paramHint",
                "Param must not be ignored", chk.loc(am, consts.get("paramHint", am.tree)))
    for nm, hint in (("Option", "optionHint"), ("Meta", "optionHint"), ("DataPath", "dataHint"), ("Param", "paramHint")):
        v = consts.get(nm)
        ok = isinstance(v, ast.Subscript) and src(v).endswith(f", {hint}]")
        chk.require(ok, f"core.arguments:{nm}", f"`{nm}` must be annotated with {hint}", chk.loc(am, v if v is not None else am.tree))
    pg = tree.func("generators", "pathgenerator.annotate")
    ok = any(isinstance(s, ast.Assign) and src(s.targets[0]) == "options.kwargs['generator']" for s in body_walk(pg.node))
    chk.require(ok, "generators:pathgenerator.annotate", "pathgenerator must register a generator (generated paths are outside the signature)", chk.loc(pg.module, pg.node))


def r5_full_identifier(chk: Check):
    """R5: the full identifier adds only pre-task and init-task raw identifiers to the raw one"""
    from ..dataflow import expansions

    tree = chk.tree
    f = tree.func("core.objects", "ConfigInformation.identifiers")
    g = CFG(f.node)
    rd = ReachingDefs(g)
    hashers = fn_hashers(f.node)
    bad, n = [], 0
    for node in g.live:
        for c in node.calls():
            d = dotted(c.func) or ""
            if not (d.split(".")[-1] == "update" and ".".join(d.split(".")[:-1]) in hashers):
                continue
            n += 1
            arg = c.args[0]
            if dotted(arg) and dotted(arg).endswith(".INIT_TASKS"):
                continue
            texts = expansions(rd, arg, node)
            ok = all(("raw_identifier" in t and t.endswith(".all")) or ("HashComputer.compute(self.pyobject)" in t and t.endswith(".all"))
                     or (t.startswith("ELEM(") and "raw_identifier.all" in t) for t in texts)
            if not ok:
                bad.append(sorted(texts)[:3])
    chk.require(not bad and n >= 3, chk.fkey(f, "full identifier inputs"),
                f"the full identifier hashes something other than raw / pre-task / init-task identifiers: {bad}", chk.loc(f.module, f.node),
                okmsg=f"{n} hasher inputs: raw identifier, sorted pre-task identifiers, INIT_TASKS marker, init-task identifiers")


def r6_reload_default_filled(chk: Check):
    """Adding a defaulted parameter to a class must not change the identifier of a configuration reloaded from disk:
    the loader runs the ordinary constructor (which fills declared defaults) before restoring the stored fields"""
    tree = chk.tree
    lo = tree.func("core.objects", "ConfigInformation.load_objects")
    g = CFG(lo.node)
    rd = ReachingDefs(g)
    inits = [(n, c) for n, c in g.call_nodes(lambda c: tail(c) == "__init__" and not c.args and not c.keywords)]
    inits = [(n, c) for n, c in inits if rd.canon(c.func.value, n) == "objects[definition['id']]"]
    floops = [n for n in g.live if n.kind == "for" and "fields" in src(n.ast.iter)]
    ok = bool(inits) and len(floops) == 1
    if ok:
        # on every path that reaches the field loop in configuration mode the constructor ran
        cfg_inits = [n for n, c in inits if any(src(t.ast) == "as_instance" and pol is False for t, pol in g.guards(n) if t.kind == "test")] or [n for n, c in inits]
        inst_inits = [n for n, c in inits]
        ok = g.must_pass(g.entry, floops[0], inst_inits)
    chk.require(ok, chk.fkey(lo, "constructor before fields"),
                "load_objects restores the stored fields without first running the configuration's constructor: parameters added to the class since the file was written "
                "(with a default) stay unset instead of holding their default, so their name enters the hash and the reloaded identifier changes", chk.loc(lo.module, lo.node))
    ti = tree.func("core.objects", "TypeConfig.__init__")
    gi = CFG(ti.node)
    sets = [n for n, c in gi.call_nodes(lambda c: tail(c) == "set" and any("default" in src(a) for a in c.args))]
    chk.require(bool(sets), chk.fkey(ti, "defaults filled"), "TypeConfig.__init__ must store the declared default of every parameter that is not given", chk.loc(ti.module, ti.node))


def r7_inherited_argument_precedence(chk: Check):
    """which declaration of an inherited parameter counts (its default, its ignored / meta kind) follows Python's own resolution: first base first"""
    tree = chk.tree
    f = tree.func("core.types", "ObjectType.__initialize__")
    g = CFG(f.node)
    loc = chk.loc(f.module, f.node)
    stores = [n for n in g.live if n.kind == "stmt" and isinstance(n.ast, ast.Assign) and any(src(t) == "self._arguments" for t in n.ast.targets)]
    chk.require(len(stores) == 1, chk.fkey(f, "argument table"), "the argument table of a type must be built once", loc)
    if len(stores) != 1:
        return
    v = stores[0].ast.value
    ok = False
    if isinstance(v, ast.Call) and (dotted(v.func) or "").split(".")[-1] == "ChainMap" and len(v.args) == 2 and isinstance(v.args[0], ast.Dict) and not v.args[0].keys and isinstance(v.args[1], ast.Starred):
        gen = v.args[1].value
        if isinstance(gen, (ast.GeneratorExp, ast.ListComp)) and len(gen.generators) == 1 and src(gen.generators[0].iter) == "self.parents()" and not gen.generators[0].ifs \
                and src(gen.elt) == f"{src(gen.generators[0].target)}.arguments":
            ok = True  # first parent shadows the later ones; the own (empty) map shadows all
    else:
        # a plain dictionary filled by successive updates: the last update wins, so the parents must be taken last-to-first
        ups = [n for n in g.live if n.kind == "for" and any(isinstance(c, ast.Call) and src(c.func) == "self._arguments.update" for s_ in n.ast.body for c in walk_local(s_))]
        ok = bool(ups) and all(src(n.ast.iter).startswith("reversed(") and "self.parents()" in src(n.ast.iter) for n in ups)
    chk.require(ok, chk.fkey(f, "first base wins"), f"inherited parameters are gathered by `{src(stores[0].ast)[:120]}`: when two bases declare the same parameter the first base must win (as for the Python attribute), "
                "otherwise the default / ignored flag used by the identifier is not the one of the value the user sees", loc)


def r8_falsy_defaults_are_defaults(chk: Check):
    """`field(default=0)`, `False`, `""`, `[]` are declared defaults like any other: Argument.__init__ must decide on `is None`, never on the truth
    value of the default (a dropped default turns `X()` into an unset optional while `X(p=0)` is hashed)"""
    tree = chk.tree
    f = tree.func("core.arguments", "Argument.__init__")
    g = CFG(f.node)
    loc = chk.loc(f.module, f.node)
    stores = [n for n in g.live if n.kind == "stmt" and isinstance(n.ast, ast.Assign) and src(n.ast.targets[0]) == "self.default" and not (isinstance(n.ast.value, ast.Constant) and n.ast.value.value is None)]
    chk.min_instances(len(stores), 2, "stores of a declared default in Argument.__init__")
    for n in g.live:
        if n.kind != "test":
            continue
        t = src(n.ast)
        mentions = any(isinstance(x, ast.Name) and x.id == "default" for x in ast.walk(n.ast)) or "default.default" in t
        if not mentions:
            continue
        shape_ok = (isinstance(n.ast, ast.Compare) and len(n.ast.ops) == 1 and isinstance(n.ast.ops[0], (ast.Is, ast.IsNot)) and isinstance(n.ast.comparators[0], ast.Constant)
                    and n.ast.comparators[0].value is None) or (isinstance(n.ast, ast.Call) and dotted(n.ast.func) == "isinstance")
        chk.require(shape_ok, chk.fkey(f, f"default tested for presence only: {t[:40]}"),
                    f"Argument.__init__ decides on `{t}`: a falsy default (0, False, '', []) would be dropped and the parameter become an unset optional", chk.loc(f.module, n.ast))
    # every path on which a field carries a default stores it
    for n in stores:
        gs = [(src(t.ast), pol) for t, pol in g.guards(n) if t.kind == "test"]
        bad = [x for x in gs if not (x[0].endswith(" is None") or x[0].startswith("isinstance("))]
        chk.require(not bad, chk.fkey(f, "default stored whenever present"), f"`{src(n.ast)}` is executed only under {bad}", loc)


def r10_default_by_signature(chk: Check):
    """`equal to its default` is decided on what the identifier sees: when `==` says different, the hash streams of the default and of the value
    are compared (meta / generated parameters of a sub-configuration, meta elements at any depth, NaN, a deprecated class do not make a
    defaulted parameter enter the identifier -- nor make the identifier change when the task is sealed and its paths are generated)"""
    tree = chk.tree
    f = tree.func("core.objects", "HashComputer.update")
    g = CFG(f.node)
    rd = ReachingDefs(g)
    loop = arg_loop(g, rd)
    classify, norm = make_classifier(g, rd, loop)
    eqs = [n for n in g.live if n.kind == "test" and norm(n) in ("ARG.default == remove_meta(VAL)", "remove_meta(VAL) == ARG.default")]
    sigs = [n for n in g.live if n.kind == "test" and norm(n).startswith("self.same_signature(ARG.default, ")]
    loc = chk.loc(f.module, loop.ast)
    chk.require(bool(sigs), chk.fkey(f, "default test compares signatures"),
                "the default test of the hasher compares the value with its default by `==` only: a defaulted sub-configuration whose Meta / generated parameters differ "
                "from the default's (e.g. a path generated at submission) enters the identifier -- the identifier changes when the task is sealed", loc)
    for e in eqs:
        fb = [b for b, l in e.succ if l is False]
        ok = bool(sigs) and all(g.on_every_path(sigs + [loop], start=b, end=g.exit) or any(b.id == s_.id or s_.id in g.reachable(b) for s_ in sigs) for b in fb)
        chk.require(ok, chk.fkey(f, "signature comparison follows =="), "when `==` fails the signature comparison must decide", loc)
    ss = tree.funcs.get("core.objects:HashComputer.same_signature")
    if ss is not None:
        ups = [c for c in fn_calls(ss.node) if tail(c) == "update"]
        dig = [c for c in fn_calls(ss.node) if tail(c) == "digest"]
        chk.require(len(ups) >= 1 and len(dig) >= 1 and any(isinstance(x, ast.Compare) and isinstance(x.ops[0], ast.Eq) for x in ast.walk(ss.node)), chk.fkey(ss, "compares hash streams"),
                    "same_signature must hash both values with the identifier's own encoder and compare the digests", chk.loc(ss.module, ss.node))
        # it gives up (False) only for kinds that have nothing outside their signature: configurations, lists and dicts are always compared
        gss = CFG(ss.node)
        for nd in gss.live:
            if nd.kind == "stmt" and isinstance(nd.ast, ast.Return) and isinstance(nd.ast.value, ast.Constant) and nd.ast.value.value is False:
                gs = [(t.ast, pol) for t, pol in gss.guards(nd) if t.kind == "test"]
                okg = len(gs) == 1 and gs[0][1] is False and isinstance(gs[0][0], ast.Call) and dotted(gs[0][0].func) == "isinstance" \
                    and all(k in src(gs[0][0].args[1]) for k in ("Config", "list", "dict"))
                chk.require(okg, chk.fkey(ss, "containers and configurations always compared"),
                            f"same_signature answers False under {[(src(a), p_) for a, p_ in gs]}: a defaulted dict / list of configurations with generated paths enters the identifier once sealed", chk.loc(ss.module, nd.ast))


def r9_tagged_value_is_the_value(chk: Check):
    """A tag is an annotation of a value: what is stored (and hashed) for `tag(v)` is what is stored for `v` -- the validated, coerced value (= C15.R2)"""
    from .c15 import r2_set_table

    r2_set_table(chk)


RULES = [
    ("R1", "frame condition: no function computing identifiers reads tags, dependencies, job, launcher, workspace, run mode or documentation", r1_frame),
    ("R2", "argument-loop decision table equals the documented rule for all consistent assignments of its atoms; the decision depends on no other condition", r2_table),
    ("R3", "list and dict branches hash only members that are not meta-flagged; length prefix = length of the filtered sequence; is_ignored / remove_meta agree", r3_containers),
    ("R4", "declaration tables: Path ignored by type, Option/Meta/DataPath ignored, Param not, generators registered", r4_declarations),
    ("R7", "inherited parameters: the declaration of the first base wins (ChainMap order = MRO), so the default / ignored flags used by the identifier are those of the visible attribute", r7_inherited_argument_precedence),
    ("R6", "configurations reloaded from disk are default-filled by the ordinary constructor before the stored fields are restored (a defaulted parameter added later leaves old identifiers unchanged)", r6_reload_default_filled),
    ("R8", "a declared default is kept whatever its truth value: Argument.__init__ tests defaults for presence (`is None`) only", r8_falsy_defaults_are_defaults),
    ("R10", "`equal to its default` is decided on signatures when == says different: meta / generated parameters of a defaulted sub-configuration, nested meta elements, NaN, deprecated classes", r10_default_by_signature),
    ("R9", "a tagged value is stored like the plain value: the stored value is the validated one on every path of set() (= C15.R2)", r9_tagged_value_is_the_value),
    ("R5", "the full identifier adds only pre-task and init-task raw identifiers", r5_full_identifier),
]
