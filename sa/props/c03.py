"""C03 -- different signatures never share an identifier (framing discipline of the byte stream)."""

from __future__ import annotations

import ast
import json
import re

from ..astq import body_walk, dotted, src, fn_calls
from ..hashmodel import full_model
from ..cfg import CFG
from ..loader import Undecided
from ..report import Check

ASSUMPTIONS = [
    "SHA-256 digests are treated as opaque fixed-length atoms (collision resistance trusted)",
    "domain of the property: text without control characters, dictionaries nested at most two levels; the two "
    "residual framing conflicts (unterminated text, unterminated dict) are reported as DOMAIN-EXCLUSION notes",
    "injectivity for dictionaries nested exactly two levels with union-typed values is not proved (see DESIGN C03)",
]

INT_FORMATS_OK = {"!q", ">q", "<q", "!Q", ">Q", "<Q", "=q", "=Q"}
FLOAT_FORMATS_OK = {"!d", ">d", "<d", "=d"}


def _model(chk):
    m = full_model(chk.tree)
    if m["_unknown_helpers"]:
        raise Undecided(f"unmodelled helper calls in the hasher: {m['_unknown_helpers']}")
    br = dict((k, v) for k, v in m["update"]["branches"])
    f = chk.tree.func("core.objects", "HashComputer.update")
    return m, br, f, chk.loc(f.module, f.node)


def _noif(trace):
    return [it for it in trace if it[0] != "if"]


def _is_tag(it, name=None):
    return it[0] == "emit" and it[1][0] == "tag" and (name is None or it[1][1] == name)


def _single(br, kind):
    ts = br.get(kind)
    if ts is None:
        raise Undecided(f"value kind `{kind}` not found in the dispatch chain")
    return ts


def r1_tags(chk: Check):
    m, br, f, loc = _model(chk)
    tags = m["update"]["tags"]
    vals = {}
    for k, v in tags.items():
        b = bytes.fromhex(v)
        chk.require(len(b) == 1 and b[0] < 0x20, f"core.objects:HashComputer.{k}", f"tag {k} = {v}: tags must be single bytes below 0x20 (outside text)", loc)
        if v in vals:
            chk.violation(f"core.objects:HashComputer.{k}", f"tags {k} and {vals[v]} share the byte {v}: values of two kinds can produce the same stream", loc)
        vals[v] = k
    expect = {"None": "NONE_ID", "float": "FLOAT_ID", "int": "INT_ID", "str": "STR_ID", "list": "LIST_ID", "Enum": "ENUM_ID",
              "dict": "DICT_ID", "Config": "OBJECT_ID"}
    seen = {}
    for kind, tag in expect.items():
        ts = _single(br, kind)
        firsts = {(_noif(t)[0][1][1] if _noif(t) and _is_tag(_noif(t)[0]) else None) for t in ts}
        chk.require(firsts == {tag}, chk.fkey(f, f"{kind} tag"), f"values of kind {kind} start with {sorted(map(str, firsts))}, expected the tag {tag} on every path", loc)
        for ft in firsts:
            if ft in seen and seen[ft] != kind:
                chk.violation(chk.fkey(f, f"{kind} tag"), f"kinds {kind} and {seen[ft]} start with the same tag {ft}", loc)
            seen[ft] = kind
    chk.require("NAME_ID" not in seen, chk.fkey(f, "NAME_ID"), "NAME_ID is used as a value tag", loc)
    # an unknown kind raises
    els = br.get("else", [])
    chk.require(bool(els) and all(t and t[-1][0] == "end" and t[-1][1].startswith("raise") for t in els), chk.fkey(f, "unknown kinds raise"), "a value of an unknown kind must raise, not be hashed as nothing", loc)


def r2_scalars(chk: Check):
    m, br, f, loc = _model(chk)

    def payload(kind):
        ts = _single(br, kind)
        if len(ts) != 1:
            return None
        t = _noif(ts[0])
        return t[1][1] if len(t) == 2 and t[1][0] == "emit" else None

    s = payload("int")
    chk.require(s is not None and s[0] == "pack" and s[1] in INT_FORMATS_OK and s[2] == "$1", chk.fkey(f, "int payload"),
                f"int payload is {s}: must be a lossless 64-bit integer pack of the value (e.g. packing as a double makes 2**53 and 2**53+1 collide)", loc)
    s = payload("float")
    chk.require(s is not None and s[0] == "pack" and s[1] in FLOAT_FORMATS_OK and s[2] == "$1", chk.fkey(f, "float payload"),
                f"float payload is {s}: must be the 8-byte double of the value", loc)
    s = payload("str")
    chk.require(s is not None and s[0] == "text" and s[1] == "utf-8" and s[2] == "$1", chk.fkey(f, "str payload"),
                f"str payload is {s}: must be the utf-8 bytes of the whole text", loc)
    ts = _single(br, "None")
    chk.require(len(ts) == 1 and len(_noif(ts[0])) == 1, chk.fkey(f, "None payload"), "None must be the bare NONE tag", loc)


def r3_list(chk: Check):
    m, br, f, loc = _model(chk)
    ts = _single(br, "list")
    chk.require(len(ts) == 1, chk.fkey(f, "list framing"), f"a list is hashed along {len(ts)} different paths", loc)
    t = _noif(ts[0])
    fors = [x for x in t if x[0] == "loop"]
    packs = [x for x in t if x[0] == "emit" and x[1][0] == "pack"]
    sorts = [x for x in t if x[0] == "sort"]
    ok = len(fors) == 1 and len(packs) == 1 and t.index(packs[0]) < t.index(fors[0])
    chk.require(ok, chk.fkey(f, "list framing"), "list must be hashed as LIST tag, length prefix, then the elements", loc)
    if ok:
        it = fors[0][1]
        chk.require(packs[0][1][2] == f"len({it})", chk.fkey(f, "list length = iterated sequence"),
                    f"list length prefix `{packs[0][1][2]}` is not the length of the iterated sequence `{it}`: [[x],[]] and [[x,[]]] style collisions", loc)
        chk.require(not sorts and not it.startswith(("sorted(", "set(", "reversed(")), chk.fkey(f, "list order"),
                    "list elements must be hashed in the given order ([a,b] and [b,a] are different signatures)", loc)
        body = fors[0][2]
        chk.require(len(body) == 1 and len(body[0]) == 1 and body[0][0][0] == "rec", chk.fkey(f, "list elements"), f"list elements are not each hashed recursively: {body}", loc)


def r4_enum(chk: Check):
    m, br, f, loc = _model(chk)
    ts = _single(br, "Enum")
    t = _noif(ts[0]) if len(ts) == 1 else []
    s = t[1][1] if len(t) == 2 and t[1][0] == "emit" else None
    ok = s is not None and s[0] == "text" and all(k in s[2] for k in ("__module__", "__qualname__", ".name"))
    chk.require(ok, chk.fkey(f, "enum payload"), f"enum payload is {s}: must contain the class module, qualified name and member name "
                "(two enums with a common member name would collide)", loc)


def _root_and_nested(br):
    ts = _single(br, "Config")
    root = [t for t in ts if any(x[0] == "emit" and x[1][0] == "text" and x[1][2].endswith(".identifier.name") for x in t)]
    nested = [t for t in ts if t not in root]
    return root, nested


def r5_nested(chk: Check):
    m, br, f, loc = _model(chk)
    root, nested = _root_and_nested(br)
    ok = len(nested) == 2
    cyc = [t for t in nested if any(_is_tag(x, "CYCLE_REFERENCE") for x in t)]
    dig = [t for t in nested if t not in cyc]
    if ok and len(cyc) == 1 and len(dig) == 1:
        c = _noif(cyc[0])
        d = _noif(dig[0])
        ok = (len(c) == 3 and _is_tag(c[0], "OBJECT_ID") and _is_tag(c[1], "CYCLE_REFERENCE") and c[2][0] == "emit" and c[2][1][0] == "pack" and c[2][1][1] in INT_FORMATS_OK
              and len(d) == 2 and _is_tag(d[0], "OBJECT_ID") and d[1][0] == "emit" and d[1][1][0] == "bytes" and "compute(" in d[1][1][1] and d[1][1][1].endswith(".all"))
        # the two are selected by the loop detection
        ok = ok and any(x[0] == "if" and "detect_loop" in x[1] and x[2] is True for x in cyc[0]) and any(x[0] == "if" and "detect_loop" in x[1] and x[2] is False for x in dig[0])
    else:
        ok = False
    chk.require(ok, chk.fkey(f, "nested configuration"),
                f"a nested configuration must be hashed as OBJECT tag then either CYCLE tag + packed index (when a loop is detected) or the child's digest, and nothing else ({len(nested)} paths found)", loc)


def r6_root(chk: Check):
    m, br, f, loc = _model(chk)
    root, nested = _root_and_nested(br)
    chk.require(len(root) >= 2, chk.fkey(f, "root paths"), f"{len(root)} paths hash a configuration itself (expected: with and without a producing task)", loc)
    name_tag = ["emit", ["tag", "NAME_ID", m["update"]["tags"]["NAME_ID"]]]
    with_task = 0
    for t in root:
        items = _noif(t)
        conds = {(x[1], x[2]) for x in t if x[0] == "if"}
        has_task = any(_is_tag(x, "TASK_ID") for x in items)
        idx_type = next(i for i, x in enumerate(items) if x[0] == "emit" and x[1][0] == "text" and x[1][2].endswith(".identifier.name"))
        chk.require(_is_tag(items[0], "OBJECT_ID"), chk.fkey(f, "root starts with OBJECT"), "the root must start with the OBJECT tag", loc)
        # the producing task is hashed exactly when it is set and is not the configuration itself
        task_set = any(c.endswith(".__xpm__.task is None") and pol is False for c, pol in conds)
        not_self = any(".__xpm__.task is " in c and not c.endswith("is None") and pol is False for c, pol in conds)
        expect_task = task_set and not_self
        chk.require(has_task == expect_task, chk.fkey(f, "task output"),
                    f"under {sorted(conds)} the producing task is {'hashed' if has_task else 'not hashed'}: it must be hashed (TASK tag + task) exactly when the configuration is the output of another task "
                    "(else the same output configuration produced by two different tasks collides)", loc)
        if has_task:
            with_task += 1
            i = next(i for i, x in enumerate(items) if _is_tag(x, "TASK_ID"))
            ok = items[i + 1][0] == "rec" and items[i + 1][1].endswith(".__xpm__.task") and i + 1 < idx_type
            chk.require(ok, chk.fkey(f, "task before type name"), "TASK tag must be followed by the producing task, before the type name", loc)
        lps = [x for x in items if x[0] == "loop"]
        ok = len(lps) == 1 and ".arguments" in lps[0][1] and items.index(lps[0]) > idx_type
        chk.require(ok, chk.fkey(f, "arguments after type name"), "the root must hash the type name and then the arguments", loc)
        if ok:
            chk.require(lps[0][1].startswith("sorted("), chk.fkey(f, "argument order"), "arguments must be hashed in sorted order", loc)
            bodies = lps[0][2]
            okb = len(bodies) == 1 and len(bodies[0]) == 3 and bodies[0][0][0] == "rec" and bodies[0][0][1].endswith(".name") and bodies[0][1] == name_tag \
                and bodies[0][2][0] == "rec" and ("getattr(" in bodies[0][2][1] or "values" in bodies[0][2][1])
            chk.require(okb, chk.fkey(f, "argument triple"),
                        f"each hashed argument must be name, NAME tag, value -- found {bodies} (without the name S(a=1) and S(b=1) collide; without the separator name/value boundaries blur)", loc)
    chk.require(with_task >= 1, chk.fkey(f, "TASK_ID"), "the producing task of a task output is never hashed", loc)


def r7_dict(chk: Check):
    m, br, f, loc = _model(chk)
    ts = _single(br, "dict")
    chk.require(len(ts) == 1, chk.fkey(f, "dict framing"), f"a dict is hashed along {len(ts)} different paths", loc)
    t = _noif(ts[0])
    fors = [x for x in t if x[0] == "loop"]
    ok = len(fors) == 1 and len(fors[0][2]) == 1 and len(fors[0][2][0]) == 2 and all(b[0] == "rec" for b in fors[0][2][0]) and fors[0][2][0][0][1] != fors[0][2][0][1][1]
    chk.require(ok, chk.fkey(f, "dict items"), f"dict items must be hashed as key then value for every kept item: {fors}", loc)
    sorts = [x for x in t if x[0] == "sort"]
    srt = (bool(sorts) and fors and sorts[0][1] == fors[0][1] and t.index(sorts[0]) < t.index(fors[0])) or (fors and fors[0][1].startswith("sorted("))
    chk.require(bool(srt), chk.fkey(f, "dict order"), "dict items must be hashed in sorted key order (the sorted sequence must be the iterated one)", loc)


def init_tasks_attached_first(chk: Check):
    """The init tasks are part of the full identifier: submit() must attach them before anything that may ask for the identifier
    (sealing runs the path generators, which ask the job for its directory; the scheduler asks for it at registration)"""
    tree = chk.tree
    f = tree.func("core.objects", "ConfigInformation.submit")
    g = CFG(f.node)
    stores = [n for n in g.live if n.kind == "stmt" and isinstance(n.ast, (ast.Assign, ast.AnnAssign)) and any(src(t) == "self.init_tasks" for t in (n.ast.targets if isinstance(n.ast, ast.Assign) else [n.ast.target]))]
    chk.min_instances(len(stores), 1, "store of self.init_tasks in ConfigInformation.submit")
    from ..astq import tail

    askers = [(n, c) for n, c in g.call_nodes(lambda c: tail(c) in ("seal", "validate_and_seal", "identifiers") or src(c).startswith("experiment.CURRENT.submit(") or src(c).startswith("experiment.CURRENT.prepare("))]
    chk.min_instances(len(askers), 2, "identifier-requesting calls in ConfigInformation.submit")
    for n, c in askers:
        chk.require(any(g.dominates(s, n) for s in stores), chk.fkey(f, f"init tasks attached before {tail(c)}"),
                    f"`{src(c)[:60]}` can ask for the identifier before `self.init_tasks` is set: the identifier (and every generated path) computed there lacks the init tasks", chk.loc(f.module, c))


def r8_full(chk: Check):
    init_tasks_attached_first(chk)
    fresh_hash_state(chk)
    m, br, f, loc = _model(chk)
    fi = chk.tree.func("core.objects", "ConfigInformation.identifiers")
    loc = chk.loc(fi.module, fi.node)
    ts = m["identifiers"]
    chk.require(len(ts) == 2, chk.fkey(fi, "paths"), f"the full identifier is built along {len(ts)} distinct paths (expected: with and without init tasks)", loc)
    init_tag = ["emit", ["tag", "INIT_TASKS", m["update"]["tags"]["INIT_TASKS"]]]
    n_init = 0
    for t in ts:
        items = _noif(t)
        conds = {(x[1], x[2]) for x in t if x[0] == "if"}
        ok = bool(items) and items[0][0] == "emit" and items[0][1][0] == "bytes" and items[0][1][1].endswith(".all")
        chk.require(ok, chk.fkey(fi, "raw first"), "the full identifier must start with the raw digest", loc)
        pre = [x for x in items if x[0] == "loop" and "collect_pre_tasks" in x[1]]
        chk.require(len(pre) == 1 and pre[0][1].startswith("sorted(") and items.index(pre[0]) == 1, chk.fkey(fi, "pre-tasks sorted"), "pre-task digests must be hashed right after the raw digest, in sorted order (they form a set)", loc)
        has_init = init_tag in items
        want_init = ("self.init_tasks", True) in conds
        chk.require(has_init == want_init, chk.fkey(fi, "INIT_TASKS marker"), f"under {sorted(conds)} the INIT_TASKS marker is {'present' if has_init else 'absent'}: it must be hashed exactly when there are init tasks", loc)
        if has_init:
            n_init += 1
            i = items.index(init_tag)
            lp = items[i + 1] if i + 1 < len(items) else None
            ok = lp is not None and lp[0] == "loop" and lp[1].endswith("init_tasks") and not lp[1].startswith("sorted(") and len(items) == i + 2 and pre and i > items.index(pre[0])
            chk.require(ok, chk.fkey(fi, "init tasks after the marker, in order"),
                        "the INIT_TASKS marker must come after the pre-task digests and be followed by the init-task digests in the given order, and nothing else "
                        "(a marker placed before the pre-task digests makes one pre-task and one init task indistinguishable)", loc)
    chk.require(n_init == 1, chk.fkey(fi, "init tasks hashed"), "init tasks are never hashed", loc)


def r9_framing(chk: Check):
    """A8: FIRST/FOLLOW conflicts of variable-length constructs on the extracted grammar"""
    m, br, f, loc = _model(chk)
    tags = m["update"]["tags"]
    value_first = {tags[k] for k in ("NONE_ID", "FLOAT_ID", "INT_ID", "STR_ID", "LIST_ID", "ENUM_ID", "DICT_ID", "OBJECT_ID")}
    conflicts = []
    allow = ["text is unterminated: delimited only by the following tag; text containing bytes < 0x20 is outside the property's domain"]
    # every variable-length construct of every path: text (ends at the next tag), loop (counted or not)
    def check_trace(kind, t):
        items = _noif(t)
        for i, it in enumerate(items):
            nxt = items[i + 1] if i + 1 < len(items) else None
            if it[0] == "emit" and it[1][0] == "text":
                # what follows a text inside the same value must start with a tag (< 0x20): not another text / raw bytes / pack
                if nxt is not None and nxt[0] == "emit" and nxt[1][0] in ("text", "bytes", "pack"):
                    conflicts.append((kind, f"text `{it[1][2]}` is directly followed by {nxt[1][0]} data: no tag delimits it"))
                if nxt is not None and nxt[0] == "loop":
                    for b in nxt[2]:
                        fb = _noif(b)
                        if fb and fb[0][0] == "emit" and fb[0][1][0] in ("text", "bytes", "pack"):
                            conflicts.append((kind, f"text `{it[1][2]}` is directly followed by untagged data"))
            if it[0] == "loop":
                counted = i > 0 and items[i - 1][0] == "emit" and items[i - 1][1][0] == "pack" and items[i - 1][1][2] == f"len({it[1]})"
                last = i == len(items) - 1
                starts = set()
                for b in it[2]:
                    fb = _noif(b)
                    if fb:
                        starts.add(fb[0][0] if fb[0][0] != "emit" else fb[0][1][0])
                if kind == "dict" and not counted:
                    allow.append("dict is unterminated (no length, no end marker): a dict followed by sibling values is delimited only by typing; nesting deeper than two levels is outside the property's domain")
                elif kind == "list" and not counted:
                    conflicts.append((kind, "list elements are not preceded by their count: list continuation meets FOLLOW(list)"))
                elif not counted and not last and "bytes" in starts:
                    # a run of fixed-size digests followed by something else: what follows must start with a tag
                    if nxt is not None and not (nxt[0] == "emit" and nxt[1][0] == "tag"):
                        conflicts.append((kind, f"an uncounted run of digests is followed by {nxt[0]} without a tag"))
    for kind, ts in m["update"]["branches"]:
        for t in ts:
            check_trace(kind, t)
    for t in m["identifiers"]:
        check_trace("full identifier", t)
    if tags["NAME_ID"] in value_first:
        conflicts.append(("argument", "NAME tag is also a value tag"))
    for c in sorted(set(conflicts)):
        chk.violation(chk.fkey(f, f"framing conflict {c[0]}: {c[1][:60]}"), f"framing conflict in the hashing of {c[0]}: {c[1]}", loc)
    for a in sorted(set(allow)):
        chk.note("DOMAIN-EXCLUSION " + a, loc)
    if not conflicts:
        chk.ok(chk.fkey(f, "framing"), loc, f"no framing conflict other than the {len(set(allow))} domain exclusions")


def r10_relevant_arguments_hashed(chk: Check):
    from .c02 import r2_table

    r2_table(chk, direction="skipped")


def r11_cache_not_stale(chk: Check):
    from .c01 import r3_cache

    r3_cache(chk)


def r12_default_equality(chk: Check):
    """The skip-if-equal-to-default rule relies on configuration equality: it must distinguish classes exactly and compare every argument"""
    from ..dataflow import path_traces

    tree = chk.tree
    f = tree.func("core.objects", "TypeConfig.__eq__")
    ts = path_traces(f.node)
    loc = chk.loc(f.module, f.node)
    cls_atoms = ("self.__class__ == <p1>.__class__", "<p1>.__class__ == self.__class__", "type(self) == type(<p1>)", "type(self) is type(<p1>)", "self.__class__ is <p1>.__class__")
    ok = bool(ts)
    for t in ts:
        eqs = [c for c in t.conds if c[0] in cls_atoms]
        if t.end == "return True":
            ok = ok and bool(eqs) and eqs[0][1] is True
        if eqs and eqs[0][1] is False:
            ok = ok and t.end == "return False"
    ok = ok and any(c[0] in cls_atoms for t in ts for c in t.conds)
    chk.require(ok, chk.fkey(f, "exact class"), f"TypeConfig.__eq__ must return False unless both configurations have exactly the same class ({[(t.conds[:1], t.end) for t in ts][:3]}): with isinstance, a value of a derived type whose "
                "inherited parameters match a Config-valued default compares equal to that default and is left out of the identifier", loc)
    g = CFG(f.node)
    loops = [n for n in g.live if n.kind == "for" and src(n.ast.iter) == "self.__xpm__.xpmvalues()"]
    chk.require(len(loops) == 1, chk.fkey(f, "all arguments"), "TypeConfig.__eq__ must compare every argument value", loc)


def r13_defaults_cloned(chk: Check):
    from . import c01

    c01.r6_defaults_not_aliased(chk)


def r14_pretasks_cross_tasks(chk: Check):
    tree = chk.tree
    f = tree.func("core.objects", "ConfigInformation.collect_pre_tasks")
    pre = [ff for ff in tree.funcs.values() if ff.parent is f or (ff.cls is not None and getattr(ff.cls, "parent_func", None) is f)]
    pre = [ff for k, ff in tree.funcs.items() if k.startswith(f.key + ".") and ff.node.name == "preprocess"]
    chk.min_instances(len(pre), 1, "preprocess of the pre-task collecting walk")
    for ff in pre:
        rets = [x for x in body_walk(ff.node) if isinstance(x, ast.Return)]
        ok = bool(rets)
        for r_ in rets:
            v = r_.value
            first = v.elts[0] if isinstance(v, ast.Tuple) and v.elts else None
            # the walk goes on through every configuration: the flag is constantly true (today: `not isinstance(config.__xpm__, Task)`, an information record is never a Task)
            ok = ok and first is not None and src(first) in ("True", "not isinstance(config.__xpm__, Task)")
        chk.require(ok, chk.fkey(ff, "walk crosses tasks"), f"the pre-task collection stops at some configurations ({[src(r_.value) for r_ in rets]}): the full identifier of a task must cover the pre-tasks of the "
                    "tasks it depends on (their raw identifiers do not), otherwise downstream tasks of differently prepared upstream tasks share an identifier", chk.loc(ff.module, ff.node))
    walker = [c for c in fn_calls(f.node) if any(k.arg == "recurse_task" and isinstance(k.value, ast.Constant) and k.value.value is True for k in c.keywords)]
    chk.require(bool(walker), chk.fkey(f, "recurse_task"), "the pre-task collection must follow task links (recurse_task=True)", chk.loc(f.module, f.node))


def fresh_hash_state(chk: Check):
    """Every identifier computation starts from its own state: no parameter of the hashing code defaults to an object built once at definition
    time (a shared ConfigPath keeps the configurations pushed by an earlier, interrupted or nested computation: loop references then depend on history)"""
    tree = chk.tree
    n = 0
    for f in tree.nontest_funcs():
        if f.module.name != "core.objects" or f.cls is None or f.cls.qual not in ("HashComputer", "ConfigPath") or isinstance(f.node, ast.Lambda):
            continue
        a = f.node.args
        for d in list(a.defaults) + [d for d in a.kw_defaults if d is not None]:
            n += 1
            ok = isinstance(d, ast.Constant) or (isinstance(d, (ast.Name, ast.Attribute)) and src(d).split(".")[-1].isupper())
            chk.require(ok, chk.fkey(f, f"default `{src(d)[:30]}` is a constant"), f"`{f.qual}` has the parameter default `{src(d)}`, evaluated once and shared by every call: "
                        "the path of configurations being hashed (or any other hashing state) must be fresh for each computation", chk.loc(f.module, d))
    chk.min_instances(n, 2, "parameter defaults of the hashing classes")


def r15_values_written_through_guard(chk: Check):
    """A parameter value written behind the seal guard (aliasing the values dict, direct stores) changes what is executed while the cached
    identifier stays: two different parameterisations then share one identifier"""
    from .c14 import r1_mutator_guards

    r1_mutator_guards(chk)



def r16_known_gaps(chk: Check):
    """Two encodings that let different signatures share an identifier (found by review, demonstrated, not repaired: both repairs change
    released identifiers).  The rule describes the construct; the verdict is a finding kept in known_findings.json"""
    tree = chk.tree
    up = tree.func("core.objects", "HashComputer.update")
    fi = tree.func("core.objects", "ConfigInformation.identifiers")
    # (1) the producing task of an embedded output is hashed by its raw identifier; init tasks enter only the submitted task's own full identifier
    task_raw = any(isinstance(c, ast.Call) and src(c) == "self.update(value.__xpm__.task)" for c in ast.walk(up.node))
    init_loops = [x for x in body_walk(fi.node) if isinstance(x, ast.For) and "init_tasks" in src(x.iter)]
    crossing = any("collect" in src(x.iter) for x in init_loops)
    chk.require(not (task_raw and init_loops and not crossing), chk.fkey(up, "producing task hashed without its init tasks"),
                "an embedded task output is hashed with the raw identifier of the task that produced it, and init tasks enter only the full identifier of the task they were submitted with "
                "(pre-tasks are collected across task links, init tasks are not): Evaluate(model=out) gets one identifier whether `out` comes from Learn.submit(init_tasks=[A]) or [B]",
                chk.loc(up.module, up.node))
    # (2) a dict is written without length or end marker; with a Union-typed value (int | dict) an entry can move between a nested dict and its parent
    m, br, f, loc = _model(chk)
    dict_terms = [it for t in dict(br).get("dict", []) for it in t]
    has_len = any(it[0] == "emit" and it[1][0] == "pack" for it in dict_terms)
    union = "core.types:UnionType.validate" in tree.funcs
    chk.require(has_len or not union, chk.fkey(up, "dict unterminated under Union-typed values"),
                "a dict is encoded as DICT tag + items with neither a length nor an end marker, and UnionType lets a dict value be `int | Dict[...]`: "
                "{'optim': {'batch': 8}, 'seed': 2} and {'optim': {'batch': 8, 'seed': 2}} (two levels, plain text) have the same byte stream", loc)


RULES = [
    ("R1", "tags are pairwise distinct single bytes below 0x20; each value kind starts with its own tag; NAME is not a value tag", r1_tags),
    ("R2", "scalar payloads are lossless (int: 64-bit integer pack, float: double, str: utf-8 of the whole text)", r2_scalars),
    ("R3", "list: tag, length prefix = len of exactly the iterated sequence, elements in given order, each hashed recursively", r3_list),
    ("R4", "enum text contains module, qualified class name and member name", r4_enum),
    ("R5", "nested configuration: OBJECT tag then cycle reference + index, or the child's digest", r5_nested),
    ("R6", "root: [TASK tag + producing task], type name, then sorted (name, NAME tag, value) triples", r6_root),
    ("R7", "dict: key then value for every kept item, sorted by key", r7_dict),
    ("R8", "full identifier: raw digest, sorted pre-task digests, INIT_TASKS marker + init-task digests in given order", r8_full),
    ("R10", "argument-loop decision table: every argument the documented rule puts in the signature is hashed, for all consistent assignments of the atoms (shared walker with C02.R2, other direction)", r10_relevant_arguments_hashed),
    ("R11", "the identifier cache cannot hold a value computed before the signature was complete (shared with C01.R3: only identifiers() writes it, under _sealed)", r11_cache_not_stale),
    ("R12", "configuration equality (used by the skip-if-default rule) is exact-class and compares every argument", r12_default_equality),
    ("R13", "declared defaults are cloned into instances: a default shared with its Argument makes `value == default` true for ever, and the parameter drops out of the signature (= C01.R6)", r13_defaults_cloned),
    ("R14", "the pre-tasks entering the full identifier are collected through task links as well (a pre-task of an upstream task is part of what is executed)", r14_pretasks_cross_tasks),
    ("R15", "parameter values are written only through the seal-guarded mutators: no write can change a value after its identifier was cached (= C14.R1)", r15_values_written_through_guard),
    ("R9", "no framing conflict (FIRST/FOLLOW of variable-length constructs) outside the two domain exclusions of the property", r9_framing),
    ("R16", "known encoding gaps (findings kept in known_findings.json): producing task hashed without its init tasks; unterminated dict reachable at two levels through Union-typed values", r16_known_gaps),
]
