"""C03 -- different signatures never share an identifier (framing discipline of the byte stream)."""

from __future__ import annotations

import ast
import json
import re

from ..astq import body_walk, dotted, src
from ..hashmodel import full_model, find_terms, flat_emits, extract_update, class_bytes_constants
from ..loader import Undecided
from ..report import Check

ASSUMPTIONS = [
    "SHA-256 digests are treated as opaque fixed-length atoms (collision resistance trusted)",
    "domain of the property: text without control characters, dictionaries nested at most two levels; the two "
    "residual framing conflicts (unterminated text, unterminated dict) are reported as DOMAIN-EXCLUSION notes",
    "injectivity for dictionaries nested exactly two levels with union-typed values is not proved (see DESIGN C03)",
]

INT_FORMATS_OK = {"!q", ">q", "<q", "!Q", ">Q", "<Q", "=q", "=Q"}
FLOAT_FORMATS_OK = {"!d", ">d", "<d", "=d"}


def _model(chk):
    m = full_model(chk.tree)
    if m["_unknown_helpers"]:
        raise Undecided(f"unmodelled helper calls in the hasher: {m['_unknown_helpers']}")
    br = dict((k, v) for k, v in m["update"]["branches"])
    f = chk.tree.func("core.objects", "HashComputer.update")
    return m, br, f, chk.loc(f.module, f.node)


def _first_tag(terms):
    if terms and terms[0][0] == "emit" and terms[0][1][0] == "tag":
        return terms[0][1][1]
    return None


def r1_tags(chk: Check):
    m, br, f, loc = _model(chk)
    tags = m["update"]["tags"]
    vals = {}
    for k, v in tags.items():
        b = bytes.fromhex(v)
        chk.require(len(b) == 1 and b[0] < 0x20, f"core.objects:HashComputer.{k}", f"tag {k} = {v}: tags must be single bytes below 0x20 (outside text)", loc)
        if v in vals:
            chk.violation(f"core.objects:HashComputer.{k}", f"tags {k} and {vals[v]} share the byte {v}: values of two kinds can produce the same stream", loc)
        vals[v] = k
    # each kind starts with its own tag
    expect = {"None": "NONE_ID", "float": "FLOAT_ID", "int": "INT_ID", "str": "STR_ID", "list": "LIST_ID", "Enum": "ENUM_ID",
              "dict": "DICT_ID", "Config": "OBJECT_ID"}
    seen = {}
    for kind, tag in expect.items():
        if kind not in br:
            raise Undecided(f"value kind `{kind}` not found in the dispatch chain")
        ft = _first_tag(br[kind])
        chk.require(ft == tag, chk.fkey(f, f"{kind} tag"), f"values of kind {kind} start with tag {ft}, expected {tag}", loc)
        if ft in seen:
            chk.violation(chk.fkey(f, f"{kind} tag"), f"kinds {kind} and {seen[ft]} start with the same tag {ft}", loc)
        seen[ft] = kind
    # NAME_ID is never a value tag
    chk.require("NAME_ID" not in seen, chk.fkey(f, "NAME_ID"), "NAME_ID is used as a value tag", loc)


def r2_scalars(chk: Check):
    m, br, f, loc = _model(chk)
    def second(kind):
        t = br[kind]
        return t[1][1] if len(t) == 2 and t[1][0] == "emit" else None
    s = second("int")
    chk.require(s is not None and s[0] == "pack" and s[1] in INT_FORMATS_OK and s[2] == "$1", chk.fkey(f, "int payload"),
                f"int payload is {s}: must be a lossless 64-bit integer pack of the value (e.g. packing as a double makes 2**53 and 2**53+1 collide)", loc)
    s = second("float")
    chk.require(s is not None and s[0] == "pack" and s[1] in FLOAT_FORMATS_OK and s[2] == "$1", chk.fkey(f, "float payload"),
                f"float payload is {s}: must be the 8-byte double of the value", loc)
    s = second("str")
    chk.require(s is not None and s[0] == "text" and s[1] == "utf-8" and s[2] == "$1", chk.fkey(f, "str payload"),
                f"str payload is {s}: must be the utf-8 bytes of the whole text", loc)
    t = br["None"]
    chk.require(len(t) == 1, chk.fkey(f, "None payload"), "None must be the bare NONE tag", loc)


def r3_list(chk: Check):
    m, br, f, loc = _model(chk)
    t = br["list"]
    fors = [x for x in t if x[0] == "for"]
    packs = [x for x in t if x[0] == "emit" and x[1][0] == "pack"]
    sorts = [x for x in t if x[0] == "sort"]
    ok = len(fors) == 1 and len(packs) == 1 and t.index(packs[0]) < t.index(fors[0])
    chk.require(ok, chk.fkey(f, "list framing"), "list must be hashed as LIST tag, length prefix, then the elements", loc)
    if ok:
        it = fors[0][1]
        chk.require(packs[0][1][2] == f"len({it})", chk.fkey(f, "list length = iterated sequence"),
                    f"list length prefix `{packs[0][1][2]}` is not the length of the iterated sequence `{it}`: [[x],[]] and [[x,[]]] style collisions", loc)
        chk.require(not sorts and not it.startswith(("sorted(", "set(", "reversed(")), chk.fkey(f, "list order"),
                    "list elements must be hashed in the given order ([a,b] and [b,a] are different signatures)", loc)
        body = fors[0][2]
        chk.require(len(body) == 1 and body[0][0] == "rec", chk.fkey(f, "list elements"), f"list elements are not each hashed recursively: {body}", loc)


def r4_enum(chk: Check):
    m, br, f, loc = _model(chk)
    t = br["Enum"]
    s = t[1][1] if len(t) == 2 and t[1][0] == "emit" else None
    ok = s is not None and s[0] == "text" and all(k in s[2] for k in ("__module__", "__qualname__", ".name"))
    chk.require(ok, chk.fkey(f, "enum payload"), f"enum payload is {s}: must contain the class module, qualified name and member name "
                "(two enums with a common member name would collide)", loc)


def r5_nested(chk: Check):
    m, br, f, loc = _model(chk)
    t = br["Config"]
    ok = len(t) >= 2 and t[1][0] == "if" and t[1][1].startswith("not ")
    nested = t[1][2] if ok else []
    cyc = [x for _, x in find_terms(nested, lambda x: x[0] == "emit" and x[1][0] == "tag" and x[1][1] == "CYCLE_REFERENCE")]
    dig = [x for _, x in find_terms(nested, lambda x: x[0] == "emit" and x[1][0] == "bytes" and "compute(" in x[1][1] and x[1][1].endswith(".all"))]
    pk = [x for _, x in find_terms(nested, lambda x: x[0] == "emit" and x[1][0] == "pack")]
    ends_return = bool(nested) and nested[-1][0] == "return"
    chk.require(ok and len(cyc) == 1 and len(dig) == 1 and len(pk) == 1 and pk[0][1][1] in INT_FORMATS_OK and ends_return,
                chk.fkey(f, "nested configuration"),
                "a nested configuration must be hashed as OBJECT tag then either CYCLE tag + packed index or the child's digest, and nothing else", loc)


def r6_root(chk: Check):
    m, br, f, loc = _model(chk)
    t = br["Config"]
    # positions
    idx_task = idx_type = idx_args = None
    for i, x in enumerate(t):
        if x[0] == "if" and any(e[0] == "emit" and e[1][0] == "tag" and e[1][1] == "TASK_ID" for e in x[2]):
            idx_task = i
            then = x[2]
            okt = len(then) == 2 and then[1][0] == "rec" and then[1][1].endswith(".__xpm__.task") and "task is not None" in x[1]
            chk.require(okt, chk.fkey(f, "task output"), f"task outputs must be hashed as TASK tag + the producing task (guard `{x[1]}`, then {then})", loc)
        if x[0] == "emit" and x[1][0] == "text" and x[1][2].endswith(".identifier.name"):
            idx_type = i
        if x[0] == "for" and ".arguments" in x[1]:
            idx_args = i
            body = x[2]
            okb = (len(body) == 3 and body[0][0] == "rec" and body[0][1].endswith(".name") and body[1] == ["emit", ["tag", "NAME_ID", m["update"]["tags"]["NAME_ID"]]]
                   and body[2][0] == "rec" and ("getattr(" in body[2][1] or "values" in body[2][1]))
            chk.require(okb, chk.fkey(f, "argument triple"),
                        f"each hashed argument must be name, NAME tag, value -- found {body} (without the name S(a=1) and S(b=1) collide; without the separator name/value boundaries blur)", loc)
            chk.require(x[1].startswith("sorted("), chk.fkey(f, "argument order"), "arguments must be hashed in sorted order", loc)
    chk.require(idx_task is not None, chk.fkey(f, "TASK_ID"), "the producing task of a task output is not hashed: the same output configuration produced by two different tasks would collide", loc)
    chk.require(idx_type is not None, chk.fkey(f, "type name"), "the type identifier is not hashed", loc)
    chk.require(idx_args is not None, chk.fkey(f, "argument loop"), "no argument loop", loc)
    if None not in (idx_task, idx_type, idx_args):
        chk.require(idx_task < idx_type < idx_args, chk.fkey(f, "root order"), "root must be: [TASK + task] type name, then arguments", loc)


def r7_dict(chk: Check):
    m, br, f, loc = _model(chk)
    t = br["dict"]
    fors = [x for x in t if x[0] == "for"]
    ok = len(fors) == 1 and len(fors[0][2]) == 2 and all(b[0] == "rec" for b in fors[0][2]) and fors[0][2][0][1] != fors[0][2][1][1]
    chk.require(ok, chk.fkey(f, "dict items"), f"dict items must be hashed as key then value for every kept item: {fors}", loc)
    sorts = [x for x in t if x[0] == "sort"]
    srt = bool(sorts) or (fors and fors[0][1].startswith("sorted("))
    chk.require(srt, chk.fkey(f, "dict order"), "dict items must be hashed in sorted key order", loc)


def r8_full(chk: Check):
    m, br, f, loc = _model(chk)
    fi = chk.tree.func("core.objects", "ConfigInformation.identifiers")
    loc = chk.loc(fi.module, fi.node)
    t = m["identifiers"]
    guard = [x for x in t if x[0] == "if" and x[1] == "<cache-guard>"]
    body = guard[0][2] if guard else t
    ok = len(body) >= 3 and body[0][0] == "emit" and body[0][1][0] == "bytes" and body[0][1][1].endswith(".all")
    chk.require(ok, chk.fkey(fi, "raw first"), "the full identifier must start with the raw digest", loc)
    pre = [x for x in body if x[0] == "for" and "collect_pre_tasks" in x[1]]
    chk.require(len(pre) == 1 and pre[0][1].startswith("sorted("), chk.fkey(fi, "pre-tasks sorted"), "pre-task digests must be hashed in sorted order (they form a set)", loc)
    ini = [x for x in body if x[0] == "if" and "init_tasks" in x[1]]
    ok = len(ini) == 1 and len(ini[0][2]) == 2 and ini[0][2][0] == ["emit", ["tag", "INIT_TASKS", m["update"]["tags"]["INIT_TASKS"]]] and ini[0][2][1][0] == "for"
    chk.require(ok, chk.fkey(fi, "INIT_TASKS marker"), "init-task digests must follow an INIT_TASKS marker (else one pre-task and one init task collide)", loc)
    if ok:
        it = ini[0][2][1][1]
        chk.require(not it.startswith("sorted(") and it.endswith("init_tasks"), chk.fkey(fi, "init tasks order"), "init tasks must be hashed in the given order (they form a sequence)", loc)
        chk.require(body.index(pre[0]) < body.index(ini[0]) if pre else False, chk.fkey(fi, "pre before init"), "pre-task digests must precede the init-task block", loc)


def r9_framing(chk: Check):
    """A8: FIRST/FOLLOW conflicts of variable-length constructs on the extracted grammar"""
    m, br, f, loc = _model(chk)
    tags = m["update"]["tags"]
    value_first = {tags[k] for k in ("NONE_ID", "FLOAT_ID", "INT_ID", "STR_ID", "LIST_ID", "ENUM_ID", "DICT_ID", "OBJECT_ID")}
    text_alphabet_low = 0x20  # text without control characters: all bytes >= 0x20
    # what can follow a value: another value (list element, dict key/value), NAME tag (after the name),
    # a name text (next argument: STR tag first), end of stream
    follow_value = set(value_first) | {tags["NAME_ID"]}
    conflicts = []
    # variable-length constructs: text (str, enum, type name), list (length-prefixed), dict (unterminated), argument sequence
    for kind in ("str", "Enum"):
        # continuation alphabet of text = bytes >= 0x20; FOLLOW = tags (< 0x20) -> disjoint iff every tag < 0x20 (R1)
        if any(int(v, 16) >= text_alphabet_low for v in follow_value):
            conflicts.append((kind, "text continuation alphabet meets FOLLOW"))
    allow = []
    allow.append("text is unterminated: delimited only by the following tag; text containing bytes < 0x20 is outside the property's domain")
    # list: must be length-prefixed (R3) -> no conflict.  dict: unterminated, continuation alphabet = FIRST(value) which meets FOLLOW(value)
    t = br["dict"]
    has_len = any(x[0] == "emit" and x[1][0] == "pack" for x in t)
    if not has_len:
        allow.append("dict is unterminated (no length, no end marker): a dict followed by sibling values is delimited only by typing; "
                     "nesting deeper than two levels is outside the property's domain")
    lt = br["list"]
    if not any(x[0] == "emit" and x[1][0] == "pack" for x in lt):
        conflicts.append(("list", "no length prefix: list continuation (FIRST(value)) meets FOLLOW(list)"))
    # argument sequence: each item starts with STR tag (name), ends before next STR tag or end; value may itself be str ->
    # separated by NAME tag between name and value: name is text (>=0x20) then NAME tag (<0x20): fine if NAME not a value tag (R1)
    if tags["NAME_ID"] in value_first:
        conflicts.append(("argument", "NAME tag is also a value tag"))
    for c in conflicts:
        chk.violation(chk.fkey(f, f"framing conflict {c[0]}"), f"framing conflict: {c[1]}", loc)
    for a in allow:
        chk.note("DOMAIN-EXCLUSION " + a, loc)
    if not conflicts:
        chk.ok(chk.fkey(f, "framing"), loc, f"no framing conflict other than the {len(allow)} domain exclusions")


def r10_relevant_arguments_hashed(chk: Check):
    from .c02 import r2_table

    r2_table(chk, direction="skipped")


def r11_cache_not_stale(chk: Check):
    from .c01 import r3_cache

    r3_cache(chk)


RULES = [
    ("R1", "tags are pairwise distinct single bytes below 0x20; each value kind starts with its own tag; NAME is not a value tag", r1_tags),
    ("R2", "scalar payloads are lossless (int: 64-bit integer pack, float: double, str: utf-8 of the whole text)", r2_scalars),
    ("R3", "list: tag, length prefix = len of exactly the iterated sequence, elements in given order, each hashed recursively", r3_list),
    ("R4", "enum text contains module, qualified class name and member name", r4_enum),
    ("R5", "nested configuration: OBJECT tag then cycle reference + index, or the child's digest", r5_nested),
    ("R6", "root: [TASK tag + producing task], type name, then sorted (name, NAME tag, value) triples", r6_root),
    ("R7", "dict: key then value for every kept item, sorted by key", r7_dict),
    ("R8", "full identifier: raw digest, sorted pre-task digests, INIT_TASKS marker + init-task digests in given order", r8_full),
    ("R10", "argument-loop decision table: every argument the documented rule puts in the signature is hashed, for all consistent assignments of the atoms (shared walker with C02.R2, other direction)", r10_relevant_arguments_hashed),
    ("R11", "the identifier cache cannot hold a value computed before the signature was complete (shared with C01.R3: only identifiers() writes it, under _sealed)", r11_cache_not_stale),
    ("R9", "no framing conflict (FIRST/FOLLOW of variable-length constructs) outside the two domain exclusions of the property", r9_framing),
]
