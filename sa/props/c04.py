"""C04 -- no job is launched before its dependencies succeeded."""

from __future__ import annotations

import ast
import itertools

from ..astq import attr_stores, body_walk, dotted, src, walk_local, norm_stmt, fn_calls
from ..cfg import CFG
from ..dataflow import ReachingDefs, walk_table
from ..loader import Undecided
from ..report import Check
from ..sched import JobStates, state_store_sites

ASSUMPTIONS = [
    "cross-thread calls of Dependency.check() from the watchdog thread (token on_modified) are not ordered by this analysis",
    "all interleavings of real process exits are not decided; only the gating structure is",
]


from ..astq import tail  # noqa: E402


def r1_launch_gating(chk: Check):
    tree = chk.tree
    sub = tree.func("scheduler.base", "Scheduler.aio_submit")
    g = CFG(sub.node)
    starts = g.call_nodes(lambda c: dotted(c.func) == "self.aio_start")
    chk.min_instances(len(starts), 1, "aio_start call sites in aio_submit")
    waits = [n for n in g.live if any((dotted(c.func) or "").endswith("_readyEvent.wait") for c in n.calls()) and n.has_await()]
    for n, c in starts:
        gs = [(src(t.ast), pol) for t, pol in g.guards(n) if t.kind == "test"]
        ok = ("job.state == JobState.READY", True) in gs or ("job.ready", True) in gs
        chk.require(ok, chk.fkey(sub, "start guarded by READY"), f"aio_start is called under {gs}: a job may only be started when its state is READY", chk.loc(sub.module, c))
        okw = any(g.dominates(w, n) for w in waits)
        chk.require(okw, chk.fkey(sub, "start after ready event"), "aio_start is not dominated by `await job._readyEvent.wait()`", chk.loc(sub.module, c))
        # no effect point between the READY test and the call: the test node directly guards
        for t, pol in g.guards(n):
            if t.kind == "test" and src(t.ast) == "job.state == JobState.READY":
                between = g.reachable(t, avoid=[n])
                bad = [x for x in g.live if x.id in between and x is not t and x.has_await() and g.dominates(t, x) and x is not n and n.id in g.reachable(x)]
                bad = [x for x in bad if not any(g.dominates(n, x) for _ in [0])]
                chk.require(not [x for x in bad if g.dominates(x, n)], chk.fkey(sub, "no await between READY test and start"),
                            "an await separates the READY test from the start", chk.loc(sub.module, c))
    # who may call aio_start / aio_run / aio_submit
    table = {"aio_start": {"scheduler.base:Scheduler.aio_submit"}, "aio_run": {"scheduler.base:Scheduler.aio_start"},
             "aio_submit": {"scheduler.base:Scheduler.submit"}}
    found = {k: 0 for k in table}
    for f in tree.nontest_funcs():
        for c in fn_calls(f.node):
            t = tail(c)
            if t in table and isinstance(c.func, ast.Attribute):
                if t == "aio_submit" and dotted(c.func) != "self.aio_submit":
                    continue
                found[t] += 1
                chk.require(f.key in table[t], chk.fkey(f, f"calls {t}"), f"`{f.qual}` calls {t}(): only {sorted(table[t])} may (the gating checks live there)", chk.loc(f.module, c))
    for k, v in found.items():
        chk.min_instances(v, 1, f"call sites of {k}")
    # in aio_start: aio_run after the dependency-lock phase has completed, inside the job lock
    from ..sched import lock_phase

    st = tree.func("scheduler.base", "Scheduler.aio_start")
    gs_ = CFG(st.node)
    runs = gs_.call_nodes(lambda c: tail(c) == "aio_run")
    done, sites, helper, loops = lock_phase(tree, gs_, st)
    if not done:
        raise Undecided("aio_start: the phase that locks every dependency was not found (neither an inline loop nor a helper of Scheduler)")
    for n, c in runs:
        chk.require(any(gs_.dominates(b, n) for b in done), chk.fkey(st, "run after all dependency locks"),
                    "aio_run is not dominated by the completion of the phase that locks every dependency", chk.loc(st.module, c))
        inside = any(isinstance(a, ast.AsyncWith) and any("lock(job.lockpath)" in src(i.context_expr) for i in a.items) for a in _anc(c))
        chk.require(inside, chk.fkey(st, "run inside job lock"), "aio_run is not inside `async with <connector>.lock(job.lockpath)`", chk.loc(st.module, c))
    # a failed dependency lock aborts the start: the LockError handler returns (inline), or the helper's result is tested before the run
    for lp in loops:
        for h in [x for x in body_walk(lp.ast) if isinstance(x, ast.ExceptHandler)]:
            if h.type is not None and "LockError" in src(h.type):
                rets = [x for x in h.body if isinstance(x, ast.Return)]
                chk.require(bool(rets), chk.fkey(st, "LockError aborts"), "a failed dependency lock must abort the start (return)", chk.loc(st.module, h))
    if helper is not None:
        hs = [h for h in ast.walk(helper.node) if isinstance(h, ast.ExceptHandler) and h.type is not None and "LockError" in src(h.type)]
        ok = bool(hs) and all(any(isinstance(x, (ast.Return, ast.Raise)) for x in h.body) for h in hs)
        chk.require(ok, chk.fkey(helper, "LockError aborts"), "a failed dependency lock must abort the locking helper", chk.loc(helper.module, helper.node))
        for n, c in runs:
            gsn = [(src(t.ast), pol) for t, pol in gs_.guards(n) if t.kind == "test"]
            rdx = ReachingDefs(gs_)
            tested = any(helper.node.name in rdx.canon(t.ast, t) for t, pol in gs_.guards(n) if t.kind == "test")
            chk.require(tested, chk.fkey(st, "helper result tested before run"), f"the result of {helper.qual} is not tested before the job is started ({gsn})", chk.loc(st.module, c))


def _anc(node):
    p = getattr(node, "_parent", None)
    while p is not None:
        yield p
        p = getattr(p, "_parent", None)


def r2_who_sets_ready(chk: Check):
    tree = chk.tree
    js = JobStates(tree)
    n_set = 0
    all_sites = state_store_sites(tree)
    for f in tree.nontest_funcs():
        cs = [c for c in fn_calls(f.node) if (dotted(c.func) or "").endswith("_readyEvent.set")]
        st = [(t, v, s) for (ff, t, v, s) in all_sites if ff is f and "READY" in src(v)]
        if not cs and not st:
            continue
        g = CFG(f.node)
        rd = ReachingDefs(g)
        for c in cs:
            for n in g.nodes_of(c):
                n_set += 1
                gs = [(src(t.ast), pol) for t, pol in g.guards(n) if t.kind == "test"]
                ok = any((txt.endswith("unsatisfied == 0") and pol is True) or (txt == "status == DependencyStatus.FAIL" and pol is True)
                         or (txt.endswith(".dependencies") and pol is False) for txt, pol in gs)
                chk.require(ok, chk.fkey(f, "sets the ready event under " + str(gs)[:80]),
                            f"`_readyEvent.set()` under {gs}: the ready event may only be set when no dependency is unsatisfied, when a dependency failed, or when there is none",
                            chk.loc(f.module, c))
        for t, v, s in st:
            for n in g.nodes_of(t):
                n_set += 1
                gs = [(src(tt.ast), pol) for tt, pol in g.guards(n) if tt.kind == "test"]
                ok = any((txt.endswith("unsatisfied == 0") and pol is True) or (txt.endswith(".dependencies") and pol is False) for txt, pol in gs)
                chk.require(ok, chk.fkey(f, "stores READY: " + norm_stmt(s)), f"READY is stored under {gs}: only when `unsatisfied == 0` or without dependencies", chk.loc(f.module, s))
    chk.min_instances(n_set, 5, "ready-event sets and READY stores")


def r3_status_mapping(chk: Check):
    tree = chk.tree
    f = tree.func("scheduler.base", "JobDependency.status")
    g = CFG(f.node)

    def classify(n):
        t = src(n.ast)
        if t == "self.origin.state == JobState.DONE":
            return ("done", True)
        if t == "self.origin.state == JobState.ERROR":
            return ("error", True)
        if t == "self.origin.state != JobState.DONE":
            return ("done", False)
        return None

    def stop(n):
        if n.kind == "stmt" and isinstance(n.ast, ast.Return):
            return "return " + src(n.ast.value)
        if n is g.exit:
            return "fall"
        return None

    # table-driven form: return TABLE.get(self.origin.state, default) with TABLE a literal {JobState.X: DependencyStatus.Y}
    rets = [x for x in body_walk(f.node) if isinstance(x, ast.Return)]
    if len(rets) == 1 and isinstance(rets[0].value, ast.Call) and tail(rets[0].value) == "get" and len(rets[0].value.args) in (1, 2) and src(rets[0].value.args[0]) == "self.origin.state":
        call = rets[0].value
        tname = (dotted(call.func.value) or "").split(".")[-1]
        table = None
        for scope in ([f.cls.node] if f.cls is not None else []) + [f.module.tree]:
            for st_ in scope.body:
                if isinstance(st_, ast.Assign) and any(isinstance(t, ast.Name) and t.id == tname for t in st_.targets) and isinstance(st_.value, ast.Dict):
                    table = st_.value
                    break
            if table is not None:
                break
        writers = [ff.key for ff in tree.nontest_funcs() for x in ast.walk(ff.node) if isinstance(x, (ast.Subscript, ast.Attribute)) and isinstance(x.ctx, (ast.Store, ast.Del)) and tname in src(x)]
        if table is not None and not writers:
            got = {src(k): src(v) for k, v in zip(table.keys, table.values)}
            default = src(call.args[1]) if len(call.args) == 2 else "None"
            ok = got == {"JobState.DONE": "DependencyStatus.OK", "JobState.ERROR": "DependencyStatus.FAIL"} and default == "DependencyStatus.WAIT"
            chk.require(ok, chk.fkey(f, "status table"), f"JobDependency.status maps {got} (default {default}); expected DONE -> OK, ERROR -> FAIL, anything else -> WAIT "
                        "(a dependency is satisfied only by a successfully finished upstream job)", chk.loc(f.module, f.node))
            return
    want = {(True, False): "return DependencyStatus.OK", (False, True): "return DependencyStatus.FAIL", (False, False): "return DependencyStatus.WAIT"}
    for (d, e), w in want.items():
        outs = walk_table(g, g.entry, classify, {"done": d, "error": e}, lambda n: [], stop)
        ends = {o.end for o in outs}
        unk = [o.unknown for o in outs if o.unknown]
        chk.require(ends == {w} and not unk, chk.fkey(f, f"origin done={d} error={e}"),
                    f"JobDependency.status with upstream done={d}, error={e} gives {sorted(ends)}{' depending on ' + str(unk) if unk else ''}; expected {w} "
                    "(a dependency is satisfied only by a successfully finished upstream job)", chk.loc(f.module, f.node))


def r4_registration_order(chk: Check):
    tree = chk.tree
    f = tree.func("core.objects", "ConfigInformation.submit")
    g = CFG(f.node)
    subm = g.call_nodes(lambda c: src(c).startswith("experiment.CURRENT.submit("))
    upd = g.call_nodes(lambda c: dotted(c.func) == "self.updatedependencies" and c.args and src(c.args[0]) == "self.job.dependencies")
    pre = g.call_nodes(lambda c: src(c) == "self.job.dependencies.update(self.dependencies)")
    chk.min_instances(len(subm), 1, "scheduler submission in ConfigInformation.submit")
    for n, c in subm:
        chk.require(any(g.dominates(u, n) for u, _ in upd), chk.fkey(f, "collect before submit"), "the job is handed to the scheduler before its implicit dependencies were collected", chk.loc(f.module, c))
        chk.require(any(g.dominates(u, n) for u, _ in pre), chk.fkey(f, "explicit before submit"), "the job is handed to the scheduler before its explicit dependencies were added", chk.loc(f.module, c))
    sub = tree.func("scheduler.base", "Scheduler.aio_submit")
    g2 = CFG(sub.node)
    loops = [n for n in g2.live if n.kind == "for" and src(n.ast.iter) == "job.dependencies"]
    chk.min_instances(len(loops), 1, "dependency registration loop in aio_submit")
    for lp in loops:
        cnt = [n for n in g2.live if n.kind == "stmt" and isinstance(n.ast, ast.Assign) and src(n.ast.targets[0]) == "job.unsatisfied"]
        ok = any(src(n.ast.value) == "len(job.dependencies)" and g2.dominates(n, lp) for n in cnt)
        chk.require(ok, chk.fkey(sub, "unsatisfied = len(dependencies)"), "`job.unsatisfied = len(job.dependencies)` must precede the registration loop", chk.loc(sub.module, lp.ast))
        body = g2.reachable([m for m, l in lp.succ if l == "loop"][0], avoid=[lp])
        checks = [x for x in g2.live if x.id in body and any(tail(c) in ("check", "attach") for c in x.calls())]
        tgt = [x for x in g2.live if x.id in body and x.kind == "stmt" and isinstance(x.ast, ast.Assign) and src(x.ast.targets[0]).endswith(".target") and src(x.ast.value) == "job"]
        if checks and any(tail(c) == "check" for x in checks for c in x.calls()):
            chk.require(all(any(g2.dominates(t, c) for t in tgt) for c in checks), chk.fkey(sub, "target before check"), "`dependency.target = job` must precede dependency.check()", chk.loc(sub.module, lp.ast))


def _isinstance_kinds(test):
    if isinstance(test, ast.Call) and dotted(test.func) == "isinstance" and len(test.args) == 2:
        k = test.args[1]
        elts = k.elts if isinstance(k, ast.Tuple) else [k]
        return dotted(test.args[0]), [dotted(e) for e in elts]
    return None, []


def r5_collection(chk: Check):
    tree = chk.tree
    f = tree.func("core.objects", "updatedependencies")
    p = f.node.args.args[1].arg
    from ..dispatch import OTHER, kind_table

    def events(n, rd):
        out = []
        if n.kind == "for":
            out.append(f"for {src(n.ast.target)} in {rd.canon(n.ast.iter, n)}")
        for c in n.calls():
            if dotted(c.func) == "updatedependencies" and len(c.args) > 1:
                out.append("rec " + src(c.args[1]))
            elif src(c.func).endswith(".__xpm__.updatedependencies"):
                out.append("method " + rd.canon(c.func.value.value, n))
        return out

    KINDS = ["Config", "list", "set", "dict", "str", "int", "float", "Path", "Enum", OTHER]
    g0, rd0, table = kind_table(f.node, p, KINDS, events)
    loc = chk.loc(f.module, f.node)

    def evs(kind):
        out = []
        for o in table[kind]:
            ev = []
            for e in o.events:
                if e.startswith("for ") and e in ev:
                    continue  # the loop head is passed again when the loop ends
                ev.append(e)
            out.append((ev, o.end, [u[0] for u in o.unknown if u[2] is None]))
        return out

    ok = all(ev == [f"method {p}"] and end == "exit" and not unk for ev, end, unk in evs("Config")) and evs("Config")
    chk.require(ok, chk.fkey(f, "Config"), f"a nested configuration is not searched for dependencies ({evs('Config')})", loc)
    for k in ("list", "set"):
        ok = bool(evs(k))
        for ev, end, unk in evs(k):
            loops = [e for e in ev if e.startswith("for ")]
            ok = ok and len(loops) == 1 and loops[0].endswith(f" in {p}") and ev == [loops[0], "rec " + loops[0][4:].split(" in ")[0]] and end == "exit" and not unk
        chk.require(ok, chk.fkey(f, k), f"elements of a {k} parameter are not each searched for dependencies ({evs(k)})", loc)
    ok = bool(evs("dict"))
    for ev, end, unk in evs("dict"):
        loops = [e for e in ev if e.startswith("for ")]
        recs = [e[4:] for e in ev if e.startswith("rec ")]
        good = False
        if len(loops) >= 1 and end == "exit" and not unk:
            tgt, it = loops[0][4:].split(" in ", 1)
            if it == f"{p}.items()":
                names = tgt.strip("()").split(", ")
                good = len(names) == 2 and names[1] in recs
            elif it == f"{p}.values()":
                good = tgt in recs
            elif it in (p, f"{p}.keys()"):
                good = f"{p}[{tgt}]" in recs
        ok = ok and good
    chk.require(ok, chk.fkey(f, "dict values"), f"values of a dict parameter are not each searched for dependencies ({evs('dict')}): an upstream task placed in a Dict[str, Config] would not be waited for", loc)
    for k in ("str", "int", "float", "Path", "Enum"):
        ok = all(not ev and end == "exit" and not unk for ev, end, unk in evs(k)) and evs(k)
        chk.require(ok, chk.fkey(f, f"scalar {k}"), f"a {k} value must be accepted without effect ({evs(k)})", loc)
    ok = all(end == "raise" for ev, end, unk in evs(OTHER)) and evs(OTHER)
    chk.require(ok, chk.fkey(f, "unknown kinds raise"), "an unknown value kind must raise rather than be skipped", loc)
    # method: pre_tasks, init_tasks unconditionally, then task or argument values
    m = tree.func("core.objects", "ConfigInformation.updatedependencies")
    g = CFG(m.node)
    loc = chk.loc(m.module, m.node)
    for attr in ("self.pre_tasks", "self.init_tasks"):
        loops = [n for n in g.live if n.kind == "for" and src(n.ast.iter) == attr]
        ok = len(loops) == 1 and g.must_pass(g.entry, g.exit, loops) and any(src(c.func).endswith(".__xpm__.updatedependencies") for b in loops[0].ast.body for c in walk_local(b) if isinstance(c, ast.Call))
        chk.require(ok, chk.fkey(m, f"visits {attr}"), f"dependencies reachable through `{attr}` are not collected on every path (the loop is missing or can be skipped by an early return)", loc)
    # task de-duplication is by identity (structural equality ignores pre / init tasks, which do change the job)
    dd = [n for n in g.live if n.kind == "test" and "taskids" in src(n.ast)]
    chk.require(bool(dd) and all(src(n.ast) == "id(self.task) in taskids" for n in dd), chk.fkey(m, "tasks de-duplicated by identity"),
                f"already-added upstream tasks are recognised by {[src(n.ast) for n in dd]}: de-duplication must be by identity (id(task)); two equal-looking tasks that differ by init or pre-tasks are different jobs", loc)
    adds = g.call_nodes(lambda c: src(c) == "dependencies.add(self.task.__xpm__.dependency())")
    vals = [n for n in g.live if n.kind == "for" and "xpmvalues()" in src(n.ast.iter)]
    inlined_values = False
    if not vals:
        # xpmvalues() written out in place: every declared argument that has a value
        for n in g.live:
            if n.kind == "for" and src(n.ast.iter) in ("self.xpmtype.arguments.values()",) and isinstance(n.ast.target, ast.Name):
                a = n.ast.target.id
                body_src = " ".join(src(b) for b in n.ast.body)
                skips = [t for t in g.live if t.kind == "test" and src(t.ast) == f"{a}.name in self.values" and g.dominates(n, t)]
                if skips and f"self.values[{a}.name]" in body_src and "ignored" not in body_src and "generator" not in body_src:
                    vals.append(n)
                    inlined_values = True
    chk.require(len(adds) == 1 and len(vals) == 1, chk.fkey(m, "task or values"), "the producing task or else every argument value must be searched", loc)
    if len(adds) == 1 and len(vals) == 1:
        # on every path to exit: the add, or the task-id already seen, or the values loop
        seen = [b for b in g.live if b.kind == "branch" and b.extra["test"].kind == "test" and " in taskids" in src(b.extra["test"].ast) and b.extra["polarity"] is True]
        chk.require(g.must_pass(g.entry, g.exit, [adds[0][0]] + vals + seen), chk.fkey(m, "task or values on every path"),
                    "some path collects neither the producing task nor the argument values", loc)
        rec = [c for b in vals[0].ast.body for c in walk_local(b) if isinstance(c, ast.Call) and dotted(c.func) == "updatedependencies"]
        chk.require(len(rec) == 1, chk.fkey(m, "values recursion"), "argument values are not passed to updatedependencies()", loc)
        # ... every value: the only reason to skip one is that it is None (Meta / Option / generated parameters can hold task outputs too)
        for rc in rec:
            for nd in g.nodes_of(rc):
                gs = [(src(t.ast), pol) for t, pol in g.guards(nd) if t.kind == "test" and g.dominates(vals[0], t)]
                extra = [x for x in gs if not (x[0].endswith(" is None") or x[0].endswith(".name in self.values"))]
                chk.require(not extra, chk.fkey(m, "every value is searched"),
                            f"argument values are searched for upstream tasks only under {extra}: a task reachable through a skipped parameter (e.g. Meta) would not be waited for", chk.loc(m.module, rc))
        # values of ALL arguments (no filter on ignored / generated)
        xv = tree.func("core.objects", "ConfigInformation.xpmvalues")
        outputs_linked_to_producer(chk)
        chk.require(inlined_values or "ignored" not in src(xv.node), chk.fkey(xv, "no ignored filter"), "xpmvalues() filters ignored arguments: Meta/Option parameters holding task outputs would not be waited for", chk.loc(xv.module, xv.node))


def duplicate_refers_to_submitted_job(chk: Check):
    """A task equal to one already submitted is not scheduled; it must then stand for the job that is: its job and producing task are those of
    the first submission, so that a task taking it as a parameter waits for that job"""
    tree = chk.tree
    sub = tree.func("core.objects", "ConfigInformation.submit")
    g = CFG(sub.node)
    tests = [t for t in g.live if t.kind == "test" and src(t.ast) == "other"]
    chk.min_instances(len(tests), 1, "`already submitted` test in ConfigInformation.submit")
    for t in tests:
        tb = [b for b, l in t.succ if l is True]
        rets = [n for n in g.live if n.kind == "stmt" and isinstance(n.ast, ast.Return) and any(g.dominates(b, n) for b in tb)]
        jobst = [n for n in g.live if n.kind == "stmt" and isinstance(n.ast, ast.Assign) and src(n.ast.targets[0]) == "self.job" and src(n.ast.value) == "other"]
        taskst = [n for n in g.live if n.kind == "stmt" and isinstance(n.ast, ast.Assign) and any(src(x) == "self.task" for x in n.ast.targets) and "other.config" in src(n.ast.value)]
        ok = bool(rets) and all(any(g.dominates(s_, r) for s_ in jobst) and any(g.dominates(s_, r) for s_ in taskst) for r in rets)
        chk.require(ok, chk.fkey(sub, "duplicate stands for the submitted job"),
                    "the `already submitted` branch returns without making this task refer to the job and the task that were submitted first: used as a parameter it creates no "
                    "dependency and the downstream job starts before the upstream one has ended", chk.loc(sub.module, t.ast))


def outputs_linked_to_producer(chk: Check):
    duplicate_refers_to_submitted_job(chk)
    """what a task returns to the experiment plan carries a link to the task: that link is what updatedependencies() follows"""
    tree = chk.tree
    mo = tree.func("core.objects", "ConfigInformation.mark_output")
    gm = CFG(mo.node)
    p = mo.node.args.args[1].arg
    st = [n for n in gm.live if n.kind == "stmt" and isinstance(n.ast, ast.Assign) and any(src(t) == f"{p}.__xpm__.task" for t in n.ast.targets) and src(n.ast.value) == "self.pyobject"]
    rets = [n for n in gm.live if n.kind == "stmt" and isinstance(n.ast, ast.Return)]
    ok = bool(st) and gm.on_every_path(st) and rets and all(n.ast.value is not None and src(n.ast.value) == p for n in rets)
    chk.require(ok, chk.fkey(mo, "links the output to its task"), "mark_output must store the producing task in the output configuration (`config.__xpm__.task = self.pyobject`) on every path and return it: "
                "a task consuming that output would otherwise not wait for the producer", chk.loc(mo.module, mo.node))
    sub = tree.func("core.objects", "ConfigInformation.submit")
    g = CFG(sub.node)
    rd = ReachingDefs(g)
    loc = chk.loc(sub.module, sub.node)
    # (the `already submitted` branch, which makes this task stand for the first submission, is examined by duplicate_refers_to_submitted_job)
    dup = [b for t in g.live if t.kind == "test" and src(t.ast) == "other" for b, l in t.succ if l is True]
    in_dup = lambda n: any(g.dominates(b, n) for b in dup)
    stores = [n for n in g.live if n.kind == "stmt" and isinstance(n.ast, ast.Assign) and any(src(t) == "self.task" for t in n.ast.targets) and rd.canon(n.ast.value, n) == "self.pyobject"]
    finals = [n for n in g.live if n.kind == "stmt" and isinstance(n.ast, ast.Return) and n.ast.value is not None and rd.canon(n.ast.value, n) in ("self._taskoutput", "self.pyobject") and not in_dup(n)]
    chk.require(bool(finals) and bool(stores) and all(g.on_every_path(stores, end=r) for r in finals), chk.fkey(sub, "task marks itself"),
                "submit must record the task as its own producer (`self.task = self.pyobject`) on every path that returns the task output", loc)
    outs = [n for n in g.live if n.kind == "stmt" and isinstance(n.ast, ast.Assign) and any(src(t) == "self._taskoutput" for t in n.ast.targets) and not in_dup(n)]
    ok = bool(outs)
    for n in outs:
        v = n.ast.value
        if isinstance(v, ast.Call) and tail(v) == "task_outputs":
            ok = ok and len(v.args) == 1 and src(v.args[0]) == "self.mark_output"
        else:
            ok = ok and rd.canon(v, n) == "self.pyobject"
    chk.require(ok, chk.fkey(sub, "task outputs marked"), f"the task output is built by {[src(n.ast) for n in outs]}: it must be the task itself or task_outputs(self.mark_output)", loc)


def r6_counter_arithmetic(chk: Check):
    tree = chk.tree
    _r6_check_guard(chk)
    f = tree.func("scheduler.base", "Job.dependencychanged")
    val = tree.func("scheduler.base", "Job.dependencychanged.value") if tree.has_func("scheduler.base", "Job.dependencychanged.value") else None
    params = [a.arg for a in f.node.args.args]
    if len(params) < 4:
        raise Undecided("dependencychanged: signature changed")
    statuses = ["WAIT", "OK", "FAIL"]

    def ev(e, env):
        if isinstance(e, ast.BinOp):
            a, b = ev(e.left, env), ev(e.right, env)
            if isinstance(e.op, ast.Sub):
                return a - b
            if isinstance(e.op, ast.Add):
                return a + b
            raise ValueError(src(e))
        if isinstance(e, ast.UnaryOp) and isinstance(e.op, ast.USub):
            return -ev(e.operand, env)
        if isinstance(e, ast.Constant) and isinstance(e.value, int):
            return e.value
        if isinstance(e, ast.IfExp):
            return ev(e.body, env) if ev(e.test, env) else ev(e.orelse, env)
        if isinstance(e, ast.Compare) and len(e.ops) == 1:
            a, b = ev(e.left, env), ev(e.comparators[0], env)
            if not (isinstance(a, str) and isinstance(b, str)) and not (isinstance(a, int) and isinstance(b, int)):
                raise ValueError(src(e))
            if isinstance(e.ops[0], (ast.Eq, ast.Is)):
                return a == b
            if isinstance(e.ops[0], (ast.NotEq, ast.IsNot)):
                return a != b
            raise ValueError(src(e))
        if isinstance(e, ast.Name) and e.id in env:
            return env[e.id]
        if isinstance(e, ast.Name) and at[0] is not None:
            # a local bound once: its defining expression
            df = rd.unique(e.id, at[0])
            if df is not None and df.kind == "assign" and df.value is not None:
                return ev(df.value, env)
        d = dotted(e)
        if d and d.startswith("DependencyStatus.") and d.count(".") == 1:
            return d.split(".")[1]
        if isinstance(e, ast.Call) and isinstance(e.func, ast.Name) and len(e.args) == 1 and not e.keywords:
            hv = [ff for ff in tree.funcs.values() if ff.parent is f and ff.node.name == e.func.id]
            if not hv:
                # a module-level function of the same module, provided it has no effect (checked by C07.R2)
                hv = [ff for ff in tree.funcs.values() if ff.parent is None and ff.cls is None and ff.module is f.module and ff.node.name == e.func.id]
            if hv:
                if len(hv[0].node.args.args) != 1:
                    raise ValueError(f"{e.func.id}()")
                saved = at[0]
                at[0] = None
                env2 = {hv[0].node.args.args[0].arg: ev(e.args[0], env)}

                def run(stmts):
                    for st_ in stmts:
                        if isinstance(st_, ast.Return):
                            return ("ret", ev(st_.value, env2))
                        if isinstance(st_, ast.If):
                            r_ = run(st_.body if ev(st_.test, env2) else st_.orelse)
                            if r_ is not None:
                                return r_
                        elif isinstance(st_, ast.Assign) and len(st_.targets) == 1 and isinstance(st_.targets[0], ast.Name):
                            env2[st_.targets[0].id] = ev(st_.value, env2)
                        elif isinstance(st_, (ast.Pass,)) or (isinstance(st_, ast.Expr) and isinstance(st_.value, ast.Constant)):
                            continue
                        else:
                            raise ValueError(f"{e.func.id}()")
                    return None

                try:
                    r_ = run(hv[0].node.body)
                    if r_ is None:
                        raise ValueError(f"{e.func.id}() falls off its end")
                    return r_[1]
                finally:
                    at[0] = saved
        if isinstance(e, ast.Call) and dotted(e.func) == "int" and len(e.args) == 1:
            return int(ev(e.args[0], env))
        raise ValueError(src(e))

    g = CFG(f.node)
    rd = ReachingDefs(g)
    at = [None]
    bad = []
    npaths = 0
    for old in statuses:
        for new in statuses:
            if old == new:
                continue  # check() only notifies on a change
            env = {params[2]: old, params[3]: new}
            scenario = {}

            def classify(n):
                at[0] = n
                try:
                    v = ev(n.ast, env)
                except ValueError:
                    return None
                if isinstance(v, bool):
                    scenario[f"#{n.id}"] = v
                    return (f"#{n.id}", True)
                return None

            def events(n):
                out = []
                if n.kind == "stmt" and isinstance(n.ast, ast.AugAssign) and src(n.ast.target) == "self.unsatisfied":
                    at[0] = n
                    try:
                        d = ev(n.ast.value, env)
                    except ValueError as e:
                        raise Undecided(f"dependencychanged: counter update `{src(n.ast)}` not evaluable ({e})")
                    out.append(-d if isinstance(n.ast.op, ast.Sub) else d)
                elif n.kind == "stmt" and isinstance(n.ast, ast.Assign) and src(n.ast.targets[0]) == "self.unsatisfied":
                    raise Undecided(f"dependencychanged: `{src(n.ast)}` assigns the counter")
                return out

            outs = walk_table(g, g.entry, classify, scenario, events, lambda n: "exit" if n is g.exit else ("raise" if n is g.raise_ else None))
            want = (1 if old == "OK" else 0) - (1 if new == "OK" else 0)
            for o in outs:
                npaths += 1
                if o.end == "exit" and sum(o.events) != want:
                    bad.append((old, new, sum(o.events), want))
    bad = sorted(set(bad))
    chk.count("counter_paths", npaths)
    chk.require(not bad, chk.fkey(f, "unsatisfied update"), f"dependencychanged: over (old,new) status pairs the counter moves by {bad} (old,new,actual,expected): "
                "unsatisfied must stay equal to the number of dependencies that are not OK", chk.loc(f.module, f.node), okmsg=f"{npaths} paths over 6 status changes")
    # who writes unsatisfied
    for ff in tree.nontest_funcs():
        for n in body_walk(ff.node):
            tg = None
            if isinstance(n, ast.AugAssign):
                tg = n.target
            elif isinstance(n, ast.Assign):
                tg = n.targets[0]
            if tg is not None and isinstance(tg, ast.Attribute) and tg.attr == "unsatisfied":
                ok = ff.key in ("scheduler.base:Job.__init__", "scheduler.base:Job.dependencychanged", "scheduler.base:Scheduler.aio_submit")
                chk.require(ok, chk.fkey(ff, norm_stmt(n)), f"`{ff.qual}` writes the unsatisfied counter", chk.loc(ff.module, n))


def _r6_check_guard(chk: Check):
    tree = chk.tree
    # Dependency.check: notifies only on a change and then records the status
    c = tree.func("scheduler.dependencies", "Dependency.check")
    g = CFG(c.node)
    rd = ReachingDefs(g)
    calls = g.call_nodes(lambda x: tail(x) == "dependencychanged")
    chk.min_instances(len(calls), 1, "dependencychanged call in Dependency.check")
    for n, call in calls:
        gs = [(rd.canon(t.ast, t), pol) for t, pol in g.guards(n) if t.kind == "test"]
        ok = any((txt in ("self.status() == self.currentstatus", "self.currentstatus == self.status()") and pol is False) for txt, pol in gs)
        chk.require(ok, chk.fkey(c, "notify only on change"), f"dependencychanged is called under {gs}: it must be called only when the status differs from the recorded one "
                    "(a repeated OK notification would decrement the counter twice and start the job while another dependency is still running)", chk.loc(c.module, call))
        args = [src(a) for a in call.args]
        chk.require(len(args) == 3 and args[1] == "self.currentstatus" and rd.canon(call.args[2], n) == "self.status()", chk.fkey(c, "passes old and new status"),
                    f"dependencychanged receives {args}; expected (self, recorded status, new status)", chk.loc(c.module, call))
        rec = [x for x in g.live if x.kind == "stmt" and isinstance(x.ast, ast.Assign) and src(x.ast.targets[0]) == "self.currentstatus"]
        chk.require(any(g.must_pass(n, g.exit, [r]) and n.id != r.id for r in rec), chk.fkey(c, "records the new status"), "after notifying, the new status must be recorded in currentstatus", chk.loc(c.module, call))
    # who calls dependencychanged
    for ff in tree.nontest_funcs():
        for call in fn_calls(ff.node):
            if tail(call) == "dependencychanged" and ff.key != c.key:
                chk.violation(chk.fkey(ff, "calls dependencychanged"), f"`{ff.qual}` calls dependencychanged directly, bypassing the changed-status guard of Dependency.check", chk.loc(ff.module, call))


def r7_done_is_truthful(chk: Check):
    from . import c06

    c06.r2_truthful(chk)


RULES = [
    ("R1", "launch gating: aio_start only under state == READY after awaiting the ready event; aio_run only from aio_start, after every dependency lock was taken, inside the job lock; who-may-call tables", r1_launch_gating),
    ("R2", "the ready event is set / READY is stored only under unsatisfied == 0, a failed dependency, or no dependencies", r2_who_sets_ready),
    ("R3", "JobDependency.status: OK iff upstream DONE, FAIL iff upstream ERROR, else WAIT (decision table)", r3_status_mapping),
    ("R4", "dependencies are collected and added before the job is handed to the scheduler; the counter and the target are set before the first check", r4_registration_order),
    ("R5", "dependency collection reaches list elements, dict values, nested configurations, pre-tasks, init tasks and producing tasks on every path", r5_collection),
    ("R7", "an upstream job is DONE only if its process exited with code 0 or its success marker exists (= C06.R2): a dependency is never satisfied by an unknown exit code", r7_done_is_truthful),
    ("R6", "unsatisfied moves by [old is OK] - [new is OK] for all 9 status pairs; check() notifies only on a status change and records it; nobody else calls dependencychanged or writes the counter", r6_counter_arithmetic),
]
