"""C05 -- a task configuration is executed at most once per successful result."""

from __future__ import annotations

import ast
import itertools

from ..astq import attr_stores, body_walk, dotted, src, walk_local, norm_stmt, fn_calls
from ..cfg import CFG
from ..dataflow import ReachingDefs, walk_table
from ..loader import Undecided
from ..report import Check

ASSUMPTIONS = [
    "fasteners.InterProcessLock is a mutex between processes (trusted)",
    "exactly-once under really concurrent schedulers is not decided; only the ordering of lock / marker test / body is",
]

RAISING = {"sys.exit": "SystemExit", "self.handle_error": "SystemExit"}


from ..astq import tail  # noqa: E402


def r1_registry(chk: Check):
    tree = chk.tree
    f = tree.func("scheduler.base", "Scheduler.aio_registerJob")
    g = CFG(f.node)

    rd1 = ReachingDefs(g)

    def classify(n):
        t = src(n.ast)
        tc = rd1.canon(n.ast, n)
        if tc in ("self.jobs.get(job.identifier) is None", "self.jobs.get(job.identifier, None) is None"):
            return ("present", False)
        if tc in ("self.jobs.get(job.identifier)", "self.jobs.get(job.identifier, None)"):
            return ("present", True)
        if t == "self.exitmode":
            return ("exitmode", True)
        if t in ("self.jobs.get(job.identifier) is None", "self.jobs.get(job.identifier, None) is None"):
            return ("present", False)
        if t in ("self.jobs.get(job.identifier)", "self.jobs.get(job.identifier, None)"):
            return ("present", True)
        if t in ("job.identifier in self.jobs",):
            return ("present", True)
        if t in ("job.identifier not in self.jobs",):
            return ("present", False)
        if t.endswith(".state == JobState.ERROR"):
            return ("error", True)
        if t.endswith(".state != JobState.ERROR"):
            return ("error", False)
        if isinstance(n.stmt, ast.Assert):
            return ("assert", True)
        return None

    def events(n):
        out = []
        if n.kind == "stmt":
            if isinstance(n.ast, ast.Assign) and src(n.ast.targets[0]).startswith("self.jobs["):
                out.append("register " + src(n.ast.value))
            if isinstance(n.ast, ast.Return):
                v = n.ast.value
                out.append("return " + ("None" if v is None or (isinstance(v, ast.Constant) and v.value is None) else "registered" if isinstance(v, ast.Name) else src(v)))
        return out

    stop = lambda n: "exit" if n is g.exit else ("raise" if n is g.raise_ else None)
    want = {
        (False, False): ({"register job", "return None"}, "a new identifier is registered and None is returned"),
        (True, False): ({"return registered"}, "an identifier already registered (and not failed) returns the registered job and registers / counts nothing"),
        (True, True): ({"return None"}, "re-submission of a failed job returns None (a new job is run)"),
    }
    for (present, error), (evs, text) in want.items():
        outs = walk_table(g, g.entry, classify, {"exitmode": False, "present": present, "error": error, "assert": True}, events, stop)
        for o in outs:
            got = set(o.events)
            if not any(e.startswith("return") for e in got):
                got.add("return None")
            # a re-submission may also re-register the new job object
            got_cmp = {e for e in got if not (present and error and e == "register job")}
            ok = got_cmp == evs and not o.unknown
            chk.require(ok, chk.fkey(f, f"present={present} error={error}"),
                        f"aio_registerJob with identifier present={present}, registered job failed={error}: does {sorted(got)}"
                        f"{' depending on ' + str([u[0] for u in o.unknown]) if o.unknown else ''}; expected: {text}", chk.loc(f.module, f.node))
    # Scheduler.submit: returns the other job, schedules aio_submit only otherwise (shared with C06.R3)
    sm = tree.func("scheduler.base", "Scheduler.submit")
    gs = CFG(sm.node)
    rds = ReachingDefs(gs)
    sites = gs.call_nodes(lambda c: dotted(c.func) == "self.aio_submit")
    for n, c in sites:
        conds = [(rds.canon(t.ast, t), pol) for t, pol in gs.guards(n) if t.kind == "test"]
        chk.require(any("aio_registerJob" in cc and pol is False for cc, pol in conds), chk.fkey(sm, "no second job"),
                    f"aio_submit is scheduled under {conds}: a duplicate submission must not create a second job", chk.loc(sm.module, c))
    chk.min_instances(len(sites), 1, "aio_submit scheduling site")
    rets = [n for n in gs.live if n.kind == "stmt" and isinstance(n.ast, ast.Return) and n.ast.value is not None]
    chk.require(any("aio_registerJob" in rds.canon(n.ast.value, n) for n in rets), chk.fkey(sm, "returns the first job"), "Scheduler.submit must return the already registered job", chk.loc(sm.module, sm.node))
    # ConfigInformation.submit: returns the first submission's output; refuses a second submit of the same object
    cs = tree.func("core.objects", "ConfigInformation.submit")
    gc = CFG(cs.node)
    rdc = ReachingDefs(gc)
    rets = [n for n in gc.live if n.kind == "stmt" and isinstance(n.ast, ast.Return) and n.ast.value is not None and "_taskoutput" in src(n.ast.value)]
    ok = False
    for n in rets:
        v = rdc.canon(n.ast.value, n)
        gsn = [(rdc.canon(t.ast, t), pol) for t, pol in gc.guards(n) if t.kind == "test"]
        dupl = any(c == "experiment.CURRENT.submit(self.job)" and pol is True for c, pol in gsn)
        if dupl and v.startswith("experiment.CURRENT.submit(self.job).config.__xpm__._taskoutput"):
            ok = True
        if dupl and v == "self._taskoutput":
            # returned through the attribute: it was just set to the first submission's output
            st = [m for m in gc.live if m.kind == "stmt" and isinstance(m.ast, ast.Assign) and src(m.ast.targets[0]) == "self._taskoutput" and gc.dominates(m, n)
                  and rdc.canon(m.ast.value, m).startswith("experiment.CURRENT.submit(self.job).config.__xpm__._taskoutput")]
            ok = ok or bool(st)
    chk.require(ok, chk.fkey(cs, "returns first output"), "a duplicate submission must return the first submission's task output", chk.loc(cs.module, cs.node))
    first = [n for n in gc.live if n.kind == "test" and src(n.ast) == "self.job"]
    ok = bool(first) and any(isinstance(m.ast, ast.Raise) for b, l in first[0].succ if l is True for m, _ in b.succ)
    chk.require(ok, chk.fkey(cs, "already submitted raises"), "submitting the same task object twice must raise", chk.loc(cs.module, cs.node))


def r2_marker_shortcircuit(chk: Check):
    tree = chk.tree
    sub = tree.func("scheduler.base", "Scheduler.aio_submit")
    g = CFG(sub.node)
    starts = [n for n, c in g.call_nodes(lambda c: dotted(c.func) == "self.aio_start")]
    chk.min_instances(len(starts), 1, "aio_start call")
    # marker tests whose true edge stores DONE
    tests = []
    for n in g.live:
        if n.kind == "test" and src(n.ast) in ("job.donepath.exists()", "job.donepath.is_file()"):
            tb = [b for b, l in n.succ if l is True]
            nxt = [m for b in tb for m, _ in b.succ]
            if any(m.kind == "stmt" and src(m.ast) == "job.state = JobState.DONE" for m in nxt):
                tests.append(n)
    chk.min_instances(len(tests), 1, "success-marker tests storing DONE in aio_submit")
    loop_tests = [n for n in g.live if n.kind == "test" and isinstance(n.stmt, ast.While) and src(n.ast) == "job.state.finished()"]
    chk.require(len(loop_tests) == 1, chk.fkey(sub, "start loop guard"), "the start loop must be `while not job.state.finished()`", chk.loc(sub.module, sub.node))
    if not loop_tests:
        return
    lt = loop_tests[0]
    for s in starts:
        chk.require(g.must_pass(g.entry, s, tests), chk.fkey(sub, "marker test before start"), "a path reaches aio_start without testing the success marker", chk.loc(sub.module, s.ast))
        chk.require(any(g.dominates(b, s) for b, l in lt.succ if l is False), chk.fkey(sub, "start only if not finished"), "aio_start is not guarded by `not job.state.finished()`", chk.loc(sub.module, s.ast))
    # after the last await before the start loop, the marker is (re-)tested: every await outside the loop must pass a test before the loop
    loop_body = set()
    for b, l in lt.succ:
        if l is False:
            loop_body = g.reachable(b, avoid=[lt])
    head = [p for p, l in lt.pred][0] if lt.pred else lt
    for n in g.live:
        if n.has_await() and n.id not in loop_body and lt.id in g.reachable(n) and n is not lt:
            ok = g.must_pass(n, lt, tests)
            chk.require(ok, chk.fkey(sub, "marker re-tested after await: " + n.label()[:60]),
                        f"after `{n.label()[:80]}` (an await during which another scheduler / the job itself may finish the job) the start loop is reachable "
                        "without re-testing the success marker: a job whose marker exists would be launched again", chk.loc(sub.module, n.ast or n.stmt))


def r3_lock_while_starting(chk: Check):
    tree = chk.tree
    st = tree.func("scheduler.base", "Scheduler.aio_start")
    runs = [c for c in fn_calls(st.node) if tail(c) == "aio_run"]
    chk.min_instances(len(runs), 1, "aio_run call in aio_start")
    for c in runs:
        inside = any(isinstance(a, ast.AsyncWith) and any("lock(job.lockpath)" in src(i.context_expr) for i in a.items) for a in _anc(c))
        chk.require(inside, chk.fkey(st, "spawn under job lock"), "the job process is spawned (and its pid file written) outside `async with connector.lock(job.lockpath)`", chk.loc(st.module, c))
    # pid file written in aio_run after the process start
    ar = tree.func("commandline", "CommandLineJob.aio_run")
    g = CFG(ar.node)
    starts = g.call_nodes(lambda c: tail(c) == "start" and "processbuilder" in src(c.func))
    pid = [n for n in g.live if n.kind == "with_enter" and "pidpath.open" in src(n.ast.context_expr)]
    chk.require(len(starts) == 1 and len(pid) == 1 and g.dominates(starts[0][0], pid[0]), chk.fkey(ar, "pid after spawn"), "aio_run must spawn the process and then write the pid file", chk.loc(ar.module, ar.node))
    lock_files_never_removed(chk)


def _anc(node):
    p = getattr(node, "_parent", None)
    while p is not None:
        yield p
        p = getattr(p, "_parent", None)


def task_side(chk: Check):
    """Shared with C10: structure of TaskRunner.run"""
    tree = chk.tree
    f = tree.func("run", "TaskRunner.run")
    g = CFG(f.node, raising_calls=RAISING)
    rd = ReachingDefs(g)
    body = g.call_nodes(lambda c: dotted(c.func) == "run" and len(c.args) == 1)
    if len(body) != 1:
        # the module-level run() written out in place: loading the task from params.json, then task.execute()
        mod_funcs = {ff.node.name for ff in tree.nontest_funcs() if ff.module is f.module and ff.cls is None and ff.parent is None}
        cands = g.call_nodes(lambda c: (isinstance(c.func, ast.Name) and c.func.id in mod_funcs and c.args and "params.json" in src(c.args[0])) or (tail(c) == "execute" and not c.args))
        first = [x for x in cands if all(g.dominates(x[0], y[0]) for y in cands)]
        body = first[:1]
    if len(body) != 1:
        raise Undecided(f"TaskRunner.run: {len(body)} calls of the task body `run(...)`")
    loops = [n for n in g.live if n.kind == "for" and src(n.ast.iter) == "self.lockfiles"]
    if len(loops) != 1:
        raise Undecided("TaskRunner.run: lock acquisition loop over self.lockfiles not found")
    return f, g, rd, body[0][0], body[0][1], loops[0]


def r4_task_side(chk: Check):
    tree = chk.tree
    f, g, rd, bn, bc, loop = task_side(chk)
    done_b = [b for b in g.live if b.kind == "branch" and b.extra["test"] is loop and b.extra["polarity"] == "done"]
    chk.require(any(g.dominates(b, bn) for b in done_b), chk.fkey(f, "body after locks"), "the task body runs before every lock file was acquired", chk.loc(f.module, bc))
    # blocking acquire inside the loop, failure raises
    acq = [c for s in loop.ast.body for c in walk_local(s) if isinstance(c, ast.Call) and tail(c) == "acquire"]
    ok = len(acq) == 1 and any(k.arg == "blocking" and isinstance(k.value, ast.Constant) and k.value.value is True for k in acq[0].keywords)
    chk.require(ok, chk.fkey(f, "blocking acquire"), "each lock file must be taken with a blocking acquire", chk.loc(f.module, loop.ast))
    # body on the false edge of a marker test that is evaluated after the locks
    guard = None
    for t, pol in g.guards(bn):
        if t.kind == "test" and rd.canon(t.ast, t) == "self.donepath.is_file()" and pol is False:
            guard = t
        if t.kind == "test" and rd.canon(t.ast, t) == "not self.donepath.is_file()" and pol is True:
            guard = t
    chk.require(guard is not None, chk.fkey(f, "body only without marker"), "the task body is not guarded by the absence of the success marker", chk.loc(f.module, bc))
    if guard is not None:
        # where is the marker actually read?
        readers = []
        if any(isinstance(x, ast.Call) and tail(x) in ("is_file", "exists") for x in walk_local(guard.ast)):
            readers.append(guard)
        else:
            for nm in [x.id for x in walk_local(guard.ast) if isinstance(x, ast.Name)]:
                for d in rd.defs_at(nm, guard):
                    if d.node is not None:
                        readers.append(d.node)
        ok = bool(readers) and all(any(g.dominates(b, r) for b in done_b) for r in readers)
        chk.require(ok, chk.fkey(f, "marker read under the lock"),
                    "the success marker is read before the job lock is held: a second launch that waited for the lock would run the body again although the first launch succeeded",
                    chk.loc(f.module, guard.ast))
    # the success marker is written while the job lock is still held: nothing releases the locks / runs the cleanup between the body and the marker
    touch = [n for n, c in g.call_nodes(lambda c: tail(c) == "touch" and "donepath" in src(c.func))]
    rel = [n for n, c in g.call_nodes(lambda c: src(c) in ("self.cleanup()",) or (tail(c) == "release" and "lock" in src(c.func).lower()))]
    bad_rel = [r for r in rel if r.id in g.reachable(bn) and any(t.id in g.reachable(r) for t in touch)]
    chk.require(bool(touch) and not bad_rel, chk.fkey(f, "marker before lock release"),
                "the run locks are released (cleanup) before the success marker is written: a second launch blocked on the job lock acquires it in between, sees no marker, and runs the body again",
                chk.loc(f.module, (bad_rel[0].ast if bad_rel else f.node)))
    # lock list of the generated script contains job.lockpath
    prep = tree.func("commandline", "CommandLineJob.prepare")
    ok = any(src(c) == "scriptbuilder.lockfiles.append(self.lockpath)" for c in fn_calls(prep.node))
    chk.require(ok, chk.fkey(prep, "lockfiles.append(lockpath)"), "the generated script does not list the job lock file", chk.loc(prep.module, prep.node))
    wr = tree.func("scriptbuilder", "PythonScriptBuilder.write")
    loops = [x for x in body_walk(wr.node) if isinstance(x, ast.For) and src(x.iter) == "self.lockfiles"]
    ok = len(loops) == 1 and any(isinstance(c, ast.Call) and tail(c) == "write" for c in walk_local(loops[0]))
    ok = ok and any(isinstance(c, ast.Call) and tail(c) == "write" and "lockfiles).run()" in src(c) or "TaskRunner(" in src(c) for c in fn_calls(wr.node))
    chk.require(ok, chk.fkey(wr, "emits lockfiles"), "the script writer must emit every entry of self.lockfiles and pass them to TaskRunner", chk.loc(wr.module, wr.node))
    # single producer of the lock path
    lp = tree.func("scheduler.base", "Job.lockpath")
    chk.require("relmainpath" in src(lp.node) and ".lock" in src(lp.node), chk.fkey(lp, "lockpath"), "Job.lockpath must derive from the main identifier", chk.loc(lp.module, lp.node))


def r5_marker_writers(chk: Check):
    tree = chk.tree
    n = 0
    for f in tree.nontest_funcs():
        for c in fn_calls(f.node):
            if tail(c) in ("touch", "write_text", "write_bytes", "open") and isinstance(c.func, ast.Attribute) and "donepath" in src(c.func.value):
                if tail(c) == "open" and not any(isinstance(a, ast.Constant) and "w" in str(a.value) for a in c.args):
                    continue
                n += 1
                ok = f.key == "run:TaskRunner.run"
                chk.require(ok, chk.fkey(f, "writes the success marker"), f"`{f.qual}` writes the success marker; only TaskRunner.run may, on exit status 0", chk.loc(f.module, c))
                if ok:
                    g = CFG(f.node, raising_calls=RAISING)
                    for nn in g.nodes_of(c):
                        gs = [(src(t.ast), pol) for t, pol in g.guards(nn) if t.kind == "test"]
                        in_handler = any(isinstance(a, ast.ExceptHandler) and a.type is not None and "SystemExit" in src(a.type) for a in _anc(c))
                        chk.require(("e.code == 0", True) in gs and in_handler, chk.fkey(f, "marker only on exit 0"),
                                    f"the success marker is written under {gs}: only in the SystemExit handler with code == 0", chk.loc(f.module, c))
    chk.min_instances(n, 1, "writers of the success marker")
    # ... and nothing ever removes it (only whole job directories are deleted, by `jobs clean` / `orphans`)
    nrm = 0
    for f in tree.nontest_funcs():
        cands = [c for c in fn_calls(f.node) if tail(c) in ("unlink", "remove", "rmfile", "rename", "replace") and (c.args or isinstance(c.func, ast.Attribute))]
        if not cands:
            continue
        g = rd = None
        for c in cands:
            nrm += 1
            target = c.func.value if tail(c) in ("unlink", "rename", "replace") and isinstance(c.func, ast.Attribute) else (c.args[0] if c.args else None)
            if (dotted(c.func) or "").split(".")[0] in ("os", "shutil") and c.args:
                target = c.args[0]
            if target is None:
                continue
            if g is None:
                g = CFG(f.node)
                rd = ReachingDefs(g)
            nodes = g.nodes_of(c)
            texts = set()
            for nn in nodes:
                texts |= _may_values(target, nn, rd)
            hit = [t for t in texts if "donepath" in t or "'.done'" in t or '".done"' in t]
            chk.require(not hit, chk.fkey(f, "removes the success marker"),
                        f"`{src(c)}` in `{f.qual}` can remove / replace the success marker ({hit}): a later launch of the job script (e.g. one that was waiting for the job lock) "
                        "would run the body again although it already succeeded", chk.loc(f.module, c))
    chk.count("file_removal_sites", nrm)


def lock_files_never_removed(chk: Check):
    """A lock file that is deleted (or renamed) while other processes may have it open gives two
    holders of the 'same' lock: a waiter locks the now nameless inode, a newcomer creates and locks a new file"""
    tree = chk.tree
    n = 0
    for f in tree.nontest_funcs():
        in_lock_class = f.cls is not None and ("Lock" in f.cls.qual or any("Lock" in b for b in tree.base_names(f.cls)))
        cands = [c for c in fn_calls(f.node) if tail(c) in ("unlink", "remove", "rmfile", "rename", "replace", "rmtree")]
        if not cands:
            continue
        g = CFG(f.node)
        rd = ReachingDefs(g)
        for c in cands:
            target = c.func.value if tail(c) in ("unlink", "rename", "replace") and isinstance(c.func, ast.Attribute) else (c.args[0] if c.args else None)
            if (dotted(c.func) or "").split(".")[0] in ("os", "shutil") and c.args:
                target = c.args[0]
            if target is None:
                continue
            texts = set()
            for nn in g.nodes_of(c):
                texts |= _may_values(target, nn, rd)
                # the path of a lock object (`<lock>.path`, wrapped in Path(...) / os.fsdecode(...)): what the names inside the target may denote
                for sub in ast.walk(target):
                    if isinstance(sub, ast.Attribute) and sub.attr in ("path", "lockfile", "lockfile_path") and isinstance(sub.value, ast.Name):
                        texts |= {"PATHOF(" + t + ")" for t in _may_values(sub.value, nn, rd)}
                    elif isinstance(sub, ast.Name) and sub is not target:
                        texts |= _may_values(sub, nn, rd)
            hit = [t for t in texts if "lockpath" in t or "xplock" in t or ".lock'" in t or '.lock"' in t or "lockfiles" in t or "InterProcessLock(" in t
                   or (t.startswith("PATHOF(") and ("self.locks" in t or "Lock(" in t))
                   or (in_lock_class and t in ("self.path", "self._path", "self.lockfile", "self.lockfile_path"))]
            n += 1
            chk.require(not hit, chk.fkey(f, "removes a lock file"),
                        f"`{src(c)}` in `{f.qual}` removes / renames a lock file ({hit}): a process already waiting on the old file and a process arriving later would both hold 'the' lock", chk.loc(f.module, c))
    # ... and never opened by anybody else: a POSIX record lock is dropped when the process closes *any* descriptor of the file
    opened = []
    for f in tree.nontest_funcs():
        for c in fn_calls(f.node):
            t = tail(c)
            recv = src(c.func.value) if isinstance(c.func, ast.Attribute) else ""
            arg0 = src(c.args[0]) if c.args else ""
            lockish = lambda x: ("lockpath" in x or "xplockpath" in x) and "lock(" not in x
            if t in ("write_text", "write_bytes", "read_text", "read_bytes", "open", "touch") and lockish(recv):
                opened.append((f, c))
            elif (dotted(c.func) or "") in ("open", "io.open", "os.open") and lockish(arg0):
                opened.append((f, c))
    for f, c in opened:
        chk.violation(chk.fkey(f, "opens a lock file"), f"`{src(c)[:90]}` in `{f.qual}` opens a lock file: closing that descriptor releases the process's POSIX lock on it, "
                      "so the lock looks held while another process can take it", chk.loc(f.module, c))
    chk.count("removal_sites_checked_for_lock_files", n)
    chk.ok("lock files are never removed", "", f"{n} removal / rename sites examined")


def _may_values(e, at, rd, depth=4) -> set:
    """Source texts an expression may denote (following unique/multiple reaching definitions, loop
    targets over literal sequences)"""
    out = {src(e)}
    if depth <= 0:
        return out
    if isinstance(e, ast.Name):
        for d in rd.defs_at(e.id, at):
            if d.kind in ("assign", "walrus") and d.value is not None:
                out |= _may_values(d.value, d.node, rd, depth - 1)
            elif d.kind == "for" and d.value is not None:
                it = d.value
                if isinstance(it, (ast.Tuple, ast.List, ast.Set)):
                    for el in it.elts:
                        out |= _may_values(el, d.node, rd, depth - 1)
                else:
                    out |= {"ELEM(" + t + ")" for t in _may_values(it, d.node, rd, depth - 1)}
    elif isinstance(e, (ast.Tuple, ast.List)):
        for el in e.elts:
            out |= _may_values(el, at, rd, depth - 1)
    return out


def r6_lock_held_during_body(chk: Check):
    """the acquired run lock objects stay referenced (self.locks) while the body runs: a lock object that is dropped closes its descriptor and frees the lock"""
    from . import c10

    c10.r4_lock_type(chk)


def resubmission_registered(chk: Check):
    """Every job that aio_registerJob lets through (returns None after counting it) is the job the scheduler knows for its identifier: a job
    submitted again after a failure must replace the failed one, or every later identical submission is scheduled once more"""
    tree = chk.tree
    f = tree.func("scheduler.base", "Scheduler.aio_registerJob")
    g = CFG(f.node)
    incs = [n for n in g.live if n.kind == "stmt" and isinstance(n.ast, ast.AugAssign) and src(n.ast.target) == "self.xp.unfinishedJobs"]
    stores = [n for n in g.live if n.kind == "stmt" and isinstance(n.ast, ast.Assign) and src(n.ast.targets[0]) == "self.jobs[job.identifier]" and src(n.ast.value) == "job"]
    chk.min_instances(len(incs), 2, "counted registrations in aio_registerJob")
    for n in incs:
        chk.require(bool(stores) and g.on_every_path(stores, start=n, end=g.exit), chk.fkey(f, "every counted job is the registered job"),
                    f"after `{src(n.ast)}` (line {n.lineno}) a path returns without `self.jobs[job.identifier] = job`: the scheduler keeps the failed job as the known one and "
                    "further identical submissions are never merged", chk.loc(f.module, n.ast))


def r7_running_or_queued_is_adopted(chk: Check):
    resubmission_registered(chk)
    """A job whose process exists (running, or queued by a batch launcher) is adopted, not launched again (= C11.R2 adoption decision)"""
    from . import c11

    c11.r2_adoption_decision(chk)


RULES = [
    ("R1", "registry de-duplication: decision table of aio_registerJob; aio_submit scheduled only for a new registration; duplicate submit returns the first output; same object twice raises", r1_registry),
    ("R2", "success-marker short-circuit: every path to aio_start tests the marker (true edge stores DONE), re-tested after every await that precedes the start loop; loop guarded by not finished", r2_marker_shortcircuit),
    ("R3", "the scheduler spawns the process and writes the pid file inside the job lock", r3_lock_while_starting),
    ("R4", "task side: body after all lock files are acquired (blocking), only if the success marker - read under the lock - is absent; the generated script lists job.lockpath", r4_task_side),
    ("R6", "the run locks are descriptor-based and every acquired lock object is kept in self.locks for the whole body (= C10.R4)", r6_lock_held_during_body),
    ("R5", "the only writer of the success marker is TaskRunner.run's SystemExit handler under code == 0, and nothing in the package removes or replaces it", r5_marker_writers),
    ("R7", "a job whose process exists (running or queued) is adopted rather than launched again: adoption decision table of aio_process (= C11.R2)", r7_running_or_queued_is_adopted),
]
