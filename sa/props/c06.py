"""C06 -- every job reaches a truthful, stable final state and the experiment exits."""

from __future__ import annotations

import ast

from ..astq import attr_stores, body_walk, dotted, src, walk_local, norm_stmt, fn_calls, tail
from ..cfg import CFG, T
from ..dataflow import ReachingDefs, walk_table
from ..loader import Undecided
from ..report import Check
from ..sched import JobStates, Typestate, writer_summary, state_store_sites, return_set, value_states

ASSUMPTIONS = [
    "assume-guarantee for interleavings on the scheduler loop: control changes hands only at awaits and at synchronous "
    "re-entrant calls (dependency.check()); a FAIL notification only reaches a WAITING job (a READY job has every "
    "dependency OK, an OK job dependency is DONE, DONE is absorbing by this very rule, tokens never FAIL)",
    "termination / liveness (awaited threads complete, fasteners and psutil return) is not decided",
    "exception exits of aio_submit are not decided (an exception escaping aio_start skips the decrement)",
]

FINAL = {"DONE", "ERROR"}


def _marker_guarded(g: CFG, n, rd) -> bool:
    for t, pol in g.guards(n):
        if t.kind == "test" and pol is True:
            c = rd.canon(t.ast, t)
            if "donepath" in c and (c.endswith(".exists()") or c.endswith(".is_file()")):
                return True
    return False


def _check_store(chk, f, g, rd, n, t, v, pre, vs, js, what):
    """Obligation O1 at one store"""
    key = chk.fkey(f, norm_stmt(n.ast))
    loc = chk.loc(f.module, n.ast)
    pre = set(pre)
    problems = []
    nonfinal_vals = set(vs) - FINAL - {"None"}
    if nonfinal_vals and pre & FINAL:
        problems.append(f"stores {sorted(nonfinal_vals)} while the state may already be final {sorted(pre & FINAL)}")
    if "ERROR" in vs and "DONE" in pre:
        problems.append("stores ERROR while the state may already be DONE")
    if "DONE" in vs and "ERROR" in pre and not _marker_guarded(g, n, rd):
        problems.append("stores DONE while the state may already be ERROR (not under a success-marker test)")
    if problems:
        chk.violation(key, f"{what}: `{src(n.ast)}` " + "; ".join(problems) +
                      f". A final job state must never change (may-set of the state before the store: {sorted(pre)})", loc,
                      detail={"pre": sorted(pre), "stored": sorted(vs)})
    else:
        chk.ok(key, loc, f"pre={sorted(pre)} stored={sorted(vs)}")


def analysis(chk: Check):
    """Shared: typestate of aio_submit and of the any-time writers"""
    tree = chk.tree
    js = JobStates(tree)
    sub = tree.func("scheduler.base", "Scheduler.aio_submit")
    start = tree.func("scheduler.base", "Scheduler.aio_start")
    dep = tree.func("scheduler.base", "Job.dependencychanged")
    T, dep_sites = writer_summary(js, tree, dep)
    # effects of other writers at effect points: restricted to a WAITING job (assume-guarantee, see ASSUMPTIONS)
    effects = {(a, b) for (a, b) in T if a == "WAITING"}
    # callee summary: aio_start -> aio_run implementations store RUNNING
    run_vals = set()
    for f, t, v, s in state_store_sites(tree):
        if f.name == "aio_run":
            g2 = CFG(f.node)
            rd2 = ReachingDefs(g2)
            for n in g2.nodes_of(t):
                run_vals |= set(value_states(js, v, n, rd2, {}))
    callee = {"aio_start": {(a, b) for a in js.all - js.final for b in run_vals if b in js.all}}
    retsets = {"aio_start": return_set(js, start.node)}
    g = CFG(sub.node)
    rd = ReachingDefs(g)
    ts = Typestate(js, g, rd, "job", frozenset({"UNSCHEDULED"}), effects,
                   publish_pred=lambda c: (dotted(c.func) or "").endswith("dependents.add"),
                   reentrant_pred=lambda c: (dotted(c.func) or "").endswith(".check") and not (dotted(c.func) or "").startswith("self.loop"),
                   callee_effects=callee, retsets=retsets)
    return js, sub, start, dep, T, dep_sites, effects, g, rd, ts, retsets


def r1_absorbing(chk: Check):
    js, sub, start, dep, T, dep_sites, effects, g, rd, ts, retsets = analysis(chk)
    tree = chk.tree
    # O3: any-time writers under their own guards
    gd = CFG(dep.node)
    rdd = ReachingDefs(gd)
    n_sites = 0
    for (n, t, v, pre, vs) in dep_sites:
        n_sites += 1
        # map node of the summary CFG to the same statement in gd (same construction order => same ids)
        nn = gd.nodes[n.id]
        _check_store(chk, dep, gd, rdd, nn, t, v, pre, vs, js, "writer that can run at any time (dependency notification)")
    # O1: stores in aio_submit
    for n in g.live:
        for t, v in ts.stores(n):
            n_sites += 1
            pre = ts.at(n)
            if pre is None:
                continue
            if ts.PUB.get(n.id) and n.has_await():
                pre = ts._closure(pre, effects)
            for c in n.calls():
                d = (dotted(c.func) or "").split(".")[-1]
                if d in ts.callee_effects:
                    pre = ts._closure(pre, ts.callee_effects[d])
            vs = value_states(js, v, n, rd, retsets)
            vs = frozenset(x for x in vs if x != "None")
            if "?" in vs:
                vs = js.all
            _check_store(chk, sub, g, rd, n, t, v, pre, vs, js, "scheduler main coroutine")
    # other store sites in the package must be known (A3)
    legit = {"scheduler.base:Job.__init__", "scheduler.base:Job.dependencychanged", "scheduler.base:Scheduler.aio_submit",
             "commandline:CommandLineJob.aio_run"}
    for f, t, v, s in state_store_sites(tree):
        if f.key in legit:
            continue
        if f.name == "aio_run":
            continue
        n_sites += 1
        chk.violation(chk.fkey(f, norm_stmt(s)), f"`{f.qual}` stores a job state: the only writers of Job.state are Job.__init__, dependencychanged, "
                      "aio_submit and the aio_run implementations; a new writer is outside the analysed state machine", chk.loc(f.module, s))
    # aio_run: stores RUNNING only, and is only reached from aio_start under state == READY (C04.R1)
    for f, t, v, s in state_store_sites(tree):
        if f.name == "aio_run":
            n_sites += 1
            c = js.const(v)
            chk.require(c == "RUNNING", chk.fkey(f, norm_stmt(s)), f"aio_run stores {src(v)}: it may only move a READY job to RUNNING", chk.loc(f.module, s))
    # O2: state at the normal exits of aio_submit is final
    exits = [p for (p, l) in g.exit.pred]
    for p in exits:
        s = ts.at(p)
        if s is None:
            continue  # unreachable under proved facts
        s_out, _ = ts.out_of(p, s, ts.PUB.get(p.id, False))
        key = chk.fkey(sub, "exit via " + p.label()[:60])
        chk.require(set(s_out) <= FINAL, key,
                    f"aio_submit can return while the job state may be {sorted(set(s_out) - FINAL)}: waiting on the job would return a non-final state", chk.loc(sub.module, p.ast or p.stmt))
    # token dependencies never FAIL (part of the assume-guarantee)
    st = tree.func("tokens", "CounterTokenDependency.status")
    rets = [src(x.value) for x in body_walk(st.node) if isinstance(x, ast.Return)]
    chk.require(all("FAIL" not in r for r in rets) and rets, chk.fkey(st, "returns"), f"token dependency status returns {rets}: FAIL from a token would cancel jobs", chk.loc(st.module, st.node))
    chk.count("state_store_sites", n_sites)
    chk.min_instances(n_sites, 9, "stores to a job's state")


def _is_code_zero_test(t) -> bool:
    """canonical test `<name> == 0` against the int constant 0"""
    return (isinstance(t, ast.Compare) and len(t.ops) == 1 and isinstance(t.ops[0], ast.Eq) and isinstance(t.comparators[0], ast.Constant)
            and t.comparators[0].value == 0 and type(t.comparators[0].value) is int and isinstance(t.left, ast.Name))


def r2_truthful(chk: Check):
    """R2: DONE <=> exit code 0 (or success marker), ERROR otherwise"""
    tree = chk.tree
    js = JobStates(tree)
    n_map = 0
    code_tests = {}
    for modq in [("scheduler.base", "Scheduler.aio_start"), ("scheduler.base", "Scheduler.aio_submit")]:
        f = tree.func(*modq)
        gf = CFG(f.node)
        rdf = ReachingDefs(gf)
        sites = []
        for nn in gf.live:
            if nn.kind == "stmt" and isinstance(nn.ast, (ast.Return, ast.Assign)) and nn.ast.value is not None and js.const(nn.ast.value) is not None:
                sites.append((nn, js.const(nn.ast.value)))
        mapped_done, mapped_err = [], []
        for nn, k in sites:
            guards = [(t, pol) for t, pol in gf.guards(nn) if t.kind == "test"]
            gs = [(rdf.canon(t.ast, t), pol) for t, pol in guards]
            # the innermost guard decides: an exit-code test?
            code_guard = [(t, pol) for t, pol in guards if _is_code_zero_test(t.ast)]
            truthy_code = [(t, pol) for t, pol in guards if isinstance(t.ast, ast.Name) and any(_is_code_zero_test(t2.ast) and t2.ast.left.id == t.ast.id for t2 in gf.live if t2.kind == "test")]
            marker = any("donepath" in c and (c.endswith(".exists()") or c.endswith(".is_file()")) and pol is True for c, pol in gs)
            if k == "DONE":
                ok = marker or any(pol is True for _, pol in code_guard)
                chk.require(ok, chk.fkey(f, "DONE without evidence"), f"`{src(nn.ast)}` (line {nn.lineno}) decides DONE under {gs}: success may only come from exit code == 0 "
                            "(a missing code, None, is not a success) or from the success marker", chk.loc(f.module, nn.ast))
                if any(pol is True for _, pol in code_guard):
                    mapped_done.append(nn)
                    for t, pol in code_guard:
                        code_tests[(modq[1], t.id)] = (gf, rdf, t)
            elif k == "ERROR" and any(pol is False for _, pol in code_guard):
                mapped_err.append(nn)
            elif modq[1].endswith("aio_start") and not code_guard:
                chk.require(k in ("WAITING", "ERROR"), chk.fkey(f, f"verdict {k}"), f"`{src(nn.ast)}` (line {nn.lineno}): aio_start may only answer WAITING (start aborted), ERROR, or the mapped exit code", chk.loc(f.module, nn.ast))
            if truthy_code and k in ("DONE", "ERROR") and not code_guard:
                chk.violation(chk.fkey(f, "exit code tested by truthiness"), f"`{src(nn.ast)}` is decided by the truthiness of the exit code: None (unknown) would count as 0", chk.loc(f.module, nn.ast))
        if mapped_done:
            n_map += 1
            chk.require(bool(mapped_err), chk.fkey(f, "exit code mapping"), "a non-zero exit code must give ERROR", chk.loc(f.module, f.node))
    chk.min_instances(n_map, 2, "exit-code to state mappings")
    # aio_start never returns None and returns only WAITING / DONE / ERROR (or what aio_run returned)
    st = tree.func("scheduler.base", "Scheduler.aio_start")
    rs = return_set(js, st.node)
    chk.require("None" not in rs, chk.fkey(st, "return set"), f"aio_start may return None ({sorted(rs)}): aio_submit would report ERROR without the job being final", chk.loc(st.module, st.node),
                okmsg=f"returns {sorted(rs)}")
    # code unknown -> success marker decides: every definition through which the constant 0 can reach the exit-code
    # variable under `code is None` is guarded by the presence of the success marker
    zero_defs = []

    def collect(rd, name, at, seen):
        for d in rd.defs_at(name, at):
            if d.node is None or (d.node.id, d.name) in seen:
                continue
            seen.add((d.node.id, d.name))
            v = d.value
            if isinstance(v, ast.Constant) and v.value == 0 and type(v.value) is int:
                zero_defs.append((rd, d.node))
            elif isinstance(v, ast.Name):
                collect(rd, v.id, d.node, seen)

    for (fname, _), (gf, rdf, t) in code_tests.items():
        if fname.endswith("aio_start"):
            collect(rdf, t.ast.left.id, t, set())
            g = gf
    ok = bool(zero_defs)
    for rd, zn in zero_defs:
        gs = [(rd.canon(t.ast, t), pol) for t, pol in g.guards(zn) if t.kind == "test"]
        ok = ok and any("donepath" in c and (c.endswith(".is_file()") or c.endswith(".exists()")) and pol is True for c, pol in gs)
        # ... and only when the code is really unknown: a known exit code is never overridden
        ok = ok and any(c.endswith(" is None") and "donepath" not in c and pol is True for c, pol in gs)
    chk.require(ok, chk.fkey(st, "code unknown -> marker"), "when the exit code is unknown, success (code 0) must be decided by the presence of the success marker", chk.loc(st.module, st.node))


def r3_counter(chk: Check):
    """R3: unfinished-job counter pairing"""
    tree = chk.tree
    reg = tree.func("scheduler.base", "Scheduler.aio_registerJob")
    g = CFG(reg.node)
    rd = ReachingDefs(g)
    incs = [n for n in g.live if n.kind == "stmt" and isinstance(n.ast, ast.AugAssign) and src(n.ast.target).endswith("unfinishedJobs") and isinstance(n.ast.op, ast.Add)]
    # exitmode is never set to a true value (proved fact used to discard the exit-mode path)
    exit_true = []
    for f in tree.nontest_funcs():
        for t, v, s in attr_stores(f.node):
            if t.attr == "exitmode" and not (isinstance(v, ast.Constant) and v.value is False):
                exit_true.append((f, s))
    # every path to `return None` passes exactly one increment
    n_paths = 0
    for n in g.live:
        if n.kind == "stmt" and isinstance(n.ast, ast.Return):
            is_none = n.ast.value is None or (isinstance(n.ast.value, ast.Constant) and n.ast.value.value is None)
            paths = g.paths(g.entry, lambda x, n=n: x is n)
            for p in paths:
                conds = [(b.extra["test"], b.extra["polarity"]) for b in p if b.kind == "branch"]
                if not exit_true and any(dotted(t.ast) == "self.exitmode" and pol is True for t, pol in conds if t.kind == "test"):
                    continue  # dead: exitmode is never true
                n_paths += 1
                k = sum(1 for x in p if x in incs)
                desc = "; ".join(f"{src(t.ast) if t.kind == 'test' else 'loop'}={pol}" for t, pol in conds)
                key = chk.fkey(reg, ("returns None" if is_none else "returns a job") + " under " + desc[:120])
                if is_none:
                    chk.require(k == 1, key, f"aio_registerJob returns None (so aio_submit will run and decrement unfinishedJobs) on a path with {k} increment(s) "
                                f"of unfinishedJobs [{desc}]: the counter would drift and experiment.wait() hang or return early", chk.loc(reg.module, n.ast))
                else:
                    chk.require(k == 0, key, f"aio_registerJob returns an already registered job on a path with {k} increment(s) [{desc}]", chk.loc(reg.module, n.ast))
    # falling off the end without return
    chk.min_instances(n_paths, 3, "return paths of aio_registerJob")
    # Scheduler.submit schedules aio_submit iff None was returned
    sm = tree.func("scheduler.base", "Scheduler.submit")
    gs = CFG(sm.node)
    rds = ReachingDefs(gs)
    sites = gs.call_nodes(lambda c: (dotted(c.func) or "") == "self.aio_submit")
    chk.require(len(sites) == 1, chk.fkey(sm, "schedules aio_submit"), f"{len(sites)} scheduling sites of aio_submit in Scheduler.submit", chk.loc(sm.module, sm.node))
    for n, c in sites:
        conds = [(rds.canon(t.ast, t), pol) for t, pol in gs.guards(n) if t.kind == "test"]
        ok = any("aio_registerJob" in cc and pol is False for cc, pol in conds)
        chk.require(ok, chk.fkey(sm, "aio_submit only for a new registration"), f"aio_submit is scheduled under {conds}: it must run exactly when aio_registerJob returned None", chk.loc(sm.module, c))
    # who else touches the counter
    for f in tree.nontest_funcs():
        for n in body_walk(f.node):
            if isinstance(n, ast.AugAssign) and src(n.target).endswith("unfinishedJobs"):
                if f.key not in ("scheduler.base:Scheduler.aio_registerJob", "scheduler.base:Scheduler.aio_submit"):
                    chk.violation(chk.fkey(f, norm_stmt(n)), f"`{f.qual}` changes unfinishedJobs; only aio_registerJob (+1) and aio_submit (-1) may", chk.loc(f.module, n))
    # aio_submit: every normal exit passes exactly one decrement followed by notify_all under the exit condition
    sub = tree.func("scheduler.base", "Scheduler.aio_submit")
    g2 = CFG(sub.node)
    rd2 = ReachingDefs(g2)
    js = JobStates(tree)
    decs = [n for n in g2.live if n.kind == "stmt" and isinstance(n.ast, ast.AugAssign) and src(n.ast.target).endswith("unfinishedJobs") and isinstance(n.ast.op, ast.Sub)]
    chk.require(len(decs) == 1, chk.fkey(sub, "decrement sites"), f"{len(decs)} decrements of unfinishedJobs in aio_submit (expected exactly one)", chk.loc(sub.module, sub.node))
    if len(decs) == 1:
        d = decs[0]
        # dead exits (proved): `state is None` after aio_start
        retsets = {"aio_start": return_set(js, tree.func("scheduler.base", "Scheduler.aio_start").node)}
        for (p, l) in g2.exit.pred:
            dead = False
            for t, pol in g2.guards(p):
                if t.kind == "test" and isinstance(t.ast, ast.Compare) and isinstance(t.ast.left, ast.Name) and src(t.ast).endswith("is None") and pol is True:
                    vs = value_states(js, t.ast.left, t, rd2, retsets)
                    if "None" not in vs and "?" not in vs:
                        dead = True
            if dead:
                chk.ok(chk.fkey(sub, "exit " + p.label()[:50]), chk.loc(sub.module, p.ast or p.stmt), "dead by proved fact (aio_start never returns None)")
                continue
            ok = g2.dominates(d, p)
            chk.require(ok, chk.fkey(sub, "exit without decrement: " + p.label()[:50]),
                        "aio_submit can return without decrementing unfinishedJobs: experiment.wait() would hang", chk.loc(sub.module, p.ast or p.stmt))
        # not in a loop
        chk.require(d.id not in g2.reachable([m for m, _ in d.succ][0]) if d.succ else True, chk.fkey(sub, "decrement once"),
                    "the decrement of unfinishedJobs can execute more than once", chk.loc(sub.module, d.ast))
        # notify_all under `async with exitCondition` after the decrement
        notif = g2.call_nodes(lambda c: (dotted(c.func) or "").endswith("exitCondition.notify_all"))
        okn = False
        for n, c in notif:
            inside = any(isinstance(a, ast.AsyncWith) and any("exitCondition" in src(i.context_expr) for i in a.items) for a in _ancestors(c))
            if inside and g2.dominates(d, n):
                okn = True
        chk.require(okn, chk.fkey(sub, "notify after decrement"), "after the decrement, waiters must be notified with notify_all() inside `async with exitCondition`", chk.loc(sub.module, d.ast))


def _ancestors(node):
    p = getattr(node, "_parent", None)
    while p is not None:
        yield p
        p = getattr(p, "_parent", None)


def r4_waiters(chk: Check):
    tree = chk.tree
    w = tree.func("scheduler.base", "Job.wait")
    rets = [src(x.value) for x in body_walk(w.node) if isinstance(x, ast.Return) and x.value is not None]
    chk.require(rets == ["self._future.result()"], chk.fkey(w, "returns"), f"Job.wait returns {rets}; it must return the result of the aio_submit future", chk.loc(w.module, w.node))
    sm = tree.func("scheduler.base", "Scheduler.submit")
    ok = any(isinstance(s, ast.Assign) and src(s.targets[0]) == "job._future" and "self.aio_submit(job)" in src(s.value) for s in body_walk(sm.node))
    chk.require(ok, chk.fkey(sm, "future"), "job._future must be the future of aio_submit(job)", chk.loc(sm.module, sm.node))
    # live returns of aio_submit: `return job.state` (after the loop `while not job.state.finished()`)
    sub = tree.func("scheduler.base", "Scheduler.aio_submit")
    g = CFG(sub.node)
    rets = [n for n in g.live if n.kind == "stmt" and isinstance(n.ast, ast.Return)]
    live = [src(n.ast.value) for n in rets if n.ast.value is not None]
    chk.require("job.state" in live, chk.fkey(sub, "returns job.state"), f"aio_submit returns {live}", chk.loc(sub.module, sub.node))
    wh = [n for n in g.live if n.kind == "test" and isinstance(n.stmt, ast.While) and src(n.ast) == "job.state.finished()"]
    chk.require(len(wh) == 1, chk.fkey(sub, "start loop condition"), "the start loop must run while the state is not finished", chk.loc(sub.module, sub.node))
    # experiment.wait leaves its loop only if exitMode or both counters are zero, waits on the notified condition
    aw = tree.func("scheduler.base", "experiment.wait.awaitcompletion")
    ga = CFG(aw.node)
    import itertools
    from ..cfg import T

    def classify(n):
        if isinstance(n.stmt, ast.Assert):
            if n.kind != "test":
                return None
            # the branch that does not fail the assertion
            failing = [l for m, l in n.succ if any(isinstance(k.ast, ast.Assert) and k.kind == "stmt" for k, _ in m.succ)]
            return ("asserted", failing != [True])
        return {"self.exitMode": ("exit", True), T("self.unfinishedJobs == 0"): ("nojobs", True), T("self.taskOutputQueueSize == 0"): ("noqueue", True)}.get(src(n.ast))

    def stop(n):
        if any(tail(c) == "wait" and "exitCondition" in src(c.func) for c in n.calls()):
            return "waits"
        if (n.kind == "test" and src(n.ast) == "self.failedJobs") or n is ga.exit or n is ga.raise_:
            return "left"
        return None

    conds = []
    for ex, nj, nq in itertools.product([True, False], repeat=3):
        outs = walk_table(ga, ga.entry, classify, {"exit": ex, "nojobs": nj, "noqueue": nq, "asserted": True}, lambda n: [], stop)
        want_end = "left" if ex or (nj and nq) else "waits"
        for o in outs:
            unk = [u[0] for u in o.unknown if u[2] is None and not u[0].startswith("self.central is")]
            if o.end != want_end or unk:
                conds.append(f"exitMode={ex}, unfinished==0:{nj}, queue==0:{nq} -> {o.end}{' depending on ' + str(unk) if unk else ''}")
    chk.require(not conds, chk.fkey(aw, "loop exits"), f"experiment.wait must leave its loop exactly in exit mode, or with no unfinished job and an empty task-output queue, and otherwise wait on the exit condition; found {conds[:3]}", chk.loc(aw.module, aw.node))
    waits = ga.call_nodes(lambda c: (dotted(c.func) or "").endswith("exitCondition.wait"))
    chk.require(len(waits) == 1, chk.fkey(aw, "waits on exitCondition"), "experiment.wait must wait on the exit condition that aio_submit notifies", chk.loc(aw.module, aw.node))


def r5_no_lost_wakeup(chk: Check):
    """R5: after an aborted start readiness is re-derived from the authoritative counter"""
    tree = chk.tree
    sub = tree.func("scheduler.base", "Scheduler.aio_submit")
    g = CFG(sub.node)
    rd = ReachingDefs(g)
    js = JobStates(tree)
    retsets = {"aio_start": return_set(js, tree.func("scheduler.base", "Scheduler.aio_start").node)}
    # the store that records the verdict of aio_start
    stores = []
    for n in g.live:
        if n.kind == "stmt" and isinstance(n.ast, ast.Assign) and src(n.ast.targets[0]) == "job.state":
            vs = value_states(js, n.ast.value, n, rd, retsets)
            if "WAITING" in vs and not isinstance(n.ast.value, ast.Attribute):
                if any(src(d.value).find("aio_start") >= 0 for d in rd.defs_at(n.ast.value.id, n) if isinstance(n.ast.value, ast.Name) and d.value is not None):
                    stores.append(n)
    chk.min_instances(len(stores), 1, "store of the aio_start verdict into job.state")
    waits = [n for n in g.live if any((dotted(c.func) or "").endswith("_readyEvent.wait") for c in n.calls())]
    rederive = [n for n in g.live if n.kind == "test" and "unsatisfied" in src(n.ast)]
    # branches on which the state is known not to be WAITING need no re-derivation
    for b in g.live:
        if b.kind == "branch" and b.extra["test"].kind == "test":
            tsx = js.test_set(b.extra["test"].ast, "job")
            if tsx is not None:
                allowed = tsx if b.extra["polarity"] is True else js.all - tsx
                if "WAITING" not in allowed:
                    rederive.append(b)
    for s in stores:
        for w in waits:
            ok = g.must_pass(s, w, rederive) if s.succ else True
            # the start node itself must not count as "passed"
            chk.require(ok, chk.fkey(sub, "aborted start -> next wait"),
                        "after an aborted start (aio_start returned WAITING, decided before its last await) aio_submit goes back to waiting for the ready "
                        "event without re-deriving readiness from job.unsatisfied: a notification that arrived during the abort is overwritten and the job sleeps forever",
                        chk.loc(sub.module, s.ast))
    # ... and the re-derivation has its effect: WAITING with every dependency satisfied => READY and the ready event set before the next wait
    def make_classify(state):
        def classify(n):
            ts = js.test_set(n.ast, "job")
            if ts is not None:
                return ("#", state in ts)
            if src(n.ast) == T("job.unsatisfied == 0"):
                return ("zero", True)
            return None
        return classify

    def ready_store(n):
        return n.kind == "stmt" and isinstance(n.ast, ast.Assign) and src(n.ast.targets[0]) == "job.state" and value_states(js, n.ast.value, n, rd, retsets) == {"READY"}

    def events(n):
        return ["wake"] if any((dotted(c.func) or "").endswith("_readyEvent.set") for c in n.calls()) else []

    def stop_a(n):
        if ready_store(n):
            return "ready"
        if n in waits:
            return "wait"
        if n is g.exit or n is g.raise_:
            return "leaves"
        return None

    def stop_b(n):
        if n in waits:
            return "wait"
        if n is g.exit or n is g.raise_:
            return "leaves"
        return None

    for s_ in stores:
        for m, _l in s_.succ:
            # phase A: the state is WAITING and every dependency is satisfied
            for o in walk_table(g, m, make_classify("WAITING"), {"#": True, "zero": True}, events, stop_a):
                ok = o.end == "ready"
                woke = "wake" in o.events
                if ok and not woke:
                    # phase B: the state is READY until the next wait
                    rs = [n for n in g.live if ready_store(n) and n.id in g.reachable(m)]
                    for r_ in rs:
                        for m2, _ in r_.succ:
                            for o2 in walk_table(g, m2, make_classify("READY"), {"#": True, "zero": True}, events, stop_b):
                                if o2.end == "wait" and "wake" not in o2.events:
                                    ok = False
                if o.end == "leaves":
                    continue
                chk.require(ok, chk.fkey(sub, "aborted start with satisfied dependencies -> READY + wake"),
                            f"after an aborted start with every dependency satisfied meanwhile, aio_submit reaches {'the next wait' if o.end == 'wait' else 'READY'} "
                            f"{'without setting the ready event' if o.end == 'ready' else 'without making the job READY'}: "
                            "the job must be made READY and its ready event set, or it sleeps forever", chk.loc(sub.module, s_.ast))
    # a job without dependencies is READY and woken before the first suspension point
    def cl0(n):
        t = src(n.ast)
        if t in ("job.dependencies", T("len(job.dependencies) > 0")):
            return ("deps", True)
        if t == T("len(job.dependencies) == 0"):
            return ("deps", False)
        return None

    def ev0(n):
        out = []
        if n.kind == "stmt" and isinstance(n.ast, ast.Assign) and src(n.ast.targets[0]) == "job.state":
            out.append("state " + "|".join(sorted(value_states(js, n.ast.value, n, rd, retsets))))
        if any((dotted(c.func) or "").endswith("_readyEvent.set") for c in n.calls()):
            out.append("wake")
        return out

    outs0 = walk_table(g, g.entry, cl0, {"deps": False}, ev0, lambda n: "await" if n.has_await() else ("leaves" if n is g.exit or n is g.raise_ else None))
    bad0 = [list(o.events) for o in outs0 if o.end == "await" and not ("state READY" in o.events and "wake" in o.events)]
    chk.require(bool(outs0) and not bad0, chk.fkey(sub, "no dependencies -> READY + wake"),
                f"a job without dependencies reaches the first suspension point of aio_submit having done {bad0[:1]}: it must be READY with its ready event set (nothing else will ever wake it)",
                chk.loc(sub.module, sub.node))
    # registrations are for life: nothing removes a dependency from its origin's dependents (a later release would not reach the job)
    pruned = []
    for ff in tree.nontest_funcs():
        for c in fn_calls(ff.node):
            if isinstance(c.func, ast.Attribute) and c.func.attr in ("discard", "remove", "clear", "pop", "difference_update") and "dependents" in src(c.func.value):
                pruned.append((ff, c))
    for ff, c in pruned:
        chk.violation(chk.fkey(ff, "removes a dependent"), f"`{ff.qual}` removes entries from a resource's dependents (`{src(c)}`): after an aborted start (another dependency could not be locked) the job is "
                      "no longer notified when that resource is released and waits forever", chk.loc(ff.module, c))
    if not pruned:
        chk.ok("scheduler:dependents never pruned", "", "no removal from any `dependents` collection")
    # dependency registration precedes the first check (a release between check and registration would be lost)
    found_inline = False
    for n in g.live:
        if n.kind == "for" and src(n.ast.iter) == "job.dependencies":
            body_nodes = g.reachable([m for m, l in n.succ if l == "loop"][0], avoid=[n])
            adds = [x for x in g.live if x.id in body_nodes and any((dotted(c.func) or "").endswith("dependents.add") for c in x.calls())]
            checks = [x for x in g.live if x.id in body_nodes and any((dotted(c.func) or "").endswith(".check") for c in x.calls())]
            if not (adds and checks):
                continue  # delegated to a helper: decided by the generic rule below
            found_inline = True
            chk.require(all(any(g.dominates(a, c) for a in adds) for c in checks), chk.fkey(sub, "register before check"),
                        "a dependency must be registered with its origin (dependents.add) before its first check(): a token released in between is never re-notified and the job waits forever",
                        chk.loc(sub.module, n.ast))
    # same discipline for any helper that both registers and checks
    n_helpers = 0
    for f in tree.nontest_funcs():
        if f.key == sub.key:
            continue
        cs = [c for c in fn_calls(f.node) if (dotted(c.func) or "").endswith("dependents.add")]
        ks = [c for c in fn_calls(f.node) if (dotted(c.func) or "").endswith(".check") or dotted(c.func) == "self.check"]
        if cs and ks:
            n_helpers += 1
            gf = CFG(f.node)
            ok = all(any(gf.dominates(a, k) for a in gf.nodes_of(c1)) for c2 in ks for k in gf.nodes_of(c2) for c1 in cs[:1])
            chk.require(ok, chk.fkey(f, "register before check"), f"`{f.qual}` checks a dependency before registering it with its origin (lost notification window)", chk.loc(f.module, f.node))
    if not found_inline and not n_helpers:
        raise Undecided("no site registers a dependency with its origin and checks it (dependents.add / check)")


def r7_release_wakes(chk: Check):
    from . import c09

    c09.r2_release_restores_and_notifies(chk)


def r6_submit_cannot_die_early(chk: Check):
    from . import c16

    c16.r3_linking(chk)


def r8_nothing_leaks_on_abort(chk: Check):
    """A lock kept by an aborted start, or a holding of a dead job that is never reclaimed, leaves the waiting jobs of that token
    WAITING for ever: no final state, experiment.wait hangs (= C09.R1 pairing, C09.R3 watcher)"""
    from . import c09

    c09.r1_pairing(chk)
    c09.r3_foreign_holdings_watched(chk)
    # a release must not be able to die half-way (a closed event loop among the dependents' loops): the job would never reach its final state
    c09.event_loops_not_closed(chk)


RULES = [
    ("R1", "final states are absorbing: may-set typestate of Job.state over aio_submit (await-atomic, effects of other writers at awaits) and over the any-time writer dependencychanged; only known writers store the state; exits of aio_submit are final", r1_absorbing),
    ("R2", "truthful mapping: DONE exactly when exit code == 0 (or, code unknown, success marker present); aio_start never returns None", r2_truthful),
    ("R3", "unfinished-job counter: every path of aio_registerJob returning None passes exactly one increment; aio_submit is scheduled only then; every live exit of aio_submit passes the single decrement followed by notify_all under the exit condition", r3_counter),
    ("R4", "waiters: Job.wait returns the aio_submit future whose result is job.state after the start loop; experiment.wait leaves only on exit mode or zero counters and waits on the notified condition", r4_waiters),
    ("R6", "aio_submit does not die before its bookkeeping: the index link of a re-submitted job is replaced (is_symlink -> unlink -> symlink_to), not created blindly (= C16.R3)", r6_submit_cannot_die_early),
    ("R7", "a token release re-checks every dependent unconditionally (= C09.R2): a notification is never dropped because of the target job's momentary state", r7_release_wakes),
    ("R8", "an aborted start gives back every lock it took and holdings of dead jobs are reclaimed on every path (= C09.R1, C09.R3): otherwise waiting jobs never become final", r8_nothing_leaks_on_abort),
    ("R5", "no lost wake-up: after an aborted start readiness is re-derived from job.unsatisfied before the next wait; dependencies are registered before their first check", r5_no_lost_wakeup),
]
