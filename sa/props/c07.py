"""C07 -- failures are contained: dependents are cancelled, others still run."""

from __future__ import annotations

import ast

from ..astq import attr_stores, body_walk, dotted, src, walk_local, norm_stmt, fn_calls, tail
from ..cfg import CFG
from ..dataflow import ReachingDefs, walk_table
from ..loader import Undecided
from ..report import Check
from ..sched import JobStates
from . import c04, c06

ASSUMPTIONS = [
    "all completion orders at run time are not enumerated; the cancellation block, its frame condition and the propagation to dependents are decided structurally",
] + c06.ASSUMPTIONS[:1]


def ready_on_satisfaction(chk: Check):
    """dependencychanged: the last dependency becoming satisfied makes a WAITING job READY and wakes it; otherwise the state is not touched"""
    tree = chk.tree
    js = JobStates(tree)
    f = tree.func("scheduler.base", "Job.dependencychanged")
    g = CFG(f.node)

    def classify(n):
        t = src(n.ast)
        if t == "status == DependencyStatus.FAIL":
            return ("fail", True)
        ts = js.test_set(n.ast, "self")
        if ts is not None:
            if ts == js.final:
                return ("finished", True)
            if ts == js.all - js.final:
                return ("finished", False)
            if ts == frozenset({"WAITING"}):
                return ("waiting", True)
            return None
        if t == "self.unsatisfied == 0":
            return ("zero", True)
        return None

    def events(n):
        out = []
        if n.kind == "stmt":
            s = src(n.ast)
            if s.startswith("self.state ="):
                out.append("state " + s.split("=", 1)[1].strip())
            if s == "self._readyEvent.set()":
                out.append("wake")
        return out

    stop = lambda n: "exit" if n is g.exit else None
    loc = chk.loc(f.module, f.node)
    for zero, waiting in ((True, True), (True, False), (False, True)):
        outs = walk_table(g, g.entry, classify, {"fail": False, "finished": not waiting, "waiting": waiting, "zero": zero}, events, stop)
        for o in outs:
            ev = list(o.events)
            if zero and waiting:
                ok = ev == ["state JobState.READY", "wake"] and not o.unknown
                chk.require(ok, chk.fkey(f, "ready when satisfied"), f"the last dependency of a waiting job becoming satisfied does {ev or ['nothing']}"
                            f"{' depending on ' + str([u[0] for u in o.unknown]) if o.unknown else ''}; expected: state READY, then the ready event (the job would otherwise wait forever)", loc)
            else:
                ok = not [e for e in ev if e.startswith("state")] and not o.unknown
                chk.require(ok, chk.fkey(f, f"untouched when zero={zero} waiting={waiting}"), f"a non-failing notification with unsatisfied==0:{zero}, waiting:{waiting} does {ev}; the state must not change", loc)


def r2_cancellation(chk: Check):
    tree = chk.tree
    js = JobStates(tree)
    f = tree.func("scheduler.base", "Job.dependencychanged")
    g = CFG(f.node)

    def classify(n):
        t = src(n.ast)
        if t == "status == DependencyStatus.FAIL":
            return ("fail", True)
        ts = js.test_set(n.ast, "self")
        if ts is not None:
            if ts == js.final:
                return ("finished", True)
            if ts == js.all - js.final:
                return ("finished", False)
            if ts == frozenset({"WAITING"}):
                return ("waiting", True)
            return None
        if t == "self.unsatisfied == 0":
            return ("zero", True)
        return None

    def events(n):
        out = []
        if n.kind == "stmt":
            s = src(n.ast)
            if s == "self.state = JobState.ERROR":
                out.append("ERROR")
            elif s.startswith("self.state ="):
                out.append("state:" + s)
            if s == "self.failure_status = JobFailureStatus.DEPENDENCY":
                out.append("DEPENDENCY")
            if s == "self._readyEvent.set()":
                out.append("wake")
        return out

    stop = lambda n: "exit" if n is g.exit else None
    # FAIL and not finished (job is WAITING: unsatisfied > 0 since the failed dependency is not OK)
    outs = walk_table(g, g.entry, classify, {"fail": True, "finished": False, "waiting": True, "zero": False}, events, stop)
    for o in outs:
        ok = {"ERROR", "DEPENDENCY", "wake"} <= set(o.events) and not [e for e in o.events if e.startswith("state:")] and not o.unknown
        chk.require(ok, chk.fkey(f, "FAIL while not finished"), f"a failed dependency of an unfinished job does {list(o.events)}"
                    f"{' depending on ' + str([u[0] for u in o.unknown]) if o.unknown else ''}; expected: state ERROR, failure_status DEPENDENCY, wake the job", chk.loc(f.module, f.node))
    # FAIL and finished: nothing is written
    outs = walk_table(g, g.entry, classify, {"fail": True, "finished": True, "waiting": False, "zero": False}, events, stop)
    for o in outs:
        chk.require(not o.events and not o.unknown, chk.fkey(f, "FAIL while finished"), f"a failed dependency notified to a finished job does {list(o.events)}: a job that already succeeded (or failed) must be left alone", chk.loc(f.module, f.node))
    # frame condition: only fields of self are written
    bad = [src(t) for t, v, s in attr_stores(f.node) if dotted(t.value) != "self"]
    chk.require(not bad, chk.fkey(f, "writes only self"), f"dependencychanged writes {bad}: cancelling a job must not touch any other job (siblings keep running)", chk.loc(f.module, f.node))
    nested = {ff.node.name for ff in tree.funcs.values() if ff.parent is f}
    # module-level helpers called by plain name count as nested ones: they must be as pure
    called = {c.func.id for c in fn_calls(f.node) if isinstance(c.func, ast.Name)}
    modlevel = [ff for ff in tree.funcs.values() if ff.parent is None and ff.cls is None and ff.module is f.module and ff.node.name in called]
    nested |= {ff.node.name for ff in modlevel}
    for ff in list(tree.funcs.values()):
        if ff.parent is f or ff in modlevel:
            inner = [src(c) for c in fn_calls(ff.node) if not (isinstance(c.func, ast.Name) and c.func.id in ("int", "bool", "len", "isinstance"))] + [src(t) for t, v, s_ in attr_stores(ff.node)]
            chk.require(not inner, chk.fkey(f, f"nested helper {ff.node.name} is pure"), f"nested helper `{ff.node.name}` of dependencychanged has effects {inner}", chk.loc(f.module, ff.node))
    calls = [src(c) for c in fn_calls(f.node) if not src(c).startswith(("logger.", "self._readyEvent.set", "self.state.")) and not (isinstance(c.func, ast.Name) and c.func.id in nested)]
    chk.require(not calls, chk.fkey(f, "no other effects"), f"dependencychanged calls {calls}", chk.loc(f.module, f.node))


def r3_never_launched(chk: Check):
    c04.r1_launch_gating(chk)
    c06.r1_absorbing(chk)


def r4_propagation(chk: Check):
    tree = chk.tree
    sub = tree.func("scheduler.base", "Scheduler.aio_submit")
    g = CFG(sub.node)
    loops = [n for n in g.live if n.kind == "for" and src(n.ast.iter) == "dependents"]
    withs = [n for n in g.live if n.kind == "with_enter" and src(n.ast.context_expr) == "job.dependents"]
    chk.require(len(loops) == 1 and len(withs) == 1, chk.fkey(sub, "dependents loop"), "aio_submit must iterate over job.dependents when the job is final", chk.loc(sub.module, sub.node))
    if len(loops) != 1:
        return
    lp = loops[0]
    calls = [c for s in lp.ast.body for c in walk_local(s) if isinstance(c, ast.Call)]
    v = src(lp.ast.target)
    ok = any(src(c) == f"{v}.check()" or (tail(c) in ("call_soon", "call_soon_threadsafe") and len(c.args) == 1 and not c.keywords and src(c.args[0]) == f"{v}.check") for c in calls)
    chk.require(ok, chk.fkey(sub, "each dependent is re-checked"), f"the dependents loop does {[src(c) for c in calls if not src(c).startswith('logger')]}: every dependent must be re-checked (called or scheduled) with no extra argument", chk.loc(sub.module, lp.ast))
    # on every live normal exit
    js = JobStates(tree)
    from ..sched import return_set, value_states
    rd = ReachingDefs(g)
    retsets = {"aio_start": return_set(js, tree.func("scheduler.base", "Scheduler.aio_start").node)}
    for (p, l) in g.exit.pred:
        dead = False
        for t, pol in g.guards(p):
            if t.kind == "test" and isinstance(t.ast, ast.Compare) and isinstance(t.ast.left, ast.Name) and src(t.ast).endswith("is None") and pol is True:
                vs = value_states(js, t.ast.left, t, rd, retsets)
                if "None" not in vs and "?" not in vs:
                    dead = True
        if dead:
            continue
        chk.require(g.dominates(lp, p), chk.fkey(sub, "dependents notified before exit " + p.label()[:40]), "aio_submit can return without notifying the dependents of the finished job", chk.loc(sub.module, p.ast or p.stmt))
    # after the final state: the loop is after the start loop
    wh = [n for n in g.live if n.kind == "test" and isinstance(n.stmt, ast.While) and src(n.ast) == "job.state.finished()"]
    if wh:
        chk.require(any(g.dominates(b, lp) for b, l in wh[0].succ if l is True), chk.fkey(sub, "after final"), "dependents are notified before the job is final", chk.loc(sub.module, lp.ast))


def r5_reporting(chk: Check):
    tree = chk.tree
    sub = tree.func("scheduler.base", "Scheduler.aio_submit")
    g = CFG(sub.node)
    st = [n for n in g.live if n.kind == "stmt" and isinstance(n.ast, ast.Assign) and src(n.ast.targets[0]).startswith("self.xp.failedJobs[")]
    chk.require(len(st) == 1, chk.fkey(sub, "failedJobs store"), "exactly one store into failedJobs expected", chk.loc(sub.module, sub.node))
    for n in st:
        gs = [(src(t.ast), pol) for t, pol in g.guards(n) if t.kind == "test" and not isinstance(t.stmt, ast.While)]
        chk.require(gs == [("job.state != JobState.DONE", True)] or gs == [("job.state == JobState.DONE", False)], chk.fkey(sub, "failed iff not DONE"),
                    f"a job is recorded as failed under {gs}: it must be recorded exactly when its final state is not DONE", chk.loc(sub.module, n.ast))
    aw = tree.func("scheduler.base", "experiment.wait.awaitcompletion")
    ga = CFG(aw.node)
    raises = [n for n in ga.live if n.kind == "stmt" and isinstance(n.ast, ast.Raise) and "FailedExperiment" in src(n.ast)]
    chk.require(len(raises) == 1, chk.fkey(aw, "raises FailedExperiment"), "experiment.wait must raise FailedExperiment", chk.loc(aw.module, aw.node))
    for n in raises:
        gs = [(src(t.ast), pol) for t, pol in ga.guards(n) if t.kind == "test" and not isinstance(t.stmt, (ast.Assert, ast.While))]
        gs = [x for x in gs if x[0] not in ("self.exitMode", "self.unfinishedJobs == 0", "self.taskOutputQueueSize == 0")]
        chk.require(gs == [("self.failedJobs", True)], chk.fkey(aw, "fails iff failedJobs"), f"FailedExperiment is raised under {gs}: exactly when some job failed", chk.loc(aw.module, n.ast))
    failed_jobs_only_grow(chk)
    ex = tree.func("scheduler.base", "experiment.__exit__")
    ge = CFG(ex.node)
    waits = ge.call_nodes(lambda c: src(c) == "self.wait()")
    chk.require(len(waits) == 1, chk.fkey(ex, "waits"), "__exit__ must wait for the jobs", chk.loc(ex.module, ex.node))
    for n, c in waits:
        gs = [(src(t.ast), pol) for t, pol in ge.guards(n) if t.kind == "test"]
        chk.require(("exc_type", False) in gs, chk.fkey(ex, "waits iff no exception"), f"__exit__ waits under {gs}", chk.loc(ex.module, c))
        # ... and under no other condition: wait() is where a failed job is turned into FailedExperiment, also when everything has already ended
        extra = [x for x in gs if "exc_type" not in x[0] and "exc_value" not in x[0]]
        chk.require(not extra, chk.fkey(ex, "always waits when no exception"), f"__exit__ skips wait() under {extra}: a failure of a job that ended before the block is left is never reported", chk.loc(ex.module, c))


def r6_others_complete(chk: Check):
    c06.r3_counter(chk)


def r7_done_is_truthful(chk: Check):
    c06.r2_truthful(chk)


def failed_jobs_only_grow(chk: Check):
    """what decides the experiment's verdict (failedJobs) is reset only when the experiment starts"""
    tree = chk.tree
    bad = []
    for ff in tree.nontest_funcs():
        if not ff.module.name.startswith("scheduler"):
            continue
        for t, v, s_ in attr_stores(ff.node):
            if t.attr == "failedJobs" and not ff.key.endswith("experiment.__enter__"):
                bad.append((ff, s_))
        for c in fn_calls(ff.node):
            if isinstance(c.func, ast.Attribute) and c.func.attr in ("clear", "pop", "popitem") and src(c.func.value).endswith("failedJobs"):
                bad.append((ff, c))
        for x in ast.walk(ff.node):
            if isinstance(x, ast.Delete) and any("failedJobs" in src(t) for t in x.targets):
                bad.append((ff, x))
    for ff, x in bad:
        chk.violation(chk.fkey(ff, "forgets failed jobs"), f"`{ff.qual}` resets / removes recorded failures (`{src(x)[:80]}`): a later wait() -- the one of __exit__ -- then reports success although jobs failed", chk.loc(ff.module, x))
    if not bad:
        chk.ok("scheduler:failedJobs only grows", "", "failures are recorded by aio_submit and reset only by experiment.__enter__")


def r9_earlier_success_survives(chk: Check):
    """`unless it had already succeeded in an earlier run`: registering the dependencies may flag the job ERROR (a dependency that failed before
    the submission); the success marker must be consulted after that, whatever the state, and win"""
    tree = chk.tree
    sub = tree.func("scheduler.base", "Scheduler.aio_submit")
    g = CFG(sub.node)
    loc = chk.loc(sub.module, sub.node)
    regs = [n for n in g.live if n.kind == "for" and src(n.ast.iter) == "job.dependencies"]
    chk.min_instances(len(regs), 1, "dependency registration loop in aio_submit")
    lts = [n for n in g.live if n.kind == "test" and isinstance(n.stmt, ast.While) and src(n.ast) == "job.state.finished()"]
    chk.require(len(lts) == 1, chk.fkey(sub, "start loop"), "the start loop `while not job.state.finished()` was not found", loc)
    if len(lts) != 1:
        return
    tests = []
    for n in g.live:
        if n.kind == "test" and src(n.ast) in ("job.donepath.exists()", "job.donepath.is_file()"):
            nxt = [m for b, l in n.succ if l is True for m, _ in b.succ]
            if any(m.kind == "stmt" and src(m.ast) == "job.state = JobState.DONE" for m in nxt):
                if not any(t.kind == "test" and "state" in src(t.ast) for t, _ in g.guards(n)):
                    tests.append(n)
    for lp in regs:
        done = [b for b in g.live if b.kind == "branch" and b.extra["test"] is lp and b.extra["polarity"] == "done"]
        ok = bool(tests) and all(g.must_pass(b, lts[0], tests) for b in done)
        chk.require(ok, chk.fkey(sub, "success marker wins over a cancelled dependency"),
                    "after the dependencies are registered (which may flag the job ERROR) the start loop is reachable without an unconditional look at the success marker: "
                    "a job that succeeded in an earlier run is reported failed, and its own dependents are cancelled", loc)


def r10_failed_start_gives_back(chk: Check):
    """`every job that does not depend on it still runs to completion`: a start that fails gives back what it locked (= C09.R1), or jobs that only
    share a token with the failed one wait for ever"""
    from . import c09

    c09.r1_pairing(chk)


RULES = [
    ("R1", "a dependency on a job is FAIL exactly when the upstream job is in ERROR (= C04.R3)", c04.r3_status_mapping),
    ("R2", "cancellation block: FAIL and not finished => ERROR + failure_status DEPENDENCY + wake-up; FAIL on a finished job writes nothing; only fields of self are written", r2_cancellation),
    ("R3", "a cancelled job is never launched: launch needs READY (C04.R1) and ERROR is absorbing, as is DONE (C06.R1 typestate)", r3_never_launched),
    ("R4", "on every live exit of aio_submit, after the state is final, every dependent is re-checked", r4_propagation),
    ("R5", "reporting: failedJobs records exactly the jobs not DONE; wait() raises iff failedJobs; __exit__ waits iff no exception escaped", r5_reporting),
    ("R8", "a dependency that already failed when the dependent is submitted cancels it too: every dependency is registered, counted and checked at submission (= C04.R4)", c04.r4_registration_order),
    ("R9", "an earlier success survives: after dependency registration every path to the start loop consults the success marker unconditionally (not only when the state is still open) and stores DONE", r9_earlier_success_survives),
    ("R10", "a failed start gives back every lock it took (= C09.R1): independent jobs sharing a token with the failed job still run", r10_failed_start_gives_back),
    ("R7", "a job is DONE only if its process exited with code 0 or its success marker exists (= C06.R2): a killed job is never reported as a success to its dependents or to the experiment", r7_done_is_truthful),
    ("R6", "jobs that do not depend on a failure run to completion: the experiment waits for every registered job (counter pairing, = C06.R3)", r6_others_complete),
]
