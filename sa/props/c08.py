"""C08 -- jobs under a token never hold more than its capacity (structural induction step)."""

from __future__ import annotations

import ast
import re

from ..astq import attr_stores, body_walk, dotted, src, walk_local, norm_stmt, fn_calls
from ..cfg import CFG
from ..dataflow import ReachingDefs
from ..loader import Undecided
from ..report import Check

ASSUMPTIONS = [
    "fasteners.InterProcessLock is a mutex across processes and threading.Lock across threads (trusted)",
    "only the induction step is decided (each operation preserves 'sum of token files <= total' if these rules hold); "
    "heterogeneous requests under all interleavings, and races through the file system observer (where `available` is advisory), are not enumerated",
]


from ..astq import tail  # noqa: E402


def _anc(node):
    p = getattr(node, "_parent", None)
    while p is not None:
        yield p
        p = getattr(p, "_parent", None)


def _with_locks(node, names):
    """names of context expressions of enclosing with statements"""
    held = set()
    for a in _anc(node):
        if isinstance(a, (ast.With, ast.AsyncWith)):
            for i in a.items:
                held.add(src(i.context_expr))
    return held


def r1_acquire_critical_section(chk: Check):
    tree = chk.tree
    for qual, need in (("CounterToken.acquire", {"self.lock", "self.ipc_lock"}), ("ProcessCounterToken.acquire", {"self.lock"})):
        f = tree.func("tokens", qual)
        g = CFG(f.node)
        loc = chk.loc(f.module, f.node)
        tests = [n for n in g.live if n.kind == "test" and "available" in src(n.ast) and "count" in src(n.ast)]
        chk.require(len(tests) == 1, chk.fkey(f, "capacity test"), f"{qual}: expected exactly one test of available against the requested count, found {len(tests)}", loc)
        if len(tests) != 1:
            continue
        t = tests[0]
        txt = src(t.ast)
        ok_form = txt in ("self.available < dependency.count", "dependency.count > self.available")
        ok_form_neg = txt in ("self.available >= dependency.count", "dependency.count <= self.available")
        chk.require(ok_form or ok_form_neg, chk.fkey(f, "capacity test form"), f"{qual}: capacity test is `{txt}`; the request must be refused exactly when available < count", loc)
        refuse_pol = True if ok_form else False
        # refusal raises LockError; grant decrements and (file token) creates the token file
        rb = [b for b, l in t.succ if l is refuse_pol]
        gb = [b for b, l in t.succ if l is (not refuse_pol)]
        raises = [n for n in g.live if n.kind == "stmt" and isinstance(n.ast, ast.Raise) and "LockError" in src(n.ast)]
        chk.require(bool(raises) and all(any(g.dominates(b, r) for b in rb) for r in raises) and rb and not (g.exit.id in g.reachable(rb[0], follow_exc=False)),
                    chk.fkey(f, "refusal raises"), f"{qual}: when available < count the request must raise LockError on every path", loc)
        decs = [n for n in g.live if n.kind == "stmt" and isinstance(n.ast, ast.AugAssign) and src(n.ast.target) == "self.available" and isinstance(n.ast.op, ast.Sub)]
        chk.require(len(decs) == 1 and src(decs[0].ast.value) == "dependency.count" and any(g.dominates(b, decs[0]) for b in gb), chk.fkey(f, "grant decrements"),
                    f"{qual}: a granted request must decrement available by the requested count, only on the granted branch", loc)
        # the count tested is the recount: nothing else writes the availability in acquire (a credit before the test lets a request through that does not fit)
        writes = [n for n in g.live if n.kind == "stmt" and ((isinstance(n.ast, ast.AugAssign) and src(n.ast.target) == "self.available") or
                                                             (isinstance(n.ast, ast.Assign) and any(src(x) == "self.available" for x in n.ast.targets))) and n not in decs]
        chk.require(not writes, chk.fkey(f, "availability only decremented on grant"), f"{qual} also writes self.available at {[src(n.ast)[:50] for n in writes]}: the capacity test must be made on the recounted value", loc)
        held_stmt = t.stmt
        held = _with_locks(t.ast, need) | (_with_locks(t.stmt, need) if t.stmt is not None else set())
        if t.stmt is not None and isinstance(t.stmt, (ast.With, ast.AsyncWith)):
            held |= {src(i.context_expr) for i in t.stmt.items}
        chk.require(need <= held, chk.fkey(f, "test under locks"), f"{qual}: the capacity test is made under {sorted(held)}; it needs {sorted(need)}", loc)
        for d in decs:
            chk.require(need <= _with_locks(d.ast, need), chk.fkey(f, "decrement under locks"), f"{qual}: the decrement is not under {sorted(need)}", loc)
        if qual.startswith("CounterToken"):
            upd = g.call_nodes(lambda c: dotted(c.func) == "self._update")
            chk.require(len(upd) >= 1 and any(g.dominates(u, t) for u, _ in upd) and all(need <= _with_locks(c, need) for _, c in upd), chk.fkey(f, "recount before test"),
                        "CounterToken.acquire must recount holdings from disk (_update) under both locks before testing the capacity", loc)
            cr = g.call_nodes(lambda c: src(c.func) == "TokenFile.create")
            chk.require(len(cr) == 1 and any(g.dominates(b, cr[0][0]) for b in gb) and need <= _with_locks(cr[0][1], need), chk.fkey(f, "file created on grant, under locks"),
                        "the token file must be created only on the granted branch, inside both locks", loc)
            if len(cr) == 1:
                # not reachable from the refusal
                chk.require(not rb or cr[0][0].id not in g.reachable(rb[0]), chk.fkey(f, "no file on refusal"), "a token file can be created on the refused path", loc)


def r2_recount(chk: Check):
    tree = chk.tree
    f = tree.func("tokens", "CounterToken._update")
    g = CFG(f.node)
    loc = chk.loc(f.module, f.node)
    tot = [n for n in g.live if n.kind == "stmt" and isinstance(n.ast, ast.Assign) and src(n.ast.targets[0]) == "self.total"]
    chk.require(len(tot) == 1 and "infopath.read_text()" in src(tot[0].ast.value) and g.must_pass(g.entry, g.exit, tot), chk.fkey(f, "total re-read"),
                "_update must re-read the total from token.info on every path", loc)
    av = [n for n in g.live if n.kind == "stmt" and isinstance(n.ast, ast.Assign) and src(n.ast.targets[0]) == "self.available" and src(n.ast.value) == "self.total"]
    chk.require(len(av) == 1 and g.must_pass(g.entry, g.exit, av), chk.fkey(f, "available := total"), "_update must restart from available = total on every path", loc)
    loops = [n for n in g.live if n.kind == "for" and "glob('*.token')" in src(n.ast.iter) and src(n.ast.iter).startswith("self.path.")]
    chk.require(len(loops) == 1 and g.must_pass(g.entry, g.exit, loops), chk.fkey(f, "scan of token files"),
                "_update must scan every *.token file of the token directory on every path (an early return makes acquire decide on a stale count while another process took tokens)", loc)
    if len(loops) == 1:
        lp = loops[0]
        body = g.reachable([m for m, l in lp.succ if l == "loop"][0], avoid=[lp])
        sub = [n for n in g.live if n.id in body and n.kind == "stmt" and isinstance(n.ast, ast.AugAssign) and src(n.ast.target) == "self.available" and isinstance(n.ast.op, ast.Sub)]
        ok = len(sub) == 1 and src(sub[0].ast.value).endswith(".count") and g.must_pass([m for m, l in lp.succ if l == "loop"][0], lp, sub)
        chk.require(ok, chk.fkey(f, "subtract every holding"), "every token file's count must be subtracted from available on every iteration", loc)
        chk.require(not any(n.id in body and n.kind == "stmt" and isinstance(n.ast, (ast.Continue, ast.Break)) for n in g.live), chk.fkey(f, "no skipped file"), "_update skips some token files (continue/break)", loc)
    # no early return
    rets = [n for n in g.live if n.kind == "stmt" and isinstance(n.ast, ast.Return)]
    chk.require(not rets, chk.fkey(f, "no early return"), "_update returns early on some path: the recount must be unconditional", loc)


def r3_writers(chk: Check):
    tree = chk.tree
    n = 0
    for f in tree.nontest_funcs():
        for c in fn_calls(f.node):
            if src(c.func) == "TokenFile.create" or (tail(c) == "create" and "TokenFile" in src(c.func)):
                n += 1
                chk.require(f.key == "tokens:CounterToken.acquire", chk.fkey(f, "creates a token file"), f"`{f.qual}` creates a token file; only CounterToken.acquire (under both locks, after the recount) may", chk.loc(f.module, c))
    chk.min_instances(n, 1, "TokenFile.create call sites")
    # writers of *.token paths: only TokenFile.create opens a token path for writing
    for f in tree.nontest_funcs():
        if f.module.name != "tokens":
            continue
        for c in fn_calls(f.node):
            if tail(c) in ("open", "write_text") and isinstance(c.func, ast.Attribute):
                mode_w = tail(c) == "write_text" or any(isinstance(a, ast.Constant) and isinstance(a.value, str) and ("w" in a.value or "a" in a.value) for a in c.args)
                if mode_w and f.key not in ("tokens:TokenFile.create",) and "infopath" not in src(c.func):
                    chk.violation(chk.fkey(f, "writes a file in the token directory"), f"`{f.qual}` writes `{src(c.func.value)}`", chk.loc(f.module, c))
    chk.ok("tokens: writers of the token directory", "", "TokenFile.create (holdings) and CounterToken.__init__ (token.info)")


def r4_hold_for_whole_run(chk: Check):
    from ..sched import lock_phase

    tree = chk.tree
    from . import c09

    c09.lock_level_protocol(chk)
    st = tree.func("scheduler.base", "Scheduler.aio_start")
    g = CFG(st.node)
    loc = chk.loc(st.module, st.node)
    done, sites, helper, loops = lock_phase(tree, g, st)
    if not done:
        raise Undecided("aio_start: the phase that takes the dependency (token) locks was not found")
    runs = g.call_nodes(lambda c: tail(c) == "aio_run")
    codes = g.call_nodes(lambda c: tail(c) == "aio_code")
    chk.require(len(runs) == 1 and len(codes) >= 1, chk.fkey(st, "run and wait"), "aio_start must run the job and wait for its exit code", loc)
    locks_with = [a for a in ast.walk(st.node) if isinstance(a, ast.With) and any(src(i.context_expr) == "Locks()" for i in a.items)]
    chk.require(len(locks_with) == 1, chk.fkey(st, "with Locks()"), "aio_start must hold dependency locks in a `with Locks()` block", loc)
    if len(locks_with) == 1 and runs:
        w = locks_with[0]
        # the locking phase (inline loop or helper call) lies inside the Locks block and completes before the run
        phase_asts = [lp.ast for lp in loops] if loops else [c for n in done for c in n.calls() if helper is not None and dotted(c.func) == f"self.{helper.node.name}"]
        for a in phase_asts:
            chk.require(any(x is w for x in _anc(a)), chk.fkey(st, "locking inside Locks"), "dependency locks are taken outside the `with Locks()` block", chk.loc(st.module, a))
        chk.require(any(g.dominates(b, runs[0][0]) for b in done), chk.fkey(st, "acquire before run"), "tokens are acquired after the job was started", loc)
        for n, c in codes:
            chk.require(any(a is w for a in _anc(c)), chk.fkey(st, "wait inside Locks"),
                        "the wait for the job's exit is outside the `with Locks()` block: the tokens would be released while the job is still running", chk.loc(st.module, c))
        for h in [x for x in ast.walk(st.node) if isinstance(x, ast.ExceptHandler) and x.type is not None and "LockError" in src(x.type)]:
            hn = [n for n in g.live if n.kind == "except" and n.ast is h]
            for x in hn:
                chk.require(runs[0][0].id not in g.reachable(x), chk.fkey(st, "LockError never runs"), "after a failed token acquisition the job can still be started", chk.loc(st.module, h))
    chk.count("dependency_lock_sites", len(sites))


def r5_tokens_under_job_lock(chk: Check):
    from ..sched import lock_phase

    tree = chk.tree
    st = tree.func("scheduler.base", "Scheduler.aio_start")
    g = CFG(st.node)
    done, sites, helper, loops = lock_phase(tree, g, st)
    if not done:
        raise Undecided("aio_start: the phase that takes the dependency (token) locks was not found")
    phase_asts = [lp.ast for lp in loops] if loops else [c for n in done for c in n.calls() if helper is not None and dotted(c.func) == f"self.{helper.node.name}"]
    runs = [c for c in fn_calls(st.node) if tail(c) == "aio_run"]

    def joblock(c):
        for a in _anc(c):
            if isinstance(a, ast.AsyncWith) and any("lock(job.lockpath)" in src(i.context_expr) for i in a.items):
                return a
        return None

    for c in phase_asts:
        chk.require(joblock(c) is not None, chk.fkey(st, "tokens under job lock"),
                    "dependency (token) locks are taken outside the job lock: another process's token watcher takes the job lock, finds no pid file yet, "
                    "and reclaims the live holding -- two jobs then run under a total of 1", chk.loc(st.module, c))
    for c in runs:
        jl = joblock(c)
        chk.require(jl is not None and all(joblock(a) is jl for a in phase_asts), chk.fkey(st, "same job lock for tokens and spawn"),
                    "token acquisition and process spawn (pid file) must be inside the same job-lock block", chk.loc(st.module, c))
    chk.min_instances(len(phase_asts) + len(runs), 2, "token acquisition and spawn sites")
    # the watcher side: TokenFile.watch takes the job lock before looking for the pid file
    w = tree.func("tokens", "TokenFile.watch.run")
    gw = CFG(w.node)
    pid = [n for n in gw.live if n.kind == "test" and "pidpath.is_file()" in src(n.ast)]
    ok = bool(pid) and all(any(isinstance(a, ast.With) and any("InterProcessLock(lockpath)" in src(i.context_expr) for i in a.items) for a in _anc(p.ast)) for p in pid)
    chk.require(ok, chk.fkey(w, "watcher reads pid under job lock"), "the token watcher must look for the pid file while holding the job lock", chk.loc(w.module, w.node))


def r6_single_token_object(chk: Check):
    """Within a process only the thread lock of the one token object serialises acquisitions (POSIX locks are per process)"""
    from ..dataflow import path_traces

    tree = chk.tree
    f = tree.func("tokens", "CounterToken.create")
    ts = path_traces(f.node)
    loc = chk.loc(f.module, f.node)
    g = CFG(f.node)
    ctor = g.call_nodes(lambda c: dotted(c.func) == "CounterToken")
    chk.require(len(ctor) == 1, chk.fkey(f, "constructs"), "CounterToken.create must construct a token at one place", loc)
    for n, c in ctor:
        conds = [(src(t.ast), pol) for t, pol in g.guards(n) if t.kind == "test"]
        ok = conds in ([("CounterToken.TOKENS.get(name, None)", False)], [("created", False)], [("CounterToken.TOKENS.get(name)", False)], [("CounterToken.TOKENS.get(name, None) is None", True)], [("created is None", True)])
        chk.require(ok, chk.fkey(f, "one object per name"),
                    f"a second CounterToken object is constructed under {conds}: a token name must map to a single object per process whenever one is registered "
                    "(two objects on one directory do not exclude each other's acquisitions inside the process)", chk.loc(f.module, c))
    regs = [n for n in g.live if n.kind == "stmt" and isinstance(n.ast, ast.Assign) and src(n.ast.targets[0]) == "CounterToken.TOKENS[name]"]
    chk.require(len(regs) == 1 and ctor and g.dominates(ctor[0][0], regs[0]), chk.fkey(f, "registers"), "a newly constructed token must be registered", loc)
    others = [ff.qual for ff in tree.nontest_funcs() for c in fn_calls(ff.node) if dotted(c.func) == "CounterToken" and ff.key != f.key]
    chk.require(not others, chk.fkey(f, "only create() constructs"), f"{others} construct CounterToken directly, bypassing the registry", loc)


def r7_ipc_lock_ownership(chk: Check):
    """POSIX record locks belong to the process: a second lock object on token.lock inside the process, when released,
    silently drops the lock that acquire() believes it holds"""
    tree = chk.tree
    n = 0
    for f in tree.nontest_funcs():
        for c in fn_calls(f.node):
            if "InterProcessLock" in (dotted(c.func) or "") and c.args:
                n += 1
                t = src(c.args[0])
                is_token_lock = "token.lock" in t
                if is_token_lock:
                    chk.require(f.key == "tokens:CounterToken.__init__", chk.fkey(f, "locks token.lock"),
                                f"`{src(c)}` in `{f.qual}` creates another lock object on the token's lock file; it must only be locked through the token's own ipc_lock under its thread lock", chk.loc(f.module, c))
    # the locked file is never opened by the class itself: closing *any* descriptor of a file drops the process's POSIX lock on it
    for cls_qual in ("CounterToken",):
        init = tree.func("tokens", cls_qual + ".__init__")
        amap = {}
        for st in ast.walk(init.node):
            if isinstance(st, ast.Assign) and len(st.targets) == 1 and src(st.targets[0]).startswith("self."):
                amap[src(st.targets[0])] = src(st.value)

        def resolve(t, amap=amap):
            for _ in range(3):
                for k, v in amap.items():
                    t = re.sub(re.escape(k) + r"(?![A-Za-z0-9_])", v, t)
            return t.replace("self.path", "path")

        lockpaths = [resolve(src(c.args[0])) for c in fn_calls(init.node) if "InterProcessLock" in (dotted(c.func) or "") and c.args]
        chk.min_instances(len(lockpaths), 1, "inter-process lock of the token")
        for f in tree.nontest_funcs():
            if f.module.name != "tokens" or f.cls is None or f.cls.qual != cls_qual:
                continue
            for c in fn_calls(f.node):
                opened = None
                if tail(c) in ("write_text", "read_text", "write_bytes", "read_bytes", "open", "touch") and isinstance(c.func, ast.Attribute):
                    opened = resolve(src(c.func.value))
                elif (dotted(c.func) or "") in ("open", "io.open", "os.open") and c.args:
                    opened = resolve(src(c.args[0]))
                if opened is not None:
                    chk.require(opened not in lockpaths, chk.fkey(f, "opens the locked file"),
                                f"`{src(c)[:70]}` in `{f.qual}` opens the file the inter-process lock is taken on ({opened}): closing that descriptor releases the POSIX lock, "
                                "so two processes can be inside the acquire critical section at once", chk.loc(f.module, c))
    uses = []
    for f in tree.nontest_funcs():
        if f.module.name != "tokens":
            continue
        for w in ast.walk(f.node):
            if isinstance(w, (ast.With, ast.AsyncWith)):
                items = [src(i.context_expr) for i in w.items]
                if "self.ipc_lock" in items:
                    uses.append((f, w))
                    chk.require("self.lock" in items and items.index("self.lock") < items.index("self.ipc_lock"), chk.fkey(f, "ipc lock under thread lock"),
                                f"`{f.qual}` takes the inter-process lock without (first) holding the thread lock", chk.loc(f.module, w))
    chk.min_instances(len(uses), 3, "uses of the token ipc lock")
    chk.count("interprocess_lock_constructions", n)


def r9_foreign_holding_outlives_job(chk: Check):
    """The watcher of a foreign holding deletes it only once the job that took it is gone: no pid file under the job lock, the process of the
    pid file is not there any more, or it was waited for.  A holding deleted while its job runs hands the units to a second job."""
    tree = chk.tree
    w = tree.func("tokens", "TokenFile.watch.run")
    g = CFG(w.node)
    rd = ReachingDefs(g)
    loc = chk.loc(w.module, w.node)
    dele = [x for x, c in g.call_nodes(lambda c: src(c) == "self.delete()")]
    chk.min_instances(len(dele), 1, "deletion of the foreign holding in the watcher")
    absent = [b for b in g.live if b.kind == "branch" and b.extra["test"].kind == "test" and b.extra["polarity"] is False and src(b.extra["test"].ast) == "pidpath.is_file()"]
    def rebuilds(v):
        """the value is the process rebuilt from the pid file: Process.fromDefinition(...) itself, or a package helper that returns it"""
        if "fromDefinition" in src(v):
            return True
        if isinstance(v, ast.Call):
            for ff in tree.nontest_funcs():
                if ff.module.name == "tokens" and not isinstance(ff.node, ast.Lambda) and ff.node.name == tail(v):
                    rets = [x for x in body_walk(ff.node) if isinstance(x, ast.Return) and x.value is not None]
                    if rets and all("fromDefinition" in src(x.value) for x in rets):
                        return True
        return False

    procdef = [n for n in g.live if n.kind == "stmt" and isinstance(n.ast, ast.Assign) and src(n.ast.targets[0]) == "process" and rebuilds(n.ast.value)]
    chk.require(bool(absent) and bool(procdef), chk.fkey(w, "job looked up"), "the watcher must decide from the pid file of the job (absent: the job is gone; present: rebuild its process)", loc)
    waits = [x for x, c in g.call_nodes(lambda c: src(c) == "process.wait()")]
    gone = [b for b in g.live if b.kind == "branch" and b.extra["test"].kind == "test" and src(b.extra["test"].ast) == "process is None" and b.extra["polarity"] is True]
    for d in dele:
        ok = bool(absent) and bool(procdef) and g.on_every_path(absent + procdef, end=d)
        chk.require(ok, chk.fkey(w, "holding deleted only when the job is known"), "the holding can be deleted on a path that neither found the pid file absent nor rebuilt the job's process", loc)
        for pd in procdef:
            ok2 = bool(waits) and g.on_every_path(waits + gone, start=pd, end=d)
            chk.require(ok2, chk.fkey(w, "holding deleted only after the job ended"),
                        "after the job's process was rebuilt from its pid file the holding is deleted without waiting for that process: the units of a running job are handed to another one", loc)
    # the pid file is read under the job lock (the scheduler writes it under the same lock, right after the spawn)
    for n in absent:
        t = n.extra["test"]
        locked = any(isinstance(a, (ast.With, ast.AsyncWith)) and any("InterProcessLock(lockpath)" in src(i.context_expr) or "lock" in src(i.context_expr).lower() for i in a.items) for a in _anc(t.ast))
        chk.require(locked, chk.fkey(w, "pid file read under the job lock"), "the watcher reads the pid file outside the job lock: between the spawn and the writing of the pid file the job looks finished", loc)


def r8_holdings_paired(chk: Check):
    from . import c09

    c09.r1_pairing(chk)



def r10_holding_identity(chk: Check):
    """A holding is a file named after the job identifier only, rewritten on acquire and deleted by name by any watcher (findings kept in
    known_findings.json: two workspaces running the same task share one file; a late watcher deletes the file of the job's next execution)"""
    tree = chk.tree
    nm = tree.func("tokens", "CounterTokenDependency.name")
    rets = [src(x.value) for x in body_walk(nm.node) if isinstance(x, ast.Return) and x.value is not None]
    only_id = bool(rets) and all("identifier" in r and "path" not in r and "workspace" not in r for r in rets)
    cr = tree.func("tokens", "TokenFile.create")
    overwrite = any(isinstance(c, ast.Call) and tail(c) == "open" and c.args and isinstance(c.args[0], ast.Constant) and "w" in str(c.args[0].value) for c in ast.walk(cr.node))
    chk.require(not (only_id and overwrite), chk.fkey(nm, "holding named after the job identifier only"),
                f"a holding is the file `{rets[0] if rets else '?'}` of the (shared) token directory, opened for writing: the same task run from two workspaces has one identifier, the second "
                "acquire rewrites the file of the first, two running jobs count as one and the first to end deletes the holding of the other", chk.loc(nm.module, nm.node))
    dl = tree.func("tokens", "TokenFile.delete")
    g = CFG(dl.node)
    for n, c in g.call_nodes(lambda c: tail(c) == "unlink"):
        gs = [src(t.ast) for t, pol in g.guards(n) if t.kind == "test"]
        checked = any(k in t for t in gs for k in ("st_ino", "st_mtime", "read_text", "uri", "nonce"))
        chk.require(checked, chk.fkey(dl, "holding deleted by name"), f"`{src(c)}` deletes whatever file bears the name (guards: {gs}): a watcher that returns late from the wait for a "
                    "first execution deletes the holding of the job's next execution, which is running", chk.loc(dl.module, c))


RULES = [
    ("R1", "acquire critical section: recount, capacity test (refuse iff available < count), decrement and token-file creation all inside the thread and inter-process locks; refusal raises and creates nothing", r1_acquire_critical_section),
    ("R2", "recount: _update re-reads the total and subtracts every *.token file of the directory, unconditionally (no early return, no skipped file)", r2_recount),
    ("R3", "token files are created only by CounterToken.acquire; nothing else writes holdings", r3_writers),
    ("R4", "tokens are held for the whole run: acquired before aio_run, the wait for the process is inside the `with Locks()` block, a LockError never reaches aio_run", r4_hold_for_whole_run),
    ("R6", "one CounterToken object per name per process (create() returns the registered one whenever it exists; nobody else constructs)", r6_single_token_object),
    ("R7", "the token lock file is locked only through the token's own ipc_lock, always under the thread lock (POSIX locks are per process)", r7_ipc_lock_ownership),
    ("R8", "a holding is given back only by the lock that took it: locks enter the Locks set once held, one fresh lock object per attempt, level protocol (= C09.R1)", r8_holdings_paired),
    ("R9", "a foreign holding is deleted by its watcher only once its job is gone: pid file absent under the job lock, or the rebuilt process vanished or was waited for", r9_foreign_holding_outlives_job),
    ("R5", "tokens are taken, and the process spawned, under the same job lock; the watcher reads the pid file under that lock", r5_tokens_under_job_lock),
    ("R10", "identity of a holding (findings kept in known_findings.json): named after the job identifier only and rewritten on acquire; deleted by name by any watcher", r10_holding_identity),
]
