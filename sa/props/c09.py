"""C09 -- tokens are always given back; waiting jobs eventually run (necessary conditions)."""

from __future__ import annotations

import ast
import re

from ..astq import attr_stores, body_walk, dotted, src, walk_local, norm_stmt, fn_calls
from ..cfg import CFG
from ..dataflow import ReachingDefs
from ..loader import Undecided
from ..report import Check

ASSUMPTIONS = [
    "'eventually launched' (liveness, fairness of notifications, lost inotify events) is not decided; only the existence and "
    "unconditionality of the release / notification / wake-up path",
    "death of a scheduler between taking a token and writing its file is not decided",
    "assert statements are not counted as explicit raises in the observer-thread escape analysis",
]


from ..astq import tail  # noqa: E402


def _anc(node):
    p = getattr(node, "_parent", None)
    while p is not None:
        yield p
        p = getattr(p, "_parent", None)


def lock_level_protocol(chk: Check):
    tree = chk.tree
    # level protocol of Lock: acquire at level 0 -> level 1 and _acquire(); release at level 1 (not detached) -> level 0 and _release();
    # the two must agree, otherwise a lock is never taken (jobs run without holding their tokens) or never given back
    from ..cfg import T
    from ..dataflow import walk_table

    def level_table(fn_, call_text, level_test, extra):
        g_ = CFG(fn_.node)

        def classify(n):
            t_ = src(n.ast)
            if t_ == level_test:
                return ("level", True)
            return extra.get(t_)

        def events(n):
            out = []
            if any(src(c) == call_text for c in n.calls()):
                out.append("call")
            if n.kind == "stmt" and isinstance(n.ast, ast.AugAssign) and src(n.ast.target) == "self._level" and isinstance(n.ast.value, ast.Constant) and n.ast.value.value == 1:
                out.append("+1" if isinstance(n.ast.op, ast.Add) else "-1")
            elif n.kind == "stmt" and isinstance(n.ast, (ast.Assign, ast.AugAssign)) and any(src(t_) == "self._level" for t_ in (n.ast.targets if isinstance(n.ast, ast.Assign) else [n.ast.target])):
                out.append("level:" + src(n.ast))
            return out

        return g_, classify, events

    rel = tree.func("locking", "Lock.release")
    g, cl, ev = level_table(rel, "self._release()", T("self._level == 1"), {"self.detached": ("detached", True)})
    bad = []
    for level, det in ((True, False), (True, True), (False, False), (False, True)):
        for o in walk_table(g, g.entry, cl, {"level": level, "detached": det}, ev, lambda n: "exit" if n is g.exit else None):
            want = ["-1", "call"] if level and not det else []
            if sorted(o.events) != sorted(want) or o.unknown:
                bad.append(f"held once={level}, detached={det}: {list(o.events)}")
    chk.require(not bad, chk.fkey(rel, "release -> _release"), f"Lock.release must, exactly when the lock is held (level 1) and not detached, go back to level 0 and call _release(); found {bad}", chk.loc(rel.module, rel.node))
    acq = tree.func("locking", "Lock.acquire")
    ga, cl, ev = level_table(acq, "self._acquire()", T("self._level == 0"), {})
    bad = []
    for level in (True, False):
        for o in walk_table(ga, ga.entry, cl, {"level": level}, ev, lambda n: "exit" if n is ga.exit else None):
            want = ["+1", "call"] if level else []
            if sorted(o.events) != sorted(want) or o.unknown:
                bad.append(f"free={level}: {list(o.events)}")
    rets = [x for x in body_walk(acq.node) if isinstance(x, ast.Return)]
    ok = not bad and rets and all(x.value is not None and src(x.value) == "self" for x in rets) and ga.on_every_path([n for n in ga.live if n.kind == "stmt" and isinstance(n.ast, ast.Return)])
    chk.require(ok, chk.fkey(acq, "acquire -> _acquire"), f"Lock.acquire must, exactly when the lock is free (level 0), go to level 1 and call _acquire(), and return the lock itself (it is what `locks.append(...)` records); found {bad}",
                chk.loc(acq.module, acq.node))


def fresh_lock_per_attempt(chk: Check):
    """Lock objects carry a level (taken / not taken): `dependency.lock()` must hand out a new object for every start attempt, otherwise a level
    left over from a failed attempt (any exception in _acquire) makes the next acquire() a silent no-op: the job runs without holding anything"""
    tree = chk.tree
    n = 0
    for f in tree.nontest_funcs():
        if f.node.name != "lock" or f.cls is None or f.module.name not in ("tokens", "scheduler.base", "scheduler.dependencies"):
            continue
        if not any(k.qual.endswith("Dependency") for k in tree.mro(f.cls)):
            continue
        g = CFG(f.node)
        rd = ReachingDefs(g)
        rets = [x for x in g.live if x.kind == "stmt" and isinstance(x.ast, ast.Return)]
        if not rets:
            continue  # abstract
        if all(isinstance(x_, ast.Raise) for x_ in f.node.body if not isinstance(x_, ast.Expr)):
            continue
        n += 1
        ok = True
        for r_ in rets:
            v = r_.ast.value
            cv = rd.subst(v, r_) if v is not None else None
            ok = ok and isinstance(cv, ast.Call) and isinstance(cv.func, ast.Name) and cv.func.id[:1].isupper()
        chk.require(ok, chk.fkey(f, "fresh lock object"), f"`{f.qual}` returns {[src(r_.ast.value) for r_ in rets if r_.ast.value is not None]}: every call must construct a new lock", chk.loc(f.module, f.node))
    chk.min_instances(n, 2, "lock() factories of dependencies")


def r1_pairing(chk: Check):
    tree = chk.tree
    n = 0
    # every acquisition of a dependency lock is owned by a `with Locks() as L` block at the moment it is taken
    for f in tree.nontest_funcs():
        if not any(isinstance(c.func, ast.Attribute) and c.func.attr == "acquire" for c in fn_calls(f.node)):
            continue
        gf = CFG(f.node)
        rdf = ReachingDefs(gf)
        for node, c in gf.call_nodes(lambda c: isinstance(c.func, ast.Attribute) and c.func.attr == "acquire"):
            recv = c.func.value
            if not (src(c).endswith(".lock().acquire()") or rdf.canon(recv, node).endswith(".lock()")):
                continue
            n += 1

            def locks_blocks(at):
                out = {}
                for a_ in _anc(at):
                    if isinstance(a_, (ast.With, ast.AsyncWith)):
                        for i in a_.items:
                            if src(i.context_expr) == "Locks()" and i.optional_vars is not None:
                                out[dotted(i.optional_vars)] = a_
                return out

            blocks = locks_blocks(c)
            par = getattr(c, "_parent", None)
            owner = None
            early = None
            if isinstance(par, ast.Call) and tail(par) == "append" and c in par.args and isinstance(par.func, ast.Attribute) and dotted(par.func.value) in blocks:
                owner = blocks[dotted(par.func.value)]
            elif isinstance(recv, ast.Name):
                # `lock = dep.lock(); lock.acquire(); locks.append(lock)`: recorded once it is really held
                apps = [(m, a_) for m, a_ in gf.call_nodes(lambda a_: tail(a_) == "append" and len(a_.args) == 1 and isinstance(a_.args[0], ast.Name) and a_.args[0].id == recv.id
                                                            and isinstance(a_.func, ast.Attribute) and dotted(a_.func.value) in blocks)]
                for m, a_ in apps:
                    if gf.dominates(node, m):
                        owner = blocks[dotted(a_.func.value)]
                    elif gf.dominates(m, node):
                        early = a_
            if early is not None:
                chk.violation(chk.fkey(f, "lock recorded before it is held"), f"`{src(early)}` in `{f.qual}` puts the dependency lock into the Locks set before `{src(c)}`: when the acquisition is refused "
                              "(LockError) the set still releases it, giving back a holding that was never taken -- for a token this deletes the token file of the same job held by another scheduler, "
                              "whose capacity is then handed out twice", chk.loc(f.module, early))
                continue
            chk.require(owner is not None, chk.fkey(f, "acquired lock owned by with Locks()"),
                        f"`{src(c)}` in `{f.qual}`: the acquired dependency lock is not appended to the Locks object of an enclosing `with Locks() as ...` block, "
                        "so it is not released when the start is aborted (another dependency cannot be locked), fails or raises -- the tokens it took are never given back",
                        chk.loc(f.module, c))
    chk.min_instances(n, 1, "dependency lock acquisitions")
    # Locks._release releases every member; Lock.__exit__ -> release -> _release; CounterTokenLock._release -> token.release
    lr = tree.func("locking", "Locks._release")
    loops = [x for x in body_walk(lr.node) if isinstance(x, ast.For) and src(x.iter) == "self.locks"]
    ok = len(loops) == 1 and any(isinstance(c, ast.Call) and tail(c) == "release" for c in walk_local(loops[0])) and not any(isinstance(x, (ast.Break, ast.Return, ast.Continue)) for x in ast.walk(loops[0]))
    chk.require(ok, chk.fkey(lr, "releases every member"), "Locks._release must release every lock it holds (no early exit)", chk.loc(lr.module, lr.node))
    # ... every member: the list is not changed while it is iterated (removing the current element makes the iterator skip the next one)
    for lp in [x for x in body_walk(lr.node) if isinstance(x, ast.For)]:
        it = src(lp.iter)
        mut = [c for b in lp.body for c in walk_local(b) if isinstance(c, ast.Call) and isinstance(c.func, ast.Attribute) and src(c.func.value) == it
               and c.func.attr in ("remove", "pop", "append", "insert", "clear", "extend")] + \
              [d for b in lp.body for d in walk_local(b) if isinstance(d, ast.Delete) and any(isinstance(t, ast.Subscript) and src(t.value) == it for t in d.targets)]
        chk.require(not mut, chk.fkey(lr, "list not mutated while released"), f"`{it}` is modified inside the loop that releases its members: every other lock is skipped and stays held", chk.loc(lr.module, lp))
    la = tree.func("locking", "Locks.append")
    chk.require(any(src(c) == "self.locks.append(lock)" for c in fn_calls(la.node)), chk.fkey(la, "append"), "Locks.append must record the lock", chk.loc(la.module, la.node))
    ex = tree.func("locking", "Lock.__exit__")
    chk.require(any(src(c) == "self.release()" for c in fn_calls(ex.node)), chk.fkey(ex, "exit releases"), "Lock.__exit__ must call release()", chk.loc(ex.module, ex.node))
    lock_level_protocol(chk)
    fresh_lock_per_attempt(chk)
    tl = tree.func("tokens", "CounterTokenLock._release")
    chk.require(any(src(c) in ("self.dependency.token.release(self.dependency)", "self.dependency._token.release(self.dependency)") for c in fn_calls(tl.node)), chk.fkey(tl, "token release"), "CounterTokenLock._release must release the token", chk.loc(tl.module, tl.node))
    # the Locks object enters with level 1 so that __exit__ releases: `with Locks() as locks` -> __enter__ -> acquire
    en = tree.func("locking", "Lock.__enter__")
    chk.require(any(src(c) == "self.acquire()" for c in fn_calls(en.node)), chk.fkey(en, "enter acquires"), "Lock.__enter__ must call acquire() (else __exit__ releases nothing)", chk.loc(en.module, en.node))


def r2_release_restores_and_notifies(chk: Check):
    tree = chk.tree
    for qual in ("CounterToken.release", "ProcessCounterToken.release"):
        f = tree.func("tokens", qual)
        g = CFG(f.node)
        loc = chk.loc(f.module, f.node)
        incs = [n for n in g.live if n.kind == "stmt" and isinstance(n.ast, ast.AugAssign) and src(n.ast.target) == "self.available" and isinstance(n.ast.op, ast.Add)]
        chk.require(len(incs) == 1 and src(incs[0].ast.value).endswith(".count"), chk.fkey(f, "restores availability"), f"{qual} must add the released amount back to available exactly once", loc)
        notif = [n for n, c in g.call_nodes(lambda c: src(c) == "self.aio_notify()")]
        chk.require(len(notif) >= 1, chk.fkey(f, "notifies"), f"{qual} must notify the waiting dependents", loc)
        if incs and notif:
            ok = g.must_pass(incs[0], g.exit, notif)
            chk.require(ok, chk.fkey(f, "notify on every path after restoring"),
                        f"{qual}: after the amount was given back some path reaches the end without aio_notify() -- a waiting job that now fits is never re-checked", loc)
            for n in notif:
                conds = [(src(t.ast), pol) for t, pol in g.guards(n) if t.kind == "test" and "tf is None" not in src(t.ast)]
                conds = [c for c in conds if not c[0].endswith("is None") and not c[0].endswith(" in self.cache")]
                chk.require(not conds, chk.fkey(f, "notify unconditional"), f"{qual}: aio_notify() is conditional on {conds}; a release that leaves units free must also wake waiters that need several units", chk.loc(f.module, n.ast))
                # outside the locks
                inside = [a for a in _anc(n.ast) if isinstance(a, ast.With)]
                chk.require(not inside, chk.fkey(f, "notify outside locks"), f"{qual}: aio_notify() is called while holding the token locks", chk.loc(f.module, n.ast))
        if qual.startswith("CounterToken"):
            dele = [n for n, c in g.call_nodes(lambda c: tail(c) == "delete")]
            chk.require(len(dele) == 1 and incs and g.must_pass(incs[0], g.exit, dele) or (dele and g.dominates(dele[0], incs[0])), chk.fkey(f, "deletes the holding"), "CounterToken.release must delete the token file of the holding", loc)
    # aio_notify re-checks every dependent when something is available
    an = tree.func("tokens", "Token.aio_notify")
    loops = [x for x in body_walk(an.node) if isinstance(x, ast.For)]
    ok = len(loops) == 1 and any(isinstance(c, ast.Call) and tail(c) == "call_soon_threadsafe" for c in walk_local(loops[0]))
    chk.require(ok, chk.fkey(an, "schedules a check of each dependent"), "aio_notify must schedule a check of every dependent on its loop", chk.loc(an.module, an.node))
    if ok:
        gan = CFG(an.node)
        heads = [n for n in gan.live if n.kind == "for" and n.ast is loops[0]]
        sched = [n for n, c in gan.call_nodes(lambda c: tail(c) in ("call_soon_threadsafe", "call_soon"))]
        if heads and sched:
            start = [m for m, l in heads[0].succ if l == "loop"][0]
            every = gan.on_every_path(sched, start=start, end=heads[0])
            chk.require(every, chk.fkey(an, "every dependent, whatever its state"), "aio_notify schedules the re-check only for some dependents: a job whose start is being aborted is not WAITING yet when the "
                        "token comes back, and nothing notifies it afterwards", chk.loc(an.module, loops[0]))
    ck = tree.func("tokens", "Token.aio_notify.check")
    gck = CFG(ck.node)
    cks = gck.call_nodes(lambda c: src(c) == "dependency.check()")
    chk.require(len(cks) == 1, chk.fkey(ck, "calls check"), "the scheduled callback must call dependency.check()", chk.loc(ck.module, ck.node))
    for n, c in cks:
        conds = [(src(t.ast), pol) for t, pol in gck.guards(n) if t.kind == "test"]
        import re as _re

        extra = [x for x in conds if not (x[1] is True and _re.fullmatch(r"0 < \w+\.available", x[0]))]
        chk.require(not extra, chk.fkey(ck, "re-check unconditional"),
                    f"the notification callback re-checks a dependency only under {extra}: a job whose start is being aborted is still READY while its counter was put back to 'unsatisfied'; "
                    "a release dropped for it is never seen again and the job sleeps forever", chk.loc(ck.module, c))


def r3_foreign_holdings_watched(chk: Check):
    tree = chk.tree
    n = 0
    for f in tree.nontest_funcs():
        if f.module.name != "tokens":
            continue
        sites = [c for c in fn_calls(f.node) if dotted(c.func) == "TokenFile" and len(c.args) == 1]
        if not sites:
            continue
        g = CFG(f.node)
        rd = ReachingDefs(g)
        for c in sites:
            n += 1
            st = None
            for a in _anc(c):
                if isinstance(a, ast.Assign):
                    st = a
                    break
            if st is None or not isinstance(st.targets[0], ast.Name):
                chk.violation(chk.fkey(f, "TokenFile(...) not bound"), "a foreign token file object is created without being bound", chk.loc(f.module, c))
                continue
            var = st.targets[0].id
            for node in g.nodes_of(c):
                watch = [x for x, cc in g.call_nodes(lambda cc: src(cc) == f"{var}.watch()")]
                cache = [x for x in g.live if x.kind == "stmt" and isinstance(x.ast, ast.Assign) and src(x.ast.targets[0]).startswith("self.cache[") and src(x.ast.value) == var]
                # on every non-exceptional path from the construction onwards
                nxt = [m for m, l in node.succ if l != "exc"]
                okw = bool(watch) and all(_must_pass_noexc(g, m, watch) for m in nxt)
                okc = bool(cache) and all(_must_pass_noexc(g, m, cache) for m in nxt)
                chk.require(okw, chk.fkey(f, f"{var} watched"), f"`{f.qual}` reads a foreign holding without watching its job process: if that job's scheduler is gone, the holding is never reclaimed", chk.loc(f.module, c))
                chk.require(okc, chk.fkey(f, f"{var} cached"), f"`{f.qual}` reads a foreign holding without recording it in the cache", chk.loc(f.module, c))
    chk.min_instances(n, 3, "foreign TokenFile constructions")
    # watch: thread body ends with self.delete() on every path
    w = tree.func("tokens", "TokenFile.watch.run")
    g = CFG(w.node)
    dele = [x for x, c in g.call_nodes(lambda c: src(c) == "self.delete()")]
    chk.require(bool(dele) and g.must_pass(g.entry, g.exit, dele), chk.fkey(w, "watch ends with delete"), "the watcher thread must delete the token file on every path once the job process is gone", chk.loc(w.module, w.node))
    ww = tree.func("tokens", "TokenFile.watch")
    started = False
    for c in fn_calls(ww.node):
        if tail(c) == "start" and isinstance(c.func, ast.Attribute) and isinstance(c.func.value, ast.Call) and tail(c.func.value) == "Thread":
            tg = [k.value for k in c.func.value.keywords if k.arg == "target"]
            if tg and (dotted(tg[0]) or "").split(".")[-1] in (w.node.name, getattr(w, "written_qual", w.qual).split(".")[-1]):
                started = True
    chk.require(started, chk.fkey(ww, "starts thread"), "watch() must start the watcher thread", chk.loc(ww.module, ww.node))
    # no pid file under the job lock means the job is gone: the holding is reclaimed at once (no polling loop)
    pid = [n for n in g.live if n.kind == "test" and "pidpath.is_file()" in src(n.ast)]
    okp = bool(pid) and bool(dele)
    for p in pid:
        fb = [b for b, l in p.succ if l is False]
        for b in fb:
            region = g.reachable(b, avoid=dele)
            okp = okp and not any(n.id in region and any(l == "back" for _, l in n.succ) for n in g.live)
    chk.require(okp, chk.fkey(w, "no pid file -> reclaim"), "when the job lock is free and there is no pid file, the watcher must give the holding back without waiting "
                "(a scheduler killed between taking a token and spawning the job leaves exactly that state)", chk.loc(w.module, w.node))
    # wait for the process happens outside the job lock
    waits = [c for c in fn_calls(w.node) if src(c) == "process.wait()"]
    ok = bool(waits) and not any(isinstance(a, ast.With) for c in waits for a in _anc(c) if a is not w.node)
    chk.require(ok, chk.fkey(w, "waits outside job lock"), "the watcher must wait for the job process outside the job lock", chk.loc(w.module, w.node))


def _must_pass_noexc(g: CFG, start, through) -> bool:
    av = {t.id for t in through}
    seen = set()
    stack = [start]
    while stack:
        n = stack.pop()
        if n.id in seen or n.id in av:
            continue
        seen.add(n.id)
        if n is g.exit:
            return False
        for m, l in n.succ:
            if l == "exc":
                continue
            stack.append(m)
    return True


BASE_ONLY = {"SystemExit", "KeyboardInterrupt", "GeneratorExit", "BaseException"}


def _handler_names(h):
    if h.type is None:
        return None
    elts = h.type.elts if isinstance(h.type, ast.Tuple) else [h.type]
    return [(dotted(e) or src(e)).split(".")[-1] for e in elts]


def _caught_by(h, name) -> bool:
    hn = _handler_names(h)
    if hn is None or "BaseException" in hn:
        return True
    if name in hn:
        return True
    if name not in BASE_ONLY and "Exception" in hn:
        return True
    return False


def lexically_escapes(node, name) -> bool:
    """Does an exception of class `name` raised at `node` leave the enclosing function?"""
    child = node
    for a in _anc(node):
        if isinstance(a, (ast.FunctionDef, ast.AsyncFunctionDef, ast.Lambda)):
            return True
        if isinstance(a, ast.Try) and any(child is s for s in a.body):
            if any(_caught_by(h, name) for h in a.handlers):
                return False
        child = a
    return True


def raise_class(r: ast.Raise) -> str:
    """Upper bound of the class raised by a raise statement"""
    if r.exc is not None:
        e = r.exc.func if isinstance(r.exc, ast.Call) else r.exc
        d = dotted(e)
        if d and d.split(".")[-1][:1].isupper():
            return d.split(".")[-1]
        # `raise e` of a handler variable
        for a in _anc(r):
            if isinstance(a, ast.ExceptHandler) and a.name and isinstance(r.exc, ast.Name) and r.exc.id == a.name:
                hn = _handler_names(a)
                return "BaseException" if hn is None else (hn[0] if len(hn) == 1 else "Exception")
        return "Exception"
    for a in _anc(r):
        if isinstance(a, ast.ExceptHandler):
            hn = _handler_names(a)
            return "BaseException" if hn is None else (hn[0] if len(hn) == 1 else "Exception")
    return "Exception"


def escaping_raises(chk: Check, f, depth=2, seen=None):
    """Explicit raise statements of `f` (and of package callees it calls, not merely passes as
    callbacks) that can escape it: list of (function, node, description, class)"""
    tree = chk.tree
    seen = seen or set()
    if f.key in seen:
        return []
    seen = seen | {f.key}
    out = []
    for n in body_walk(f.node):
        if isinstance(n, ast.Raise):
            cls = raise_class(n)
            if lexically_escapes(n, cls):
                out.append((f, n, "raise " + (src(n.exc) if n.exc else f"(re-raise of {cls})"), cls))
    if depth > 0:
        for c in fn_calls(f.node):
            callee = resolve_callee(tree, f, c)
            if callee is None:
                continue
            for (ff, node, what, cls) in escaping_raises(chk, callee, depth - 1, seen):
                if lexically_escapes(c, cls):
                    out.append((f, c, f"call of {callee.qual} -> {what} (at {ff.module.rel}:{node.lineno})", cls))
    return out


def resolve_callee(tree, f, c):
    d = dotted(c.func)
    if not d:
        return None
    parts = d.split(".")
    if parts[0] == "self" and len(parts) == 2 and f.cls is not None:
        return tree.find_method(f.cls, parts[1])
    if len(parts) == 1:
        k = tree.resolve_name(f.module, parts[0])
        if k is not None:
            return k.methods.get("__init__")
        key = f"{f.module.name}:{parts[0]}"
        return tree.funcs.get(key)
    if len(parts) == 2:
        k = tree.resolve_name(f.module, parts[0])
        if k is not None:
            return tree.find_method(k, parts[1])
    return None


def r4_observer_survives(chk: Check):
    tree = chk.tree
    n = 0
    for c in tree.classes.values():
        if c.module.is_test():
            continue
        if not any(b.split(".")[-1] == "FileSystemEventHandler" for b in tree.base_names(c)):
            continue
        for name, f in c.methods.items():
            if not name.startswith("on_"):
                continue
            n += 1
            esc = escaping_raises(chk, f)
            if esc:
                what = "; ".join(w for _, _, w, _ in esc[:3])
                chk.violation(chk.fkey(f, "exception escapes a watchdog handler"),
                              f"`{f.qual}` runs on the watchdog dispatcher thread and lets an explicitly raised exception escape ({what}): the thread dies and this "
                              "process never sees another token release -- its waiting jobs hang", chk.loc(f.module, esc[0][1]))
            else:
                chk.ok(chk.fkey(f, "no explicit raise escapes"), chk.loc(f.module, f.node))
    chk.min_instances(n, 3, "watchdog handler methods")
    # check-then-act on the shared cache: a keyed read / removal must be decided by a membership test made under the same lock
    # (release() and the other handlers drop entries concurrently) -- or sit in a try that handles the KeyError
    m = 0
    for qual in ("CounterToken.on_deleted", "CounterToken.on_created", "CounterToken.on_modified"):
        f = tree.func("tokens", qual)
        g = CFG(f.node)
        for nd in g.live:
            if nd.ast is None or nd.kind not in ("stmt", "test"):
                continue
            keyed = []
            for x in walk_local(nd.ast):
                if isinstance(x, ast.Subscript) and src(x.value) == "self.cache" and isinstance(x.ctx, (ast.Load, ast.Del)):
                    keyed.append((x, src(x.slice)))
                elif isinstance(x, ast.Call) and src(x.func) == "self.cache.pop" and len(x.args) == 1:
                    keyed.append((x, src(x.args[0])))
            for x, key in keyed:
                m += 1
                locked_tests = [t for t, pol in g.guards(nd) if t.kind == "test" and pol is True and src(t.ast) == f"{key} in self.cache"
                                and "self.lock" in _withs(t.ast)]
                # the same decision through a lookup made under the lock: `e = self.cache.get(k)` ... `if e is not None:`
                rdx = ReachingDefs(g)
                for t, pol in g.guards(nd):
                    if t.kind == "test" and isinstance(t.ast, ast.Compare) and isinstance(t.ast.left, ast.Name) and len(t.ast.ops) == 1 and isinstance(t.ast.comparators[0], ast.Constant) \
                            and t.ast.comparators[0].value is None and ((isinstance(t.ast.ops[0], ast.Is) and pol is False) or (isinstance(t.ast.ops[0], ast.IsNot) and pol is True)):
                        d = rdx.unique(t.ast.left.id, t)
                        if d is not None and d.value is not None and src(d.value) in (f"self.cache.get({key})", f"self.cache.get({key}, None)") and d.node is not None \
                                and d.node.ast is not None and "self.lock" in _withs(d.node.ast) and "self.lock" in _withs(t.ast):
                            locked_tests.append(t)
                in_try = any(isinstance(a, ast.Try) and any(h.type is None or src(h.type) in ("KeyError", "Exception", "LookupError") for h in a.handlers) and _in_body(a, x) for a in _ancestors(x))
                chk.require(bool(locked_tests) and "self.lock" in _withs(x) or in_try, chk.fkey(f, "keyed cache access decided under the lock"),
                            f"`{src(x)}` in `{f.qual}` is not decided by a `{key} in self.cache` test made under self.lock: an entry dropped by a concurrent release() raises KeyError on the "
                            "watchdog thread, which dies -- this process never sees another release", chk.loc(f.module, x))
    chk.min_instances(m, 1, "keyed accesses to the token cache in event handlers")


def _ancestors(node):
    p = getattr(node, "_parent", None)
    while p is not None:
        yield p
        p = getattr(p, "_parent", None)


def _withs(node):
    return {src(i.context_expr) for a in _ancestors(node) if isinstance(a, (ast.With, ast.AsyncWith)) for i in a.items}


def _in_body(try_node, x):
    return any(x is y for st in try_node.body for y in ast.walk(st))


def handlers_wake_through_the_loop(chk: Check):
    """The watchdog handlers run on the observer thread: a dependency re-check made there sets the job's asyncio event from a foreign thread,
    which does not wake the event loop up.  Every re-check goes through aio_notify (call_soon_threadsafe)"""
    tree = chk.tree
    n = 0
    for c in tree.classes.values():
        if c.module.is_test() or not any(b.split(".")[-1] == "FileSystemEventHandler" for b in tree.base_names(c)):
            continue
        for name, f in c.methods.items():
            if not name.startswith("on_"):
                continue
            n += 1
            direct = [x for x in fn_calls(f.node) if tail(x) == "check" and "depend" in src(x.func).lower()]
            chk.require(not direct, chk.fkey(f, "re-check through the event loop"), f"`{f.qual}` calls `{src(direct[0]) if direct else ''}` on the observer thread: the job becomes READY but its "
                        "loop is not woken up, so it is launched only at the next unrelated event", chk.loc(f.module, direct[0] if direct else f.node))
    chk.min_instances(n, 3, "watchdog handler methods")


def event_loops_not_closed(chk: Check):
    tree = chk.tree
    # aio_notify posts to the loop of *every* dependent ever registered (also of finished experiments): the posting call must not be able to
    # fail half-way -- nobody closes an event loop (call_soon_threadsafe raises on a closed loop), or the post is protected per dependent
    an = tree.func("tokens", "Token.aio_notify")
    posts = [c for c in fn_calls(an.node) if tail(c) in ("call_soon_threadsafe", "call_soon", "run_coroutine_threadsafe")]
    chk.require(len(posts) >= 1, chk.fkey(an, "posts to the dependents' loop"), "Token.aio_notify must post the re-check to each dependent's event loop", chk.loc(an.module, an.node))
    protected = bool(posts) and all(any(isinstance(a, ast.Try) and any(h.type is None or src(h.type) in ("RuntimeError", "Exception") for h in a.handlers) and _in_body(a, c)
                                        and any(isinstance(b, (ast.For, ast.AsyncFor)) for b in _ancestors(a)) for a in _ancestors(c)) for c in posts)
    closers = []
    for ff in tree.nontest_funcs():
        if not (ff.module.name.startswith("scheduler") or ff.module.name in ("tokens", "locking", "ipc")):
            continue
        for c in fn_calls(ff.node):
            if tail(c) == "close" and isinstance(c.func, ast.Attribute) and re.search(r"(^|[._])loop$", src(c.func.value)):
                closers.append((ff, c))
    for ff, c in closers:
        chk.require(protected, chk.fkey(ff, "closes an event loop"),
                    f"`{src(c)}` in `{ff.qual}` closes an event loop that token dependencies of earlier experiments still reference: Token.aio_notify raises on the first such dependent, "
                    "the remaining waiting jobs are never re-checked and the exception escapes release()", chk.loc(ff.module, c))
    if not closers:
        chk.ok(chk.fkey(an, "no event loop is ever closed"), chk.loc(an.module, an.node))


def r5_wakeup_path(chk: Check):
    tree = chk.tree
    # on_deleted: gives the amount back and notifies
    f = tree.func("tokens", "CounterToken.on_deleted")
    g = CFG(f.node)
    incs = [n for n in g.live if n.kind == "stmt" and isinstance(n.ast, ast.AugAssign) and src(n.ast.target) == "self.available" and isinstance(n.ast.op, ast.Add)]
    notif = [n for n, c in g.call_nodes(lambda c: src(c) == "self.aio_notify()")]
    chk.require(len(incs) == 1 and bool(notif), chk.fkey(f, "restores and notifies"), "on_deleted must give the deleted holding back and notify", chk.loc(f.module, f.node))
    if incs and notif:
        # the only condition allowed between restoring and notifying is "something is available"
        ok = True
        for n in notif:
            conds = [(src(t.ast), pol) for t, pol in g.guards(n) if t.kind == "test"]
            extra = [c for c in conds if c[0] not in ("name in self.cache", "0 < self.available")]
            ok = ok and not extra
        chk.require(ok, chk.fkey(f, "notify condition"), "on_deleted notifies under extra conditions", chk.loc(f.module, f.node))
    event_loops_not_closed(chk)
    handlers_wake_through_the_loop(chk)
    # Dependency.check -> dependencychanged -> _readyEvent.set
    ck = tree.func("scheduler.dependencies", "Dependency.check")
    chk.require(any(tail(c) == "dependencychanged" for c in fn_calls(ck.node)), chk.fkey(ck, "check -> dependencychanged"), "Dependency.check must call the target's dependencychanged", chk.loc(ck.module, ck.node))
    dc = tree.func("scheduler.base", "Job.dependencychanged")
    from . import c07

    c07.ready_on_satisfaction(chk)
    # token status is OK exactly when the request fits
    st = tree.func("tokens", "CounterTokenDependency.status")
    g2 = CFG(st.node)
    tests = [n for n in g2.live if n.kind == "test"]
    ok = len(tests) == 1 and src(tests[0].ast) in ("self.token.available < self.count", "self._token.available < self.count")
    if ok:
        tb = [m for b, l in tests[0].succ if l is False for m, _ in b.succ]
        ok = any(m.kind == "stmt" and src(m.ast) == "return DependencyStatus.OK" for m in tb)
        # ... and a request that does not fit waits: it is neither granted nor failed
        for n in g2.live:
            if n.kind == "stmt" and isinstance(n.ast, ast.Return) and n.ast.value is not None:
                v = src(n.ast.value)
                if v == "DependencyStatus.FAIL" or (v == "DependencyStatus.OK" and (tests[0], False) not in [(t, pol) for t, pol in g2.guards(n)]):
                    ok = False
    chk.require(ok, chk.fkey(st, "OK iff fits"), "a token dependency must be OK exactly when the requested count fits in what is available", chk.loc(st.module, st.node))


def r6_no_lost_wakeup(chk: Check):
    from . import c06

    c06.r5_no_lost_wakeup(chk)


RULES = [
    ("R1", "pairing: every acquired dependency lock is owned by the enclosing `with Locks()` (released on all exits); Locks releases every member; release chains down to token.release", r1_pairing),
    ("R2", "release restores the amount, deletes the holding and notifies the dependents on every path, unconditionally, outside the locks", r2_release_restores_and_notifies),
    ("R3", "every foreign holding that is read is watched and cached on all non-exceptional paths; the watcher deletes the holding on every path", r3_foreign_holdings_watched),
    ("R4", "no explicitly raised exception (incl. re-raise, incl. package callees) can escape a watchdog event handler", r4_observer_survives),
    ("R6", "a waiting job whose request fits is woken: after an aborted start readiness is re-derived from the counter (= C06.R5)", r6_no_lost_wakeup),
    ("R5", "a wake-up path exists: on_deleted / release -> aio_notify -> Dependency.check -> dependencychanged -> ready event; token status OK iff the request fits", r5_wakeup_path),
]
