"""C10 -- job directory markers stay truthful whenever the job process dies."""

from __future__ import annotations

import ast

from ..astq import attr_stores, body_walk, dotted, src, walk_local, norm_stmt, fn_calls, is_logging_call
from ..cfg import CFG
from ..dataflow import ReachingDefs
from ..loader import Undecided
from ..report import Check
from . import c05

ASSUMPTIONS = [
    "the crash-point quantifier (SIGKILL between any two instructions) is not decided: only the ordering constraints visible in the CFG of "
    "TaskRunner.run / handle_error / cleanup are",
    "fasteners.InterProcessLock is descriptor-based and dies with the process (trusted)",
]

RAISING = c05.RAISING


from ..astq import tail  # noqa: E402


def _anc(node):
    p = getattr(node, "_parent", None)
    while p is not None:
        yield p
        p = getattr(p, "_parent", None)


def r1_success_marker(chk: Check):
    c05.r5_marker_writers(chk)
    f, g, rd, bn, bc, loop = c05.task_side(chk)
    exits = [n for n, c in g.call_nodes(lambda c: dotted(c.func) == "sys.exit")]
    chk.min_instances(len(exits), 1, "sys.exit calls in TaskRunner.run")
    for n in exits:
        arg = n.ast.value.args[0] if isinstance(n.ast, ast.Expr) and n.ast.value.args else None
        zero = isinstance(arg, ast.Constant) and arg.value == 0
        if zero:
            chk.require(g.dominates(bn, n), chk.fkey(f, "exit 0 only after the body"), "sys.exit(0) is reachable without the task body having returned: the success marker would be written for a body that did not run to completion", chk.loc(f.module, n.ast))
    # the marker writer (SystemExit handler, code == 0) is only reachable through sys.exit(0) after the body -- or a task that exits 0 itself
    c05.r4_task_side(chk)


def r2_failure_marker(chk: Check):
    tree = chk.tree
    f, g, rd, bn, bc, loop = c05.task_side(chk)
    loc = chk.loc(f.module, f.node)
    sigs = {}
    for n, c in g.call_nodes(lambda c: dotted(c.func) == "signal.signal" and len(c.args) == 2):
        if src(c.args[1]) == "self.handle_error":
            sigs[src(c.args[0])] = n
    for s in ("signal.SIGTERM", "signal.SIGINT"):
        ok = s in sigs and g.dominates(sigs[s], loop) and g.dominates(sigs[s], bn)
        chk.require(ok, chk.fkey(f, f"{s} handler installed before locking"), f"the {s} handler (handle_error) must be installed before the locks are taken and the body runs", loc)
    # handle_error: failure marker before cleanup before exit
    h = tree.func("run", "TaskRunner.handle_error")
    gh = CFG(h.node, raising_calls={"sys.exit": "SystemExit"})
    wr = [n for n, c in gh.call_nodes(lambda c: src(c.func) == "self.failedpath.write_text")]
    cl = [n for n, c in gh.call_nodes(lambda c: src(c) == "self.cleanup()")]
    ex = [n for n, c in gh.call_nodes(lambda c: dotted(c.func) == "sys.exit")]
    ok = len(wr) == 1 and len(cl) == 1 and len(ex) == 1 and gh.dominates(wr[0], cl[0]) and gh.dominates(cl[0], ex[0])
    chk.require(ok, chk.fkey(h, "marker, cleanup, exit"), "handle_error must write the failure marker, then clean up, then exit", chk.loc(h.module, h.node))
    if len(ex) == 1:
        a = ex[0].ast.value.args
        chk.require(bool(a) and isinstance(a[0], ast.Constant) and a[0].value not in (0, None), chk.fkey(h, "non-zero exit"), "handle_error must exit with a non-zero status", chk.loc(h.module, h.node))
    if wr:
        pre = [n for n in gh.live if n.kind == "stmt" and wr[0].id in gh.reachable(n) and n is not wr[0] and any(not is_logging_call(c) for c in n.calls())]
        chk.require(not pre, chk.fkey(h, "marker first"), f"handle_error does {[p.label() for p in pre]} before writing the failure marker", chk.loc(h.module, h.node))
    # SystemExit branch: non-zero -> handle_error; Exception -> handle_error
    hs = [n for n in g.live if n.kind == "except"]
    names = {src(n.ast.type) if n.ast.type else "": n for n in hs}
    chk.require("SystemExit" in names and "Exception" in names, chk.fkey(f, "handlers"), "TaskRunner.run must handle Exception and SystemExit", loc)
    if "Exception" in names:
        calls = [c for s in names["Exception"].ast.body for c in walk_local(s) if isinstance(c, ast.Call) and dotted(c.func) == "self.handle_error"]
        chk.require(len(calls) == 1, chk.fkey(f, "exception -> failure marker"), "an exception of the body must go through handle_error (failure marker)", loc)
    if "SystemExit" in names:
        hn = names["SystemExit"]
        calls = [(n, c) for n, c in g.call_nodes(lambda c: dotted(c.func) == "self.handle_error") if any(a is hn.ast for a in _anc(c))]
        ok = len(calls) == 1 and any((src(t.ast), pol) in (("e.code == 0", False), ("e.code != 0", True)) for t, pol in g.guards(calls[0][0]) if t.kind == "test")
        chk.require(ok, chk.fkey(f, "non-zero exit -> failure marker"), "a non-zero SystemExit must go through handle_error", loc)
    # stale failure marker removed only on the way to the body
    rm_nodes, nothing = removal_nodes(g, rd, "self.failedpath")
    # ... and it is removed on every path that reaches the body: the failure marker of an earlier attempt must not outlive a successful run
    chk.require(g.on_every_path(rm_nodes + nothing, end=bn), chk.fkey(f, "stale failure marker removed before the body"),
                "the task body is reachable with the failure marker of an earlier attempt still in place: a run that then succeeds leaves both markers", chk.loc(f.module, bc))
    for n in rm_nodes:
        c = n.calls()[0]
        done_b = [b for b in g.live if b.kind == "branch" and b.extra["test"] is loop and b.extra["polarity"] == "done"]
        ok = g.on_every_path([bn], start=n) and any(g.dominates(b, n) for b in done_b) and any(rd.canon(t.ast, t) == "self.donepath.is_file()" and pol is False for t, pol in g.guards(n) if t.kind == "test")
        chk.require(ok, chk.fkey(f, "stale failure marker"), "the stale failure marker may only be removed under the lock, without a success marker, on the path that runs the body", chk.loc(f.module, c))
    # other removers of the failure marker
    for ff in tree.nontest_funcs():
        for c in fn_calls(ff.node):
            if (tail(c) in ("unlink",) and "failedpath" in src(c.func)) or (dotted(c.func) == "rmfile" and c.args and "failedpath" in src(c.args[0])):
                chk.require(ff.key == "run:TaskRunner.run", chk.fkey(ff, "removes failure marker"), f"`{ff.qual}` removes a failure marker", chk.loc(ff.module, c))


def r3_cleanup_typestate(chk: Check):
    tree = chk.tree
    f, g, rd, bn, bc, loop = c05.task_side(chk)
    loc = chk.loc(f.module, f.node)
    reg = [n for n, c in g.call_nodes(lambda c: src(c) == "atexit.register(self.cleanup)")]
    chk.require(len(reg) == 1 and g.dominates(reg[0], loop), chk.fkey(f, "cleanup registered"), "the cleanup must be registered with atexit before anything else", loc)
    # the nested handler remover unregisters the cleanup only when asked to
    rsh_key = None
    for k, ff in tree.funcs.items():
        if ff.module.name == "run" and ff.parent is f and any(src(c) == "atexit.unregister(self.cleanup)" for c in fn_calls(ff.node)):
            rsh_key = ff
    unreg_in_run = [c for c in fn_calls(f.node) if src(c) == "atexit.unregister(self.cleanup)"]
    chk.require(not unreg_in_run, chk.fkey(f, "no direct unregister"), "TaskRunner.run unregisters the cleanup itself: a job that ends on its own would leave its pid file behind", loc)
    if rsh_key is not None:
        gg = CFG(rsh_key.node)
        params = [a.arg for a in rsh_key.node.args.args]
        for n, c in gg.call_nodes(lambda c: src(c) == "atexit.unregister(self.cleanup)"):
            gs = [(src(t.ast), pol) for t, pol in gg.guards(n) if t.kind == "test"]
            guard = [p for p in params if (p, True) in gs]
            chk.require(bool(guard), chk.fkey(rsh_key, "unregister only when asked"),
                        f"`{rsh_key.qual}` always unregisters the exit cleanup (its parameter {params} is not tested): on the success path the process exits with the cleanup "
                        "neither run nor registered, so a finished job keeps its pid file and holds its locks until the process is gone", chk.loc(rsh_key.module, c))
            if guard:
                # every call on a path to process exit passes a false value
                for cc in fn_calls(f.node):
                    if dotted(cc.func) == rsh_key.node.name:
                        val = None
                        for kw in cc.keywords:
                            if kw.arg == guard[0]:
                                val = kw.value
                        if val is None and cc.args:
                            val = cc.args[params.index(guard[0])] if len(cc.args) > params.index(guard[0]) else None
                        ok = isinstance(val, ast.Constant) and val.value is False
                        chk.require(ok, chk.fkey(f, "cleanup stays registered on success"), f"`{src(cc)}` unregisters the exit cleanup on the success path", chk.loc(f.module, cc))
    else:
        chk.ok(chk.fkey(f, "cleanup never unregistered in-process"), loc)
    # failure paths call cleanup explicitly (handle_error) -- checked in R2


def r4_lock_type(chk: Check):
    tree = chk.tree
    f, g, rd, bn, bc, loop = c05.task_side(chk)
    ctor = [c for s in loop.ast.body for c in walk_local(s) if isinstance(c, ast.Call) and "Lock" in (dotted(c.func) or "")]
    ok = len(ctor) == 1 and dotted(ctor[0].func) == "fasteners.InterProcessLock"
    chk.require(ok, chk.fkey(f, "descriptor-based lock"), f"the run lock is built with {[src(c.func) for c in ctor]}: it must be fasteners.InterProcessLock (dies with the process), not an existence-based lock file", chk.loc(f.module, loop.ast))
    app = [c for s in loop.ast.body for c in walk_local(s) if isinstance(c, ast.Call) and src(c.func) == "self.locks.append"]
    chk.require(len(app) == 1, chk.fkey(f, "locks recorded"), "acquired locks must be recorded for release at cleanup", chk.loc(f.module, loop.ast))


def r5_pid_under_lock(chk: Check):
    c05.r3_lock_while_starting(chk)


def removal_nodes(g, rd, target: str):
    """CFG nodes that remove the file `target` (canonical text): rmfile(target) / target.unlink(...) / os.remove(target) / os.unlink(target),
    and -- for must-pass arguments -- the branches on which there is nothing to remove (`target.is_file()` / `.exists()` false)"""
    removers, nothing = [], []
    for n in g.live:
        for c in n.calls():
            d = dotted(c.func) or ""
            if d in ("rmfile", "os.remove", "os.unlink") and c.args and rd.canon(c.args[0], n) == target:
                removers.append(n)
            elif isinstance(c.func, ast.Attribute) and c.func.attr == "unlink" and rd.canon(c.func.value, n) == target:
                removers.append(n)
        if n.kind == "branch" and n.extra["test"].kind == "test" and n.extra["polarity"] is False:
            t = n.extra["test"]
            if rd.canon(t.ast, t) in (f"{target}.is_file()", f"{target}.exists()"):
                nothing.append(n)
    return removers, nothing


def r6_cleanup_order(chk: Check):
    tree = chk.tree
    f = tree.func("run", "TaskRunner.cleanup")
    g = CFG(f.node)
    loc = chk.loc(f.module, f.node)
    rdc = ReachingDefs(g)
    rm, nothing = removal_nodes(g, rdc, "self.pidfile")
    chk.require(len(rm) == 1, chk.fkey(f, "removes pid file"), "cleanup must remove the pid file", loc)
    if len(rm) != 1:
        return
    r = rm[0]
    flag = [n for n in g.live if n.kind == "stmt" and isinstance(n.ast, ast.Assign) and src(n.ast.targets[0]) == "self.cleaned"]
    chk.require(bool(flag) and all(g.must_pass(x, g.exit, [r] + nothing) for x in flag), chk.fkey(f, "pid removal on every path"), "once cleanup has started, the pid file must be removed on every path", loc)
    # the first call really cleans: the guard flag starts False (constructor), is only ever set to True here, and under `not cleaned` the removal happens
    from ..dataflow import walk_table

    outs = walk_table(g, g.entry, lambda n: ("cleaned", True) if src(n.ast) == "self.cleaned" else None, {"cleaned": False},
                      lambda n: ["rm"] if n is r or n in nothing else [], lambda n: "exit" if n is g.exit else ("raise" if n is g.raise_ else None))
    ok = bool(outs) and all("rm" in o.events for o in outs if o.end == "exit")
    init = tree.func("run", "TaskRunner.__init__")
    inits = [v for t, v, s_ in attr_stores(init.node) if src(t) == "self.cleaned"]
    ok = ok and len(inits) == 1 and isinstance(inits[0], ast.Constant) and inits[0].value is False
    others = [(ff.qual, src(s_)) for ff in tree.nontest_funcs() if ff.module is f.module for t, v, s_ in attr_stores(ff.node)
              if src(t) == "self.cleaned" and not (ff is init) and not (ff is f and isinstance(v, ast.Constant) and v.value is True)]
    chk.require(ok and not others, chk.fkey(f, "first call cleans"), f"the first call of cleanup must remove the pid file: the `cleaned` flag must start False, be tested negatively, and only be set (to True) by cleanup itself {others or ''}", loc)
    def harmless(c, n):
        return is_logging_call(c) or (isinstance(c.func, ast.Attribute) and c.func.attr in ("is_file", "exists") and rdc.canon(c.func.value, n) == "self.pidfile")

    before = [n for n in g.live if n is not r and r.id in g.reachable(n) and any(not harmless(c, n) for c in n.calls())]
    chk.require(not before, chk.fkey(f, "pid removal first"),
                f"cleanup calls {[b.label()[:40] for b in before]} before removing the pid file: if that call raises (it is not protected), the cleaned flag is already set and "
                "a job that ended on its own leaves its pid file behind", loc)
    # lock release protected by try/except so that one failure does not stop the rest
    rel = [c for c in fn_calls(f.node) if src(c) == "lock.release()"]
    ok = bool(rel) and all(any(isinstance(a, ast.Try) and a.handlers for a in _anc(c)) for c in rel)
    chk.require(ok, chk.fkey(f, "releases locks"), "cleanup must release every recorded lock, each release protected against exceptions", loc)


RULES = [
    ("R1", "success marker: written only by TaskRunner.run's SystemExit handler under code == 0; sys.exit(0) only after the body returned; body guarded by the marker read under the lock (= C05.R4/R5)", r1_success_marker),
    ("R2", "failure marker: SIGTERM/SIGINT handlers installed before locking; handle_error writes the marker, then cleans up, then exits non-zero; exceptions and non-zero exits go through it; stale marker removed only on the way to the body", r2_failure_marker),
    ("R3", "cleanup typestate: registered with atexit at entry; unregistered only by the fork helper when asked; stays registered on the success path", r3_cleanup_typestate),
    ("R4", "the run lock is a descriptor-based inter-process lock that dies with the process", r4_lock_type),
    ("R5", "the pid file is written under the job lock after the spawn (= C05.R3)", r5_pid_under_lock),
    ("R6", "cleanup removes the pid file first, on every path, before any call that may raise; lock releases are protected", r6_cleanup_order),
]
