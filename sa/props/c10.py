"""C10 -- job directory markers stay truthful whenever the job process dies."""

from __future__ import annotations

import ast

from ..astq import attr_stores, body_walk, dotted, src, walk_local, norm_stmt, fn_calls, is_logging_call
from ..cfg import CFG
from ..dataflow import ReachingDefs
from ..loader import Undecided
from ..report import Check
from . import c05

ASSUMPTIONS = [
    "the crash-point quantifier (SIGKILL between any two instructions) is not decided: only the ordering constraints visible in the CFG of "
    "TaskRunner.run / handle_error / cleanup are",
    "fasteners.InterProcessLock is descriptor-based and dies with the process (trusted)",
]

RAISING = c05.RAISING


from ..astq import tail  # noqa: E402


def _anc(node):
    p = getattr(node, "_parent", None)
    while p is not None:
        yield p
        p = getattr(p, "_parent", None)


def r1_success_marker(chk: Check):
    c05.r5_marker_writers(chk)
    f, g, rd, bn, bc, loop = c05.task_side(chk)
    exits = [n for n, c in g.call_nodes(lambda c: dotted(c.func) == "sys.exit")]
    chk.min_instances(len(exits), 1, "sys.exit calls in TaskRunner.run")
    for n in exits:
        arg = n.ast.value.args[0] if isinstance(n.ast, ast.Expr) and n.ast.value.args else None
        zero = isinstance(arg, ast.Constant) and arg.value == 0
        if zero:
            chk.require(g.dominates(bn, n), chk.fkey(f, "exit 0 only after the body"), "sys.exit(0) is reachable without the task body having returned: the success marker would be written for a body that did not run to completion", chk.loc(f.module, n.ast))
    # the marker writer (SystemExit handler, code == 0) is only reachable through sys.exit(0) after the body -- or a task that exits 0 itself
    c05.r4_task_side(chk)


def r2_failure_marker(chk: Check):
    tree = chk.tree
    f, g, rd, bn, bc, loop = c05.task_side(chk)
    loc = chk.loc(f.module, f.node)
    sigs = {}
    for n, c in g.call_nodes(lambda c: dotted(c.func) == "signal.signal" and len(c.args) == 2):
        if src(c.args[1]) == "self.handle_error":
            sigs[src(c.args[0])] = n
    for s in ("signal.SIGTERM", "signal.SIGINT"):
        ok = s in sigs and g.dominates(sigs[s], loop) and g.dominates(sigs[s], bn)
        chk.require(ok, chk.fkey(f, f"{s} handler installed before locking"), f"the {s} handler (handle_error) must be installed before the locks are taken and the body runs", loc)
    # handle_error: failure marker before cleanup before exit
    h = tree.func("run", "TaskRunner.handle_error")
    gh = CFG(h.node, raising_calls={"sys.exit": "SystemExit"})
    wr = [n for n, c in gh.call_nodes(lambda c: src(c.func) == "self.failedpath.write_text")]
    cl = [n for n, c in gh.call_nodes(lambda c: src(c) == "self.cleanup()")]
    ex = [n for n, c in gh.call_nodes(lambda c: dotted(c.func) == "sys.exit")]
    ok = len(wr) == 1 and len(cl) == 1 and len(ex) == 1 and gh.dominates(wr[0], cl[0]) and gh.dominates(cl[0], ex[0])
    chk.require(ok, chk.fkey(h, "marker, cleanup, exit"), "handle_error must write the failure marker, then clean up, then exit", chk.loc(h.module, h.node))
    if len(ex) == 1:
        a = ex[0].ast.value.args
        chk.require(bool(a) and isinstance(a[0], ast.Constant) and a[0].value not in (0, None), chk.fkey(h, "non-zero exit"), "handle_error must exit with a non-zero status", chk.loc(h.module, h.node))
    if wr:
        pre = [n for n in gh.live if n.kind == "stmt" and wr[0].id in gh.reachable(n) and n is not wr[0] and any(not is_logging_call(c) for c in n.calls())]
        chk.require(not pre, chk.fkey(h, "marker first"), f"handle_error does {[p.label() for p in pre]} before writing the failure marker", chk.loc(h.module, h.node))
    # SystemExit branch: non-zero -> handle_error; Exception -> handle_error
    hs = [n for n in g.live if n.kind == "except"]
    names = {src(n.ast.type) if n.ast.type else "": n for n in hs}
    chk.require("SystemExit" in names and "Exception" in names, chk.fkey(f, "handlers"), "TaskRunner.run must handle Exception and SystemExit", loc)
    if "Exception" in names:
        calls = [c for s in names["Exception"].ast.body for c in walk_local(s) if isinstance(c, ast.Call) and dotted(c.func) == "self.handle_error"]
        chk.require(len(calls) == 1, chk.fkey(f, "exception -> failure marker"), "an exception of the body must go through handle_error (failure marker)", loc)
    if "SystemExit" in names:
        hn = names["SystemExit"]
        calls = [(n, c) for n, c in g.call_nodes(lambda c: dotted(c.func) == "self.handle_error") if any(a is hn.ast for a in _anc(c))]
        ok = len(calls) == 1 and any((src(t.ast), pol) in (("e.code == 0", False), ("e.code != 0", True)) for t, pol in g.guards(calls[0][0]) if t.kind == "test")
        chk.require(ok, chk.fkey(f, "non-zero exit -> failure marker"), "a non-zero SystemExit must go through handle_error", loc)
    # stale failure marker removed only on the way to the body
    rm_nodes, nothing = removal_nodes(g, rd, "self.failedpath")
    # ... and it is removed on every path that reaches the body: the failure marker of an earlier attempt must not outlive a successful run
    chk.require(g.on_every_path(rm_nodes + nothing, end=bn), chk.fkey(f, "stale failure marker removed before the body"),
                "the task body is reachable with the failure marker of an earlier attempt still in place: a run that then succeeds leaves both markers", chk.loc(f.module, bc))
    for n in rm_nodes:
        c = n.calls()[0]
        done_b = [b for b in g.live if b.kind == "branch" and b.extra["test"] is loop and b.extra["polarity"] == "done"]
        ok = g.on_every_path([bn], start=n) and any(g.dominates(b, n) for b in done_b) and any(rd.canon(t.ast, t) == "self.donepath.is_file()" and pol is False for t, pol in g.guards(n) if t.kind == "test")
        chk.require(ok, chk.fkey(f, "stale failure marker"), "the stale failure marker may only be removed under the lock, without a success marker, on the path that runs the body", chk.loc(f.module, c))
    # other removers of the failure marker
    for ff in tree.nontest_funcs():
        for c in fn_calls(ff.node):
            if (tail(c) in ("unlink",) and "failedpath" in src(c.func)) or (dotted(c.func) == "rmfile" and c.args and "failedpath" in src(c.args[0])):
                chk.require(ff.key == "run:TaskRunner.run", chk.fkey(ff, "removes failure marker"), f"`{ff.qual}` removes a failure marker", chk.loc(ff.module, c))


def r3_cleanup_typestate(chk: Check):
    tree = chk.tree
    f, g, rd, bn, bc, loop = c05.task_side(chk)
    loc = chk.loc(f.module, f.node)
    reg = [n for n, c in g.call_nodes(lambda c: src(c) == "atexit.register(self.cleanup)")]
    chk.require(len(reg) == 1 and g.dominates(reg[0], loop), chk.fkey(f, "cleanup registered"), "the cleanup must be registered with atexit before anything else", loc)
    unreg_in_run = [c for c in fn_calls(f.node) if src(c) == "atexit.unregister(self.cleanup)"]
    chk.require(not unreg_in_run, chk.fkey(f, "no direct unregister"), "TaskRunner.run unregisters the cleanup itself: a job that ends on its own would leave its pid file behind", loc)
    # ... nor through a nested helper called on a path to the process exit (the same helper may unregister it in a forked child)
    nested = _nested_helpers(tree, f)
    direct = 0
    for cc in fn_calls(f.node):
        cn = dotted(cc.func)
        if cn in nested and cn not in ("self.cleanup", "self.handle_error"):
            direct += 1
            unreg, _ = _helper_effects(nested, nested[cn].node, _call_env(nested[cn].node, cc), {cn}, may=True)
            chk.require(not unreg, chk.fkey(f, "cleanup stays registered on success"),
                        f"`{src(cc)}` unregisters the exit cleanup on a path to the process exit: the process ends with the cleanup neither run nor registered, "
                        "so a finished job keeps its pid file and holds its locks until the process is gone", chk.loc(f.module, cc))
    chk.count("direct_calls_of_nested_helpers", direct)
    # failure paths call cleanup explicitly (handle_error) -- checked in R2
    fork_protection(chk)


class _N:
    def __init__(self, node):
        self.node = node


def _nested_helpers(tree, f):
    """function definitions nested in `f` as they stand after the load-time normal forms (a helper spliced into `f` brings its own nested definitions)"""
    out = {}
    stack = list(f.node.body)
    while stack:
        st = stack.pop()
        if isinstance(st, (ast.FunctionDef, ast.AsyncFunctionDef)):
            out[st.name] = _N(st)
            continue
        for fld in ("body", "orelse", "finalbody"):
            stack.extend(getattr(st, fld, []) or [])
        for h in getattr(st, "handlers", []) or []:
            stack.extend(h.body)
    # ... and the methods of the same class (a closure turned into a method): `self.<name>`
    if f.cls is not None:
        for name, m in f.cls.methods.items():
            if m is not f and not isinstance(m.node, ast.Lambda):
                out["self." + name] = _N(m.node)
    return out


def _call_env(callee, call):
    env = _defaults(callee)
    ps = [a.arg for a in callee.args.posonlyargs + callee.args.args]
    if ps and ps[0] == "self" and isinstance(call.func, ast.Attribute):
        ps = ps[1:]
    for i, a in enumerate(call.args):
        if i < len(ps):
            env[ps[i]] = a
    for k in call.keywords:
        if k.arg:
            env[k.arg] = k.value
    return env


def _helper_effects(nested, fn_node, env, seen, depth=0, may=False):
    """(unregisters the exit cleanup?, signals whose handler is set to something else than handle_error) on the statements of a nested helper that
    are executed for sure under `env` (parameter -> argument expression): an `if <param>` with a constant argument follows one branch, any
    other condition contributes nothing"""
    unreg, restored = False, set()

    def walk(stmts) -> bool:
        """effects of the statements executed for sure; returns True when the sequence ends the function (return / raise)"""
        nonlocal unreg
        for st in stmts:
            if isinstance(st, (ast.Return, ast.Raise)):
                scan(st)
                return True
            if isinstance(st, ast.If):
                t = st.test
                neg = isinstance(t, ast.UnaryOp) and isinstance(t.op, ast.Not)
                tn = t.operand if neg else t
                known = None
                if isinstance(tn, ast.Constant):
                    known = bool(tn.value) ^ neg
                elif isinstance(tn, ast.Name) and tn.id in env and isinstance(env[tn.id], ast.Constant):
                    known = bool(env[tn.id].value) ^ neg
                if known is not None:
                    if walk(st.body if known else st.orelse):
                        return True
                elif may:
                    a = walk(st.body)
                    b = walk(st.orelse)
                    if a and b:
                        return True
                continue
            if isinstance(st, (ast.With, ast.Try)):
                if walk(st.body):
                    return True
                if may and isinstance(st, ast.Try):
                    for h in st.handlers:
                        walk(h.body)
                    walk(st.orelse)
                    walk(st.finalbody)
                continue
            if isinstance(st, (ast.For, ast.While)) and may:
                walk(st.body)
                continue
            if isinstance(st, (ast.For, ast.While, ast.FunctionDef, ast.AsyncFunctionDef)):
                continue
            scan(st)
        return False

    def scan(st):
        nonlocal unreg
        for c in [x for x in ast.walk(st) if isinstance(x, ast.Call)]:
            if src(c) == "atexit.unregister(self.cleanup)":
                unreg = True
            if dotted(c.func) == "signal.signal" and len(c.args) == 2 and src(c.args[1]) != "self.handle_error":
                restored.add(src(c.args[0]))
            cn = dotted(c.func)
            if cn in nested and cn not in seen and depth < 3:
                u2, r2 = _helper_effects(nested, nested[cn].node, _call_env(nested[cn].node, c), seen | {cn}, depth + 1, may)
                unreg = unreg or u2
                restored.update(r2)

    walk(fn_node.body)
    return unreg, restored


def fork_protection(chk: Check):
    """A process forked by the task body inherits the runner's signal handlers and exit hook: its SIGTERM would write the failure marker and its
    exit would delete the pid file and release the locks of the job that is still running.  The after-fork hook must undo both in the child."""
    tree = chk.tree
    f = tree.func("run", "TaskRunner.run")
    loc = chk.loc(f.module, f.node)
    hooks = [c for c in fn_calls(f.node) if dotted(c.func) == "os.register_at_fork"]
    chk.require(len(hooks) >= 1, chk.fkey(f, "after-fork hook registered"), "TaskRunner.run registers no after-fork hook: forked children keep the runner's signal handlers and exit cleanup", loc)
    nested = _nested_helpers(tree, f)
    unreg, restored = False, set()
    for h in hooks:
        tgt = next((k.value for k in h.keywords if k.arg == "after_in_child"), None)
        if tgt is not None and dotted(tgt) in nested:
            u, r = _helper_effects(nested, nested[dotted(tgt)].node, _defaults(nested[dotted(tgt)].node), {dotted(tgt)})
        elif isinstance(tgt, ast.Lambda):
            u, r = _helper_effects(nested, ast.FunctionDef(name="<lambda>", args=tgt.args, body=[ast.Expr(tgt.body)], decorator_list=[]), {}, set())
        else:
            continue
        unreg = unreg or u
        restored |= r
    if hooks:
        chk.require(unreg, chk.fkey(f, "forked child drops the exit cleanup"), "the after-fork hook does not unregister the exit cleanup in the child: a forked helper that exits removes the pid file "
                    "and releases the locks of the job that is still running", loc)
        chk.require({"signal.SIGTERM", "signal.SIGINT"} <= restored, chk.fkey(f, "forked child drops the signal handlers"),
                    f"the after-fork hook restores {sorted(restored)} only: a forked helper that is terminated runs handle_error -- failure marker written and pid file removed while the job itself runs on", loc)


def _defaults(fn_node):
    a = fn_node.args
    pos = a.posonlyargs + a.args
    env = {}
    for prm, d in zip(pos[len(pos) - len(a.defaults):], a.defaults):
        env[prm.arg] = d
    for prm, d in zip(a.kwonlyargs, a.kw_defaults):
        if d is not None:
            env[prm.arg] = d
    return env


def r4_lock_type(chk: Check):
    tree = chk.tree
    f, g, rd, bn, bc, loop = c05.task_side(chk)
    ctor = [c for s in loop.ast.body for c in walk_local(s) if isinstance(c, ast.Call) and "Lock" in (dotted(c.func) or "")]
    ok = len(ctor) == 1 and dotted(ctor[0].func) == "fasteners.InterProcessLock"
    chk.require(ok, chk.fkey(f, "descriptor-based lock"), f"the run lock is built with {[src(c.func) for c in ctor]}: it must be fasteners.InterProcessLock (dies with the process), not an existence-based lock file", chk.loc(f.module, loop.ast))
    app = [c for s in loop.ast.body for c in walk_local(s) if isinstance(c, ast.Call) and src(c.func) == "self.locks.append"]
    chk.require(len(app) == 1, chk.fkey(f, "locks recorded"), "acquired locks must be recorded for release at cleanup", chk.loc(f.module, loop.ast))


def script_literals(chk: Check):
    """The generated script is Python source: the paths and values it embeds are written as Python literals (repr), not with a shell quoting
    function between quotes (a space or a non-ASCII letter in the workspace path then yields a path that starts with a quote: no marker is ever
    written and the process file stays)"""
    tree = chk.tree
    w = tree.func("scriptbuilder", "PythonScriptBuilder.write")
    sh = [c for c in ast.walk(w.node) if isinstance(c, ast.Call) and (dotted(c.func) or "").split(".")[-1] in ("shquote", "quote")]
    chk.require(not sh, chk.fkey(w, "python literals"), f"the job script embeds `{src(sh[0])[:50] if sh else ''}` (shell quoting) inside a Python string literal", chk.loc(w.module, sh[0] if sh else w.node))
    runner = [x for x in ast.walk(w.node) if isinstance(x, ast.JoinedStr) and "TaskRunner(" in "".join(v.value for v in x.values if isinstance(v, ast.Constant) and isinstance(v.value, str))]
    ok = bool(runner) and all(any(isinstance(v, ast.FormattedValue) and v.conversion == ord("r") for v in x.values) for x in runner)
    chk.require(ok, chk.fkey(w, "script path written with repr"), "the script path handed to TaskRunner is not written as a Python literal", chk.loc(w.module, w.node))


def r5_pid_under_lock(chk: Check):
    script_literals(chk)
    c05.r3_lock_while_starting(chk)


def removal_nodes(g, rd, target: str):
    """CFG nodes that remove the file `target` (canonical text): rmfile(target) / target.unlink(...) / os.remove(target) / os.unlink(target),
    and -- for must-pass arguments -- the branches on which there is nothing to remove (`target.is_file()` / `.exists()` false)"""
    removers, nothing = [], []
    for n in g.live:
        for c in n.calls():
            d = dotted(c.func) or ""
            if d in ("rmfile", "os.remove", "os.unlink") and c.args and rd.canon(c.args[0], n) == target:
                removers.append(n)
            elif isinstance(c.func, ast.Attribute) and c.func.attr == "unlink" and rd.canon(c.func.value, n) == target:
                removers.append(n)
        if n.kind == "branch" and n.extra["test"].kind == "test" and n.extra["polarity"] is False:
            t = n.extra["test"]
            if rd.canon(t.ast, t) in (f"{target}.is_file()", f"{target}.exists()"):
                nothing.append(n)
    return removers, nothing


def is_pure_arg(a) -> bool:
    """names, attribute chains and constants: evaluating them cannot raise in a running TaskRunner"""
    return all(isinstance(x, (ast.Name, ast.Attribute, ast.Constant, ast.Load)) for x in ast.walk(a))


def r6_cleanup_order(chk: Check):
    tree = chk.tree
    f = tree.func("run", "TaskRunner.cleanup")
    g = CFG(f.node)
    loc = chk.loc(f.module, f.node)
    rdc = ReachingDefs(g)
    rm, nothing = removal_nodes(g, rdc, "self.pidfile")
    chk.require(len(rm) == 1, chk.fkey(f, "removes pid file"), "cleanup must remove the pid file", loc)
    if len(rm) != 1:
        return
    r = rm[0]
    flag = [n for n in g.live if n.kind == "stmt" and isinstance(n.ast, ast.Assign) and src(n.ast.targets[0]) == "self.cleaned"]
    chk.require(bool(flag) and all(g.must_pass(x, g.exit, [r] + nothing) for x in flag), chk.fkey(f, "pid removal on every path"), "once cleanup has started, the pid file must be removed on every path", loc)
    # the first call really cleans: the guard flag starts False (constructor), is only ever set to True here, and under `not cleaned` the removal happens
    from ..dataflow import walk_table

    outs = walk_table(g, g.entry, lambda n: ("cleaned", True) if src(n.ast) == "self.cleaned" else None, {"cleaned": False},
                      lambda n: ["rm"] if n is r or n in nothing else [], lambda n: "exit" if n is g.exit else ("raise" if n is g.raise_ else None))
    ok = bool(outs) and all("rm" in o.events for o in outs if o.end == "exit")
    init = tree.func("run", "TaskRunner.__init__")
    inits = [v for t, v, s_ in attr_stores(init.node) if src(t) == "self.cleaned"]
    ok = ok and len(inits) == 1 and isinstance(inits[0], ast.Constant) and inits[0].value is False
    others = [(ff.qual, src(s_)) for ff in tree.nontest_funcs() if ff.module is f.module for t, v, s_ in attr_stores(ff.node)
              if src(t) == "self.cleaned" and not (ff is init) and not (ff is f and isinstance(v, ast.Constant) and v.value is True)]
    chk.require(ok and not others, chk.fkey(f, "first call cleans"), f"the first call of cleanup must remove the pid file: the `cleaned` flag must start False, be tested negatively, and only be set (to True) by cleanup itself {others or ''}", loc)
    def harmless(c, n):
        return is_logging_call(c) or (isinstance(c.func, ast.Attribute) and c.func.attr in ("is_file", "exists") and rdc.canon(c.func.value, n) == "self.pidfile") \
            or (isinstance(c.func, ast.Name) and c.func.id in ("len", "str", "repr", "int", "bool", "type", "isinstance", "id") and all(is_pure_arg(a) for a in c.args))

    before = [n for n in g.live if n is not r and r.id in g.reachable(n) and any(not harmless(c, n) for c in n.calls())]
    chk.require(not before, chk.fkey(f, "pid removal first"),
                f"cleanup calls {[b.label()[:40] for b in before]} before removing the pid file: if that call raises (it is not protected), the cleaned flag is already set and "
                "a job that ended on its own leaves its pid file behind", loc)
    # lock release protected by try/except so that one failure does not stop the rest
    rel = [c for c in fn_calls(f.node) if src(c) == "lock.release()"]
    ok = bool(rel) and all(any(isinstance(a, ast.Try) and a.handlers for a in _anc(c)) for c in rel)
    chk.require(ok, chk.fkey(f, "releases locks"), "cleanup must release every recorded lock, each release protected against exceptions", loc)



def r7_forked_child_exits(chk: Check):
    """A process forked by the task body that leaves through sys.exit / an exception unwinds through TaskRunner.run's own handlers and writes the
    markers of the job that is still running (finding kept in known_findings.json)"""
    tree = chk.tree
    f = tree.func("run", "TaskRunner.run")
    hs = [h for h in ast.walk(f.node) if isinstance(h, ast.ExceptHandler) and h.type is not None and src(h.type) in ("SystemExit", "Exception")]
    guarded = all(any(isinstance(c, ast.Call) and dotted(c.func) == "os.getpid" for c in ast.walk(h)) for h in hs) and bool(hs)
    chk.require(guarded, chk.fkey(f, "handlers run in forked children"), "the `except SystemExit` / `except Exception` clauses of TaskRunner.run are not restricted to the process that took the locks: "
                "a child forked by the task body that calls sys.exit(0) touches the success marker while the body is still running", chk.loc(f.module, f.node))


RULES = [
    ("R1", "success marker: written only by TaskRunner.run's SystemExit handler under code == 0; sys.exit(0) only after the body returned; body guarded by the marker read under the lock (= C05.R4/R5)", r1_success_marker),
    ("R2", "failure marker: SIGTERM/SIGINT handlers installed before locking; handle_error writes the marker, then cleans up, then exits non-zero; exceptions and non-zero exits go through it; stale marker removed only on the way to the body", r2_failure_marker),
    ("R3", "cleanup typestate: registered with atexit at entry; unregistered only by the fork helper when asked; stays registered on the success path", r3_cleanup_typestate),
    ("R4", "the run lock is a descriptor-based inter-process lock that dies with the process", r4_lock_type),
    ("R5", "the pid file is written under the job lock after the spawn (= C05.R3)", r5_pid_under_lock),
    ("R6", "cleanup removes the pid file first, on every path, before any call that may raise; lock releases are protected", r6_cleanup_order),
    ("R7", "forked children and the runner's exception handlers (finding kept in known_findings.json)", r7_forked_child_exits),
]
