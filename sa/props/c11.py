"""C11 -- restarting a killed experiment adopts running jobs and repeats nothing (necessary conditions)."""

from __future__ import annotations

import ast

from ..astq import attr_stores, body_walk, dotted, src, walk_local, norm_stmt, fn_calls
from ..cfg import CFG
from ..dataflow import ReachingDefs, walk_table
from ..loader import Undecided
from ..report import Check
from ..sched import JobStates
from . import c05, c10

ASSUMPTIONS = [
    "everything that depends on *when* the scheduler dies (between spawn and pid file, while tokens are held), signal delivery to process "
    "groups, and the token directory after restart is NOT decided: this is the larger part of C11; only necessary structural conditions are",
    "psutil / subprocess semantics (a child started with Popen survives its parent unless it shares pipes with it) are trusted",
]


from ..astq import tail  # noqa: E402


def _anc(node):
    p = getattr(node, "_parent", None)
    while p is not None:
        yield p
        p = getattr(p, "_parent", None)


def r1_adoption_precedes_start(chk: Check):
    tree = chk.tree
    js = JobStates(tree)
    sub = tree.func("scheduler.base", "Scheduler.aio_submit")
    g = CFG(sub.node)
    rd = ReachingDefs(g)
    loc = chk.loc(sub.module, sub.node)
    proc = [n for n, c in g.call_nodes(lambda c: src(c) == "job.aio_process()")]
    starts = [n for n, c in g.call_nodes(lambda c: dotted(c.func) == "self.aio_start")]
    chk.require(len(proc) == 1 and bool(starts) and all(g.dominates(proc[0], s) for s in starts), chk.fkey(sub, "process lookup before start"),
                "aio_submit must look for an already running process of the job (job.aio_process()) before it can start one", loc)
    if len(proc) != 1:
        return
    # adoption branch: entered when a process was found (and the job is not finished), waits for it, ends final, never starts
    tests = [n for n in g.live if n.kind == "test" and rd.canon(n.ast, n) in ("await job.aio_process() is None",)]
    chk.require(len(tests) == 1, chk.fkey(sub, "adoption test"), "the found process must be tested with `is not None`", loc)
    if len(tests) != 1:
        return
    t = tests[0]
    tb = [b for b, l in t.succ if l is False][0]
    region = g.reachable(tb, avoid=[x for x in g.live if x.kind == "test" and src(x.ast) in ("job.donepath.exists()", "job.donepath.is_file()") and g.dominates(t, x) and not g.dominates(tb, x)])
    waits = [n for n, c in g.call_nodes(lambda c: src(c) == "process.aio_code()") if g.dominates(tb, n)]
    chk.require(len(waits) == 1, chk.fkey(sub, "adoption waits"), "an adopted process must be waited for (process.aio_code())", loc)
    # every path from the wait to the end of the adoption branch stores a final state (DONE / ERROR) into job.state
    fin = [n for n in g.live if n.kind == "stmt" and isinstance(n.ast, ast.Assign) and src(n.ast.targets[0]) == "job.state" and js.const(n.ast.value) in ("DONE", "ERROR") and g.dominates(tb, n)]
    ok = bool(fin) and bool(waits) and all(g.dominates(waits[0], x) for x in fin) and {js.const(x.ast.value) for x in fin} == {"DONE", "ERROR"}
    if ok:
        after = [x for x in g.live if x.kind == "test" and src(x.ast) in ("job.donepath.exists()", "job.donepath.is_file()") and g.dominates(t, x) and not g.dominates(tb, x)]
        ok = bool(after) and all(g.must_pass(waits[0], a, fin) for a in after)
    chk.require(ok, chk.fkey(sub, "adoption ends final"), "after an adopted process ended the job state must be set to DONE or ERROR", loc)
    inside = [s for s in starts if g.dominates(tb, s)]
    chk.require(not inside, chk.fkey(sub, "adoption never starts"), "the adoption branch starts the job again", loc)
    # the adoption sets RUNNING before waiting so that nothing else starts it
    run = [n for n in g.live if n.kind == "stmt" and src(n.ast) == "job.state = JobState.RUNNING" and g.dominates(tb, n)]
    chk.require(len(run) == 1 and waits and g.dominates(run[0], waits[0]), chk.fkey(sub, "adoption marks running"), "an adopted job must be marked RUNNING before waiting for it", loc)
    # a finished job is not adopted: the pid file of a job whose success marker exists is stale (pid re-use) -- adoption is entered only with the
    # job state open, and the marker was turned into DONE before that test
    for r in run:
        gs = [(src(x.ast), pol) for x, pol in g.guards(r) if x.kind == "test"]
        chk.require(("job.state.finished()", False) in gs, chk.fkey(sub, "no adoption of a finished job"), "a job already final (success marker, cancelled) is marked RUNNING when a process matches its pid file", loc)
        marker = []
        for x in g.live:
            if x.kind == "test" and src(x.ast) in ("job.donepath.exists()", "job.donepath.is_file()"):
                nxt = [m for b, l in x.succ if l is True for m, _ in b.succ]
                if any(m.kind == "stmt" and src(m.ast) == "job.state = JobState.DONE" for m in nxt):
                    marker.append(x)
        chk.require(bool(marker) and g.must_pass(g.entry, r, marker), chk.fkey(sub, "marker read before adoption"),
                    "the adoption branch is reachable without the success marker having been turned into DONE: a job that succeeded earlier waits for whatever process re-used its pid", loc)


def _anc2(node):
    p = getattr(node, "_parent", None)
    while p is not None:
        yield p
        p = getattr(p, "_parent", None)


def r2_adoption_decision(chk: Check):
    tree = chk.tree
    f = tree.func("commandline", "CommandLineJob.aio_process")
    g = CFG(f.node)
    rd = ReachingDefs(g)

    def classify(n):
        t = rd.canon(n.ast, n)
        s = src(n.ast)
        if s == "self._process":
            return ("own", True)
        if s == "self.pidpath.is_file()":
            return ("pid", True)
        if s.endswith(" is None") and "fromDefinition" in t:
            return ("pnone", True)
        if s.endswith(" is not None") and "fromDefinition" in t:
            return ("pnone", False)
        if "aio_isrunning()" in s:
            return ("running", True)
        return None

    def stop(n):
        if n.kind == "stmt" and isinstance(n.ast, ast.Return):
            v = n.ast.value
            if v is None or (isinstance(v, ast.Constant) and v.value is None):
                return "return None"
            c = rd.canon(v, n)
            return "return own" if c == "self._process" else ("return rebuilt" if "fromDefinition" in c else "return " + c)
        if n is g.exit:
            return "return None"
        return None

    cases = [
        ({"own": True}, "return own", "the job's own process object"),
        ({"own": False, "pid": False}, "return None", "no pid file: nothing to adopt"),
        ({"own": False, "pid": True, "pnone": True}, "return None", "pid file names a vanished process"),
        ({"own": False, "pid": True, "pnone": False, "running": True}, "return rebuilt", "pid file names a running process: adopt it"),
        ({"own": False, "pid": True, "pnone": False, "running": False}, "return None", "pid file names a process that is not running"),
    ]
    for sc, want, text in cases:
        full = {"own": None, "pid": None, "pnone": None, "running": None}
        full.update(sc)
        outs = walk_table(g, g.entry, classify, full, lambda n: [], stop)
        ends = {o.end for o in outs}
        unk = [u[0] for o in outs for u in o.unknown if u[2] is None]
        chk.require(ends == {want} and not unk, chk.fkey(f, str(sc)), f"aio_process under {sc} gives {sorted(ends)}{' depending on ' + str(unk) if unk else ''}; expected `{want}` ({text})", chk.loc(f.module, f.node))
    # "running" is "alive": a process that exists (sleeping in I/O, stopped, ...) is running for adoption purposes -- no other condition
    st = tree.func("connectors.local", "PsutilProcess.aio_state")
    g3 = CFG(st.node)

    def cls3(n):
        return ("alive", True) if src(n.ast) in ("self._process.is_running()",) else None

    def stop3(n):
        if n.kind == "stmt" and isinstance(n.ast, ast.Return):
            return "return " + (src(n.ast.value) if n.ast.value is not None else "None")
        return "return None" if n is g3.exit else None

    for alive, want in ((True, "return ProcessState.RUNNING"), (False, "return ProcessState.FINISHED")):
        outs = walk_table(g3, g3.entry, cls3, {"alive": alive}, lambda n: [], stop3)
        ends = {o.end for o in outs}
        unk = [u[0] for o in outs for u in o.unknown if u[2] is None]
        chk.require(ends == {want} and not unk, chk.fkey(st, f"alive={alive}"),
                    f"PsutilProcess.aio_state with a process that is {'alive' if alive else 'gone'} gives {sorted(ends)}{' depending on ' + str(unk) if unk else ''}; expected `{want}`: "
                    "a live job that is not recognised as running is not adopted but launched a second time", chk.loc(st.module, st.node))
    # a process file that cannot be parsed (scheduler killed while writing it) means `no known process`, not an exception that leaves the job
    # without a final state
    loads = [c for c in fn_calls(f.node) if dotted(c.func) == "json.loads"]
    for c in loads:
        covered = any(isinstance(a, ast.Try) and any(h.type is None or any(k in src(h.type) for k in ("ValueError", "JSONDecodeError", "Exception")) for h in a.handlers)
                      and any(c is y for st in a.body for y in ast.walk(st)) for a in _anc2(c))
        chk.require(covered, chk.fkey(f, "unreadable process file"), "json.loads of the process file is not protected: an empty file left by a scheduler killed while writing it makes aio_submit die "
                    "and the job never reaches a final state", chk.loc(f.module, c))
    fs = tree.func("connectors.local", "LocalProcess.fromspec")
    hs = [h for h in ast.walk(fs.node) if isinstance(h, ast.ExceptHandler)]
    ok = any(h.type is not None and "NoSuchProcess" in src(h.type) and not any(isinstance(x, ast.Raise) for x in ast.walk(h)) for h in hs)
    chk.require(ok, chk.fkey(fs, "vanished pid -> None"), "LocalProcess.fromspec must map a vanished pid to None (not raise)", chk.loc(fs.module, fs.node))


def r3_detached(chk: Check):
    tree = chk.tree
    ar = tree.func("commandline", "CommandLineJob.aio_run")
    loc = chk.loc(ar.module, ar.node)
    for stream in ("stdout", "stderr"):
        st = [s for s in body_walk(ar.node) if isinstance(s, ast.Assign) and src(s.targets[0]) == f"processbuilder.{stream}"]
        ok = len(st) == 1 and src(st[0].value) == f"Redirect.file(self.{stream})"
        chk.require(ok, chk.fkey(ar, f"{stream} to file"), f"the job's {stream} must be redirected to a file ({[src(s.value) for s in st]}): a pipe owned by the scheduler would break the job when the scheduler dies", loc)
    chk.require(not any("Redirect.pipe" in src(c) for c in fn_calls(ar.node)), chk.fkey(ar, "no pipe"), "the job process must not be connected to the scheduler through a pipe", loc)
    det = [s for s in body_walk(ar.node) if isinstance(s, ast.Assign) and src(s.targets[0]) == "processbuilder.detach"]
    chk.require(all(isinstance(s.value, ast.Constant) and s.value.value is True for s in det), chk.fkey(ar, "detached"), "the job process builder must stay detached", loc)
    pb = tree.func("connectors", "ProcessBuilder.__init__")
    st = [s for s in body_walk(pb.node) if isinstance(s, ast.Assign) and src(s.targets[0]) == "self.detach"]
    chk.require(len(st) == 1 and isinstance(st[0].value, ast.Constant) and st[0].value.value is True, chk.fkey(pb, "detach default"), "ProcessBuilder.detach must default to True", chk.loc(pb.module, pb.node))
    lb = tree.func("connectors.local", "LocalProcessBuilder.start")
    pop = [c for c in fn_calls(lb.node) if dotted(c.func) == "subprocess.Popen"]
    chk.min_instances(len(pop), 1, "Popen calls in LocalProcessBuilder.start")
    for c in pop:
        kws = {k.arg for k in c.keywords}
        chk.require("preexec_fn" not in kws, chk.fkey(lb, "no preexec_fn"), "the job Popen must not install a preexec_fn (e.g. a parent-death signal)", chk.loc(lb.module, c))
    # the scheduler does not kill jobs when it stops: no kill() reachable from experiment.__exit__ / stop / SignalHandler
    for q in ("experiment.__exit__", "experiment.stop", "SignalHandler.__call__"):
        f = tree.func("scheduler.base", q)
        bad = [src(c) for c in fn_calls(f.node) if tail(c) in ("kill", "terminate", "send_signal")]
        chk.require(not bad, chk.fkey(f, "does not kill jobs"), f"`{q}` calls {bad}: jobs must keep running when the experiment process stops", chk.loc(f.module, f.node))


def r4_relaunch_serialised(chk: Check):
    c05.r2_marker_shortcircuit(chk)
    c05.r3_lock_while_starting(chk)
    c05.r4_task_side(chk)
    c05.r5_marker_writers(chk)


def r5_stale_tokens_reclaimed(chk: Check):
    from . import c09

    c09.r3_foreign_holdings_watched(chk)


def r6_start_regenerates(chk: Check):
    """a scheduler killed while writing the job script leaves a truncated / non-executable file: every start must regenerate it"""
    tree = chk.tree
    f = tree.func("commandline", "CommandLineJob.prepare")
    g = CFG(f.node)
    wr = [n for n, c in g.call_nodes(lambda c: tail(c) == "write" and "scriptbuilder" in src(c.func))]
    rets = [n for n in g.live if n.kind == "stmt" and isinstance(n.ast, ast.Return)]
    ok = bool(wr) and g.on_every_path(wr)
    chk.require(ok, chk.fkey(f, "script written on every path"), "prepare() must write the job script and its parameter file on every path (an existing file may be the truncated leftover of a killed scheduler)", chk.loc(f.module, f.node))
    run_ = tree.func("commandline", "CommandLineJob.aio_run")
    gr = CFG(run_.node)
    rdr = ReachingDefs(gr)
    pr = [n for n, c in gr.call_nodes(lambda c: src(c.func) == "self.prepare")]
    starts = [n for n, c in gr.call_nodes(lambda c: tail(c) == "start" and "processbuilder" in rdr.canon(c.func.value, gr.entry) or tail(c) == "start")]
    chk.require(bool(pr) and all(any(gr.dominates(p_, s_) for p_ in pr) for s_ in starts) and bool(starts), chk.fkey(run_, "prepare before start"), "aio_run must prepare the job files before starting the process", chk.loc(run_.module, run_.node))


def r7_forked_children_harmless(chk: Check):
    """Adoption needs the pid file of a running job: a forked child of the task body must neither delete it at its exit nor on SIGTERM (= C10.R3, fork protection)"""
    from .c10 import fork_protection

    fork_protection(chk)



def r8_own_session(chk: Check):
    """A job outlives its scheduler only if what kills the scheduler does not reach it: a detached job must get its own session / process group,
    or the terminal's Ctrl-C / hang-up is delivered to the job as well (finding kept in known_findings.json)"""
    tree = chk.tree
    st = tree.func("connectors.local", "LocalProcessBuilder.start")
    pop = [c for c in ast.walk(st.node) if isinstance(c, ast.Call) and (dotted(c.func) or "").split(".")[-1] == "Popen"]
    chk.min_instances(len(pop), 1, "Popen calls of LocalProcessBuilder.start")
    text = src(st.node)
    own = any(k in text for k in ("start_new_session", "process_group", "setsid", "setpgrp"))
    chk.require(own, chk.fkey(st, "detached job has its own session"), "the detached job process stays in the scheduler's session and process group: a Ctrl-C or a closed terminal "
                "kills the job with the scheduler, the next run finds nothing to adopt and the body runs again", chk.loc(st.module, st.node))



def r9_stopping_unwinds_nothing(chk: Check):
    """Stopping the scheduler leaves the coroutine of a running job where it is: cancelling it would unwind `with Locks()` and give back the
    tokens of a job that is still alive (the next run then launches the waiting jobs beside the adopted one).  And a re-run registers its
    dependencies before counting them down (= C04.R4): a join whose first parent is already done must still wait for the other"""
    tree = chk.tree
    n = 0
    for ff in tree.nontest_funcs():
        if not ff.module.name.startswith("scheduler"):
            continue
        n += 1
        for c in fn_calls(ff.node):
            if tail(c) == "cancel" and isinstance(c.func, ast.Attribute) and not c.args:
                chk.violation(chk.fkey(ff, "cancels scheduler tasks"), f"`{src(c)}` in `{ff.qual}` cancels a scheduler coroutine: `with Locks()` of aio_start unwinds and the tokens of running jobs are given back", chk.loc(ff.module, c))
    chk.min_instances(n, 20, "scheduler functions scanned for task cancellation")
    if not any(i["rule"].endswith("R9") and i["verdict"] == "VIOLATED" for i in chk.instances):
        chk.ok("scheduler:no coroutine is cancelled", "")
    from .c04 import r4_registration_order

    r4_registration_order(chk)

RULES = [
    ("R1", "adoption precedes start: job.aio_process() dominates every start; the adoption branch marks RUNNING, waits for the process, ends DONE/ERROR and never starts the job", r1_adoption_precedes_start),
    ("R2", "adoption decision table of CommandLineJob.aio_process (own process / no pid file / vanished / running / not running); a vanished pid maps to None", r2_adoption_decision),
    ("R3", "the job does not depend on the scheduler's life: stdout/stderr to files, no pipe, detached by default, no preexec_fn, stopping the experiment kills nothing", r3_detached),
    ("R6", "every start regenerates the job script and parameter file (prepare writes them on every path, before the process is started)", r6_start_regenerates),
    ("R4", "a relaunch behind a still-running body is serialised by the same lock and then finds the marker, which nothing removes (= C05.R2-R5)", r4_relaunch_serialised),
    ("R7", "a process forked by the task body drops the runner's exit cleanup and signal handlers: the pid file of the running job survives its helpers (= C10.R3)", r7_forked_children_harmless),
    ("R5", "token holdings left by a dead scheduler are reclaimed after restart: every foreign holding that is read is watched (at construction of the token too) and its watcher deletes it (= C09.R3)", r5_stale_tokens_reclaimed),
    ("R8", "a detached job gets its own session (finding kept in known_findings.json)", r8_own_session),
    ("R9", "stopping the scheduler cancels no job coroutine (tokens of running jobs stay taken); dependencies are counted before they are checked (= C04.R4)", r9_stopping_unwinds_nothing),
]
