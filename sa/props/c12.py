"""C12 -- saving and loading a configuration graph loses nothing (writer/reader agreement)."""

from __future__ import annotations

import ast
import re

from ..astq import attr_stores, body_walk, dotted, src, walk_local, norm_stmt, fn_calls
from ..cfg import CFG
from ..dataflow import ReachingDefs
from ..loader import Undecided
from ..report import Check

ASSUMPTIONS = [
    "value equality after JSON (floats, big ints), importability of user classes and DataPath copying on disk are not decided",
    "only writer/reader table agreement and ordering (sharing, cycles) are decided, not the isomorphism of arbitrary graphs at run time",
]


from ..astq import tail  # noqa: E402


def _anc(node):
    p = getattr(node, "_parent", None)
    while p is not None:
        yield p
        p = getattr(p, "_parent", None)


# key -> (allowed guards for writing it, what it is written from)
WRITER_GUARDS = {
    "pre-tasks": ({"self.pre_tasks"}, "self.pre_tasks"),
    "init-tasks": ({"self.init_tasks"}, "self.init_tasks"),
    "meta": ({"not self.meta is None", "not self._meta is None"}, "self.meta"),
    "task": ({"not self.task is None"}, "self.task"),
    "file": ({"not self.xpmtype._package"}, "self.xpmtype._file"),
}
ALWAYS = {"id", "module", "type", "typename", "identifier", "fields"}

# key -> attribute restored in configuration mode
RESTORE_CONFIG = {"pre-tasks": "pre_tasks", "init-tasks": "init_tasks", "task": "task", "meta": "_meta"}
RESTORE_INSTANCE = {"typename": "__xpmtypename__", "identifier": "__xpmidentifier__"}


def writer_keys(chk):
    tree = chk.tree
    f = tree.func("core.objects", "ConfigInformation.__get_objects__")
    g = CFG(f.node)
    keys = {}
    var = None
    for n in g.live:
        if n.kind == "stmt" and isinstance(n.ast, ast.Assign) and isinstance(n.ast.value, ast.Dict) and isinstance(n.ast.targets[0], ast.Name):
            ks = [k.value for k in n.ast.value.keys if isinstance(k, ast.Constant)]
            if "id" in ks and "module" in ks:
                var = n.ast.targets[0].id
                for k in ks:
                    keys[k] = (n, [])
    if var is None:
        raise Undecided("__get_objects__: record dictionary literal not found")
    for n in g.live:
        if n.kind == "stmt" and isinstance(n.ast, ast.Assign):
            for t in n.ast.targets:
                for tt in ([t] if not isinstance(t, ast.Name) else []):
                    if isinstance(tt, ast.Subscript) and dotted(tt.value) == var and isinstance(tt.slice, ast.Constant):
                        gs = [(src(x.ast), pol) for x, pol in g.guards(n) if x.kind == "test" and "context.serialized" not in src(x.ast)]
                        keys[tt.slice.value] = (n, gs)
                # chained: jsonfields = state_dict["fields"] = {}
                if isinstance(t, ast.Subscript) and dotted(t.value) == var and isinstance(t.slice, ast.Constant):
                    gs = [(src(x.ast), pol) for x, pol in g.guards(n) if x.kind == "test" and "context.serialized" not in src(x.ast)]
                    keys[t.slice.value] = (n, gs)
    return f, g, var, keys


def reader_keys(tree, f, var="definition"):
    out = {}
    for x in body_walk(f.node):
        if isinstance(x, ast.Subscript) and isinstance(x.slice, ast.Constant) and isinstance(x.slice.value, str):
            d = dotted(x.value)
            if d == var or (d is None and isinstance(x.value, ast.Subscript) and src(x.value).startswith(var + "s[")):
                out.setdefault(x.slice.value, []).append(x)
        if isinstance(x, ast.Call) and tail(x) == "get" and isinstance(x.func, ast.Attribute) and x.args and isinstance(x.args[0], ast.Constant):
            d = dotted(x.func.value)
            if d == var or (d is None and src(x.func.value).startswith(var + "s[")):
                out.setdefault(x.args[0].value, []).append(x)
        if isinstance(x, ast.Compare) and len(x.ops) == 1 and isinstance(x.ops[0], (ast.In, ast.NotIn)) and isinstance(x.left, ast.Constant) and dotted(x.comparators[0]) == var:
            out.setdefault(x.left.value, []).append(x)
    return out


def r1_record_keys(chk: Check):
    init_tasks_of_the_task_only(chk)
    tree = chk.tree
    f, g, var, wk = writer_keys(chk)
    loc = chk.loc(f.module, f.node)
    chk.require(ALWAYS <= set(wk), chk.fkey(f, "mandatory keys"), f"the object record lacks {sorted(ALWAYS - set(wk))}", loc)
    for k in ALWAYS & set(wk):
        chk.require(not wk[k][1], chk.fkey(f, f"key {k} unconditional"), f"record key `{k}` is written only under {wk[k][1]}", loc)
    for k, (allowed, source) in WRITER_GUARDS.items():
        if k not in wk:
            chk.violation(chk.fkey(f, f"key {k}"), f"the object record no longer writes `{k}` ({source} would be lost on reload)", loc)
            continue
        n, gs = wk[k]
        ok = len(gs) == 1 and (gs[0][0] if gs[0][1] else "not " + gs[0][0]) in allowed
        if k == "file":
            ok = gs in ([("self.xpmtype._package", False)],)
        chk.require(ok, chk.fkey(f, f"key {k} written whenever set"),
                    f"record key `{k}` is written under {gs}; it must be written exactly when {sorted(allowed)} "
                    f"(otherwise `{source}` is silently dropped for some graphs and the reloaded identifier differs)", chk.loc(f.module, n.ast))
    # readers
    lo = tree.func("core.objects", "ConfigInformation.load_objects")
    fp = tree.func("core.objects", "ConfigInformation.fromParameters")
    rk = reader_keys(tree, lo)
    rk2 = reader_keys(tree, fp)
    for k in sorted(set(rk) | set(rk2)):
        chk.require(k in wk, f"core.objects:reader key {k}", f"the loader reads record key `{k}` which the writer never emits", chk.loc(lo.module, (rk.get(k) or rk2.get(k))[0]))
    # restoration table
    gl = CFG(lo.node)
    rdl = ReachingDefs(gl)
    for k, attr in RESTORE_CONFIG.items():
        stores = [(t, v, s) for t, v, s in attr_stores(lo.node) if t.attr == attr and v is not None]
        ok = False
        for t, v, s in stores:
            for n in gl.nodes_of(t):
                if (f"'{k}'" in rdl.canon(v, n)) or (f'"{k}"' in rdl.canon(v, n)):
                    gs = [(src(x.ast), pol) for x, pol in gl.guards(n) if x.kind == "test"]
                    if ("as_instance", False) in gs:
                        ok = True
                        # a presence test of the key must have the polarity "present"
                        for x, pol in gl.guards(n):
                            if x.kind != "test":
                                continue
                            ct = rdl.canon(x.ast, x)
                            if f"'{k}'" not in ct:
                                continue
                            absent_form = ct.endswith(" is None") or ct.startswith("not ")
                            if pol is absent_form:
                                ok = False
                                chk.violation(f"core.objects:ConfigInformation.load_objects:restores {k} when present", f"`{attr}` is restored under `{ct}` = {pol}: the record key `{k}` must be restored exactly when it is present",
                                              chk.loc(lo.module, s))
        chk.require(ok, f"core.objects:ConfigInformation.load_objects:restores {k}",
                    f"record key `{k}` is not restored into `{attr}` when loading configurations: the reloaded graph is not isomorphic and its recomputed identifier differs",
                    chk.loc(lo.module, lo.node))
    for k, attr in RESTORE_INSTANCE.items():
        stores = [(t, v, s) for t, v, s in attr_stores(lo.node) if t.attr == attr and v is not None]
        ok = any(f"'{k}'" in rdl.canon(v, n) for t, v, s in stores for n in gl.nodes_of(t))
        chk.require(ok, f"core.objects:ConfigInformation.load_objects:restores {k} (instance)", f"record key `{k}` is not restored into `{attr}` when loading instances", chk.loc(lo.module, lo.node))
    # fields: every field goes through set(name, v, bypass=True) / setattr
    loops = [n.ast for n in gl.live if n.kind == "for" and "['fields']" in rdl.canon(n.ast.iter, n)]

    def is_setter(c, n):
        return isinstance(c, ast.Call) and ((isinstance(c.func, ast.Attribute) and c.func.attr == "set" and rdl.canon(c.func.value, n).endswith(".__xpm__")) or dotted(c.func) == "setattr")

    inloop = lambda n, lp: any(x is n.stmt or x is n.ast for x in ast.walk(lp))
    ok = len(loops) == 1 and any(is_setter(c, n) and dotted(c.func) != "setattr" for n in gl.live if inloop(n, loops[0]) for c in n.calls()) \
        and any(dotted(c.func) == "setattr" for n in gl.live if inloop(n, loops[0]) for c in n.calls())
    chk.require(ok, "core.objects:ConfigInformation.load_objects:restores fields", "every written field must be restored (configuration: __xpm__.set(..., bypass=True); instance: setattr)", chk.loc(lo.module, lo.node))
    if len(loops) == 1:
        chk.require(not any(isinstance(x, (ast.Continue, ast.Break)) for x in ast.walk(loops[0])), "core.objects:ConfigInformation.load_objects:no skipped field", "the field loop of the loader skips some fields", chk.loc(lo.module, loops[0]))
        heads = [n for n in gl.live if n.kind == "for" and n.ast is loops[0]]
        if heads:
            h = heads[0]
            start = [m for m, l in h.succ if l == "loop"][0]
            setters = [n for n in gl.live if any(is_setter(c, n) for c in n.calls())]
            chk.require(_must_pass_noexc(gl, start, h, setters), "core.objects:ConfigInformation.load_objects:every field restored",
                        "some path through the loader's field loop restores nothing for a written field (e.g. a None value is skipped): an optional parameter explicitly set to None "
                        "would come back holding its declared default, and the recomputed identifier differs", chk.loc(lo.module, loops[0]))


def _must_pass_noexc(g, start, target, through) -> bool:
    av = {t.id for t in through}
    seen, stack = set(), [start]
    while stack:
        n = stack.pop()
        if n.id in seen or n.id in av:
            continue
        seen.add(n.id)
        if n is target:
            return False
        for m, l in n.succ:
            if l != "exc":
                stack.append(m)
    return True


def r2_value_tags(chk: Check):
    tree = chk.tree
    w = tree.func("core.objects", "ConfigInformation._outputjsonvalue")
    r = tree.func("core.objects", "ConfigInformation._objectFromParameters")
    wtags = {}
    kinds = []
    for x in body_walk(w.node):
        if isinstance(x, ast.Dict):
            ks = {k.value: v for k, v in zip(x.keys, x.values) if isinstance(k, ast.Constant)}
            if "type" in ks and isinstance(ks["type"], ast.Constant):
                wtags[ks["type"].value] = set(ks) - {"type"}
        if isinstance(x, ast.Call) and dotted(x.func) == "isinstance" and len(x.args) == 2:
            k = x.args[1]
            kinds += [dotted(e) for e in (k.elts if isinstance(k, ast.Tuple) else [k])]
    has_none = any(isinstance(x, ast.Compare) and src(x) == f"{w.node.args.args[0].arg} is None" for x in body_walk(w.node))
    need = {"list", "dict", "Path", "SerializedPath", "int", "float", "str", "Enum", "Config"}
    chk.require(need <= set(kinds) and has_none, chk.fkey(w, "kinds"), f"the value writer does not handle {sorted(need - set(kinds))}{'' if has_none else ' / None'}", chk.loc(w.module, w.node))
    rets = [x for x in body_walk(w.node) if isinstance(x, ast.Raise)]
    chk.require(len(rets) >= 1, chk.fkey(w, "unknown kinds raise"), "an unknown value kind must raise rather than be written as-is", chk.loc(w.module, w.node))
    # writer and collector, kind by kind (decision tables over the kind of the value): every storable kind yields a value / is descended into
    from ..dispatch import OTHER, kind_table

    wp = w.node.args.args[0].arg

    def ev_ret(n, rd_):
        if n.kind == "stmt" and isinstance(n.ast, ast.Return):
            return ["return " + ("None" if n.ast.value is None or (isinstance(n.ast.value, ast.Constant) and n.ast.value.value is None) else rd_.canon(n.ast.value, n))]
        return []

    def none_test(n, rd_):
        return ("isnone", True) if rd_.canon(n.ast, n) == f"{wp} is None" else None

    KW = ["list", "dict", "Path", "SerializedPath", "int", "float", "str", "Enum", "Config"]
    _, _, tab = kind_table(w.node, wp, [(k, {"isnone": False}) for k in KW] + [(OTHER, {"isnone": False})], ev_ret, extra=none_test)
    for k in KW:
        outs = tab[k]
        rets = [e for o in outs for e in o.events]
        ok = bool(outs) and all(o.end == "exit" and len(o.events) == 1 and o.events[0] != "return None" and not [u for u in o.unknown if u[2] is None] for o in outs)
        if ok and k in ("list", "dict"):
            ok = all("_outputjsonvalue(" in e for e in rets)
        chk.require(ok, chk.fkey(w, f"writes {k}"), f"a {k} value is written as {rets or 'nothing (the function falls off its end: null)'}: every storable kind must produce its encoding "
                    "(containers by encoding each member)", chk.loc(w.module, w.node))
    chk.require(all(o.end == "raise" for o in tab[OTHER]) and tab[OTHER], chk.fkey(w, "unknown kinds raise (table)"), "an unknown value kind must raise rather than be written as null", chk.loc(w.module, w.node))
    co = tree.func("core.objects", "ConfigInformation.__collect_objects__")
    cp = co.node.args.args[0].arg

    def ev_col(n, rd_):
        out = []
        if n.kind == "for":
            out.append(f"for {src(n.ast.target)} in {rd_.canon(n.ast.iter, n)}")
        for c in n.calls():
            if tail(c) == "__collect_objects__" and c.args:
                out.append("rec " + src(c.args[0]))
            elif tail(c) == "__get_objects__":
                out.append("objects " + rd_.canon(c.func.value, n))
        return out

    _, _, tabc = kind_table(co.node, cp, ["Config", "list", "dict", "Path", "int", "float", "str", "Enum", OTHER], ev_col)

    def uniq(o):
        seen = []
        for e in o.events:
            if not (e.startswith("for ") and e in seen):
                seen.append(e)
        return seen

    okc = all(uniq(o) == [f"objects {cp}.__xpm__"] for o in tabc["Config"]) and tabc["Config"]
    for o in tabc["list"]:
        e = uniq(o)
        okc = okc and len(e) == 2 and e[0].endswith(f" in {cp}") and e[1] == "rec " + e[0][4:].split(" in ")[0]
    for o in tabc["dict"]:
        e = uniq(o)
        good = False
        if len(e) >= 2 and e[0].startswith("for "):
            tgt, it = e[0][4:].split(" in ", 1)
            recs = [x[4:] for x in e if x.startswith("rec ")]
            if it == f"{cp}.values()":
                good = tgt in recs
            elif it == f"{cp}.items()":
                nm = tgt.strip("()").split(", ")
                good = len(nm) == 2 and nm[1] in recs
        okc = okc and good
    chk.require(bool(okc), chk.fkey(co, "collector reaches every member"), "the collector must emit the record of a configuration and descend into every list element and every dict value: "
                "a configuration referenced from there would otherwise be written as a dangling reference", chk.loc(co.module, co.node))
    chk.require(all(o.end == "raise" for o in tabc[OTHER]) and tabc[OTHER], chk.fkey(co, "collector: unknown kinds raise"), "the collector must raise on an unknown value kind", chk.loc(co.module, co.node))
    # reader
    rtags = {}
    g = CFG(r.node)
    rdr_ = ReachingDefs(g)
    for n in g.live:
        if n.kind == "test" and isinstance(n.ast, ast.Compare) and rdr_.canon(n.ast.left, n).endswith("['type']") and isinstance(n.ast.comparators[0], ast.Constant):
            tag = n.ast.comparators[0].value
            tb = [b for b, l in n.succ if l is True]
            used = set()
            if tb:
                fb = [b for b, l in n.succ if l is False]
                reg = g.reachable(tb[0], avoid=fb)
                for m in g.live:
                    if m.id in reg:
                        for x in m.walk():
                            if isinstance(x, ast.Subscript) and isinstance(x.slice, ast.Constant) and isinstance(x.slice.value, str) and x.slice.value != "type":
                                used.add(x.slice.value)
            rtags[tag] = used
    for tag, payload in wtags.items():
        chk.require(tag in rtags, chk.fkey(r, f"tag {tag}"), f"values written with type `{tag}` are not handled by the loader", chk.loc(r.module, r.node))
        if tag in rtags:
            chk.require(rtags[tag] <= payload, chk.fkey(r, f"payload of {tag}"), f"the loader reads {sorted(rtags[tag] - payload)} for type `{tag}`, which the writer does not emit ({sorted(payload)})", chk.loc(r.module, r.node))
            chk.require(payload <= rtags[tag] | {"value"}, chk.fkey(r, f"payload of {tag} used"), f"the loader ignores {sorted(payload - rtags[tag])} written for type `{tag}`", chk.loc(r.module, r.node))
    for tag in rtags:
        chk.require(tag in wtags, chk.fkey(r, f"reader tag {tag}"), f"the loader handles type `{tag}` that the writer never emits", chk.loc(r.module, r.node))
    # reader recursion: list elements, dict keys+values, python -> objects table
    t = src(r.node)
    chk.require("objects[value['value']]" in t, chk.fkey(r, "references through the objects table"), "references to configurations must be resolved through the `objects` table (sharing)", chk.loc(r.module, r.node))
    # collector recursion
    c = tree.func("core.objects", "ConfigInformation.__collect_objects__")
    t = src(c.node)
    ok = ".__xpm__.__get_objects__(objects, context)" in t and "for el in value:" in t and "in value.values():" in t
    chk.require(ok, chk.fkey(c, "collector recursion"), "the object collector must recurse into configurations, list elements and dict values (where the writer emits references)", chk.loc(c.module, c.node))
    go = tree.func("core.objects", "ConfigInformation.__get_objects__")
    t = src(go.node)
    for what, pat in (("argument values", "__collect_objects__(value, objects, context)"), ("the producing task", "__collect_objects__(self.task, objects, context)"),
                      ("pre-tasks", "__collect_objects__(self.pre_tasks, objects, context)"), ("init tasks", "__collect_objects__(self.init_tasks, objects, context)")):
        chk.require(pat in t, chk.fkey(go, f"collects {what}"), f"__get_objects__ does not collect {what}: references to them would dangle on reload", chk.loc(go.module, go.node))
    # the task is collected whenever it is written
    g2 = CFG(go.node)
    for n, cc in g2.call_nodes(lambda cc: src(cc).endswith("__collect_objects__(self.task, objects, context)")):
        gs = [(src(x.ast), pol) for x, pol in g2.guards(n) if x.kind == "test" and "context.serialized" not in src(x.ast)]
        ok = gs in ([("self.task is None", False), ("self.task is self", False)], [("self.task is None", False), ("self.task is self.pyobject", False)])
        chk.require(ok, chk.fkey(go, "task collected whenever referenced"), f"the producing task is collected under {gs}; it must be collected whenever it is set (and is not the object itself)", chk.loc(go.module, cc))


def r3_tristate(chk: Check):
    tree = chk.tree
    f, g, var, wk = writer_keys(chk)
    if "meta" in wk:
        n, gs = wk["meta"]
        chk.require(gs in ([("self.meta is None", False)], [("self._meta is None", False)]), chk.fkey(f, "meta written under is-not-None"),
                    f"the tri-state meta flag is written under {gs}: an explicit meta=False (which forces an ignored parameter into the signature) is lost and the reloaded identifier differs", chk.loc(f.module, n.ast))
    lo = tree.func("core.objects", "ConfigInformation.load_objects")
    gl = CFG(lo.node)
    rd = ReachingDefs(gl)
    st = [(t, v, s) for t, v, s in attr_stores(lo.node) if t.attr == "_meta"]
    chk.min_instances(len(st), 1, "restoration of the meta flag")
    for t, v, s in st:
        for n in gl.nodes_of(t):
            gs = [(rd.canon(x.ast, x), pol) for x, pol in gl.guards(n) if x.kind == "test" and "as_instance" not in src(x.ast)]
            ok = all(("is None" in c and pol is False) for c, pol in gs if "meta" in c)
            chk.require(ok, chk.fkey(lo, "meta read under is-not-None"), f"the tri-state meta flag is restored under {gs} (truthiness loses meta=False)", chk.loc(lo.module, s))
            # "not written" must come back as "unset" (None), never as a definite True / False
            cv = rd.canon(v, n) if v is not None else "?"
            guarded = any("meta" in c and "is None" in c and pol is False for c, pol in gs)
            m_ = re.search(r"\.get\('meta'(?:, (.+))?\)$", cv)
            unset_ok = guarded or (m_ is not None and m_.group(1) in (None, "None"))
            chk.require(unset_ok, chk.fkey(lo, "absent meta stays unset"), f"the meta flag is restored as `{cv}` under {gs}: a record without `meta` must leave the flag unset (None); a definite False forces every "
                        "ignored parameter of the reloaded graph into the signature, so reloaded identifiers differ from the originals", chk.loc(lo.module, s))


def r4_all_values_written(chk: Check):
    tree = chk.tree
    f = tree.func("core.objects", "ConfigInformation.__get_objects__")
    g = CFG(f.node)
    loops = [n for n in g.live if n.kind == "for" and src(n.ast.iter) == "self.xpmvalues()"]
    chk.min_instances(len(loops), 2, "loops over xpmvalues() in the writer")
    field_loops = [lp for lp in loops if any(isinstance(s, ast.Assign) and "jsonfields[" in src(s) for s in ast.walk(lp.ast))]
    chk.require(len(field_loops) == 1, chk.fkey(f, "field loop"), "the writer must fill `fields` from every (argument, value) of xpmvalues()", chk.loc(f.module, f.node))
    for lp in field_loops:
        st = [n for n in g.live if n.kind == "stmt" and isinstance(n.ast, ast.Assign) and src(n.ast.targets[0]).startswith("jsonfields[")]
        start = [m for m, l in lp.succ if l == "loop"][0]
        ok = len(st) == 1 and g.must_pass(start, lp, st) and not any(isinstance(x, (ast.Continue, ast.Break)) for x in ast.walk(lp.ast))
        chk.require(ok, chk.fkey(f, "every value written"), "some argument values (e.g. ignored, generated or constant ones) are not written: the task would not observe the configured values", chk.loc(f.module, lp.ast))
    xv = tree.func("core.objects", "ConfigInformation.xpmvalues")
    t = src(xv.node)
    chk.require("ignored" not in t and "constant" not in t, chk.fkey(xv, "no filter"), "xpmvalues() filters arguments", chk.loc(xv.module, xv.node))


def init_tasks_of_the_task_only(chk: Check):
    """A parameter file also holds the definitions of the upstream tasks, each with the init tasks *it* was submitted with.  The job must run
    the init tasks of the task being run -- the last definition -- and not those of the tasks it depends on (pre-tasks, in contrast, are
    gathered over all definitions)"""
    tree = chk.tree
    f = tree.func("core.objects", "ConfigInformation.fromParameters")
    loc = chk.loc(f.module, f.node)
    nested = {x.name: x for x in ast.walk(f.node) if isinstance(x, (ast.FunctionDef, ast.AsyncFunctionDef)) and x is not f.node}

    def enclosing_def(x):
        p = getattr(x, "_parent", None)
        while p is not None and not isinstance(p, (ast.FunctionDef, ast.AsyncFunctionDef)):
            p = getattr(p, "_parent", None)
        return p

    def key_is_init(k, at):
        if isinstance(k, ast.Constant):
            return k.value == "init-tasks"
        if isinstance(k, ast.Name):
            d = enclosing_def(at)
            if d is not None and d.name in nested:
                ps = [a.arg for a in d.args.args]
                if k.id in ps:
                    i = ps.index(k.id)
                    for c in ast.walk(f.node):
                        if isinstance(c, ast.Call) and isinstance(c.func, ast.Name) and c.func.id == d.name:
                            v = c.args[i] if i < len(c.args) else next((kw.value for kw in c.keywords if kw.arg == k.id), None)
                            if isinstance(v, ast.Constant) and v.value == "init-tasks":
                                return True
        return False

    reads = []
    for x in ast.walk(f.node):
        if isinstance(x, ast.Call) and isinstance(x.func, ast.Attribute) and x.func.attr == "get" and x.args and key_is_init(x.args[0], x):
            reads.append((x, x.func.value))
        elif isinstance(x, ast.Subscript) and isinstance(x.ctx, ast.Load) and key_is_init(x.slice, x):
            reads.append((x, x.value))
    chk.min_instances(len(reads), 1, "reads of the init-tasks key in fromParameters")
    for x, recv in reads:
        verdict = None
        if src(recv).replace(" ", "") in ("definitions[-1]", "definitions[len(definitions)-1]"):
            verdict = True
        elif isinstance(recv, ast.Name):
            p = getattr(x, "_parent", None)
            while p is not None:
                if isinstance(p, (ast.For, ast.AsyncFor)) and src(p.target) == recv.id:
                    verdict = False if src(p.iter) in ("definitions", "reversed(definitions)") else verdict
                    break
                if isinstance(p, (ast.ListComp, ast.GeneratorExp, ast.SetComp, ast.DictComp)):
                    for gen in p.generators:
                        if src(gen.target) == recv.id and src(gen.iter) in ("definitions", "reversed(definitions)"):
                            verdict = False
                p = getattr(p, "_parent", None)
            if verdict is None:
                d = enclosing_def(x)
                stores = [st for st in ast.walk(d) if isinstance(st, ast.Assign) and len(st.targets) == 1 and src(st.targets[0]) == recv.id]
                if len(stores) == 1 and src(stores[0].value).replace(" ", "") == "definitions[-1]":
                    verdict = True
        if verdict is None:
            raise Undecided(f"fromParameters: cannot tell which definition `{src(x)[:60]}` reads the init tasks from")
        chk.require(verdict, chk.fkey(f, "init tasks of the task being run only"),
                    f"`{src(x)[:70]}` reads the init tasks of every definition of the parameter file: the job would also execute the init tasks its upstream tasks were submitted with", loc)


def record_built_per_call(chk: Check):
    """What is written depends on the serialization context (save directory, data files) and on state that can still change after sealing (the
    producing task link): the record of a configuration is built by the call that writes it, never taken from a cache on the object"""
    tree = chk.tree
    f = tree.func("core.objects", "ConfigInformation.__get_objects__")
    g = CFG(f.node)
    rd = ReachingDefs(g)
    n = 0
    for nd, c in g.call_nodes(lambda c: src(c.func) == "objects.append" and len(c.args) == 1):
        n += 1
        a = c.args[0]
        ok = isinstance(a, ast.Dict)
        if isinstance(a, ast.Name):
            ds = rd.defs_at(a.id, nd)
            ok = bool(ds) and all(d.value is not None and isinstance(d.value, ast.Dict) for d in ds)
        chk.require(ok, chk.fkey(f, "record built by this call"), f"`{src(c)}` appends a record that was not built by this call (a cached definition): a later save to another directory keeps the "
                    "data paths / task link of the first serialization", chk.loc(f.module, c))
    chk.min_instances(n, 1, "records appended by __get_objects__")


def records_keyed_by_identity(chk: Check):
    """Sharing is a matter of object identity: two distinct configurations with the same signature (they may differ by paths and Meta values)
    are two records.  The record id, the visited set and the references all use id(<object>) -- never an identifier (a signature)"""
    tree = chk.tree
    f = tree.func("core.objects", "ConfigInformation.__get_objects__")
    g = CFG(f.node)
    rd = ReachingDefs(g)
    ids = [(k, v) for d in ast.walk(f.node) if isinstance(d, ast.Dict) for k, v in zip(d.keys, d.values) if isinstance(k, ast.Constant) and k.value == "id"]
    chk.min_instances(len(ids), 1, "`id` entry of the object record")
    for k, v in ids:
        nodes = g.nodes_of(v)
        c = rd.canon(v, nodes[0]) if nodes else src(v)
        chk.require(c.replace(" ", "") == "id(self.pyobject)", chk.fkey(f, "record id is the object identity"), f"the record id is `{c}`: two distinct configurations that hash alike would become one object when loaded", chk.loc(f.module, v))
    vis = [n for n in g.live if n.kind == "test" and "context.serialized" in src(n.ast)]
    for n in vis:
        c = rd.canon(n.ast, n)
        chk.require("id(self.pyobject)" in c, chk.fkey(f, "visited set keyed by identity"), f"the already-serialized test is `{c}`: it must be keyed by id(object)", chk.loc(f.module, n.ast))
    ov = tree.func("core.objects", "ConfigInformation._outputjsonvalue")
    refs = [(k, v) for d in ast.walk(ov.node) if isinstance(d, ast.Dict) for k, v in zip(d.keys, d.values) if isinstance(k, ast.Constant) and k.value == "value"
            and any(isinstance(k2, ast.Constant) and k2.value == "type" and isinstance(v2, ast.Constant) and v2.value == "python" for k2, v2 in zip(d.keys, d.values))]
    chk.min_instances(len(refs), 1, "references to object records")
    for k, v in refs:
        chk.require(isinstance(v, ast.Call) and dotted(v.func) == "id", chk.fkey(ov, "references use the object identity"), f"a reference to a configuration is written as `{src(v)}`", chk.loc(ov.module, v))


def fresh_accumulators(chk: Check):
    """The list of definitions of one saved object must be its own: an accumulator parameter with a mutable default (evaluated once, shared by all
    calls) must be supplied by every caller, or later saves carry the definitions of earlier ones (duplicate ids at load time)"""
    tree = chk.tree
    MUT = ("append", "extend", "insert", "update", "add", "setdefault", "__setitem__")
    found = 0
    for f in tree.nontest_funcs():
        if f.module.name not in ("core.serialization", "core.objects") or isinstance(f.node, ast.Lambda):
            continue
        a = f.node.args
        pos = a.posonlyargs + a.args
        defs = [None] * (len(pos) - len(a.defaults)) + list(a.defaults)
        for idx, (prm, d) in enumerate(list(zip(pos, defs)) + list(zip(a.kwonlyargs, a.kw_defaults))):
            if d is None or not (isinstance(d, (ast.List, ast.Dict, ast.Set)) or (isinstance(d, ast.Call) and dotted(d.func) in ("list", "dict", "set") and not d.args)):
                continue
            name = prm.arg
            accum = _fills(tree, f, name, 3)
            if not accum:
                continue
            found += 1
            is_method = f.cls is not None and not any(dotted(dec) == "staticmethod" for dec in f.node.decorator_list)
            pidx = idx - (1 if is_method else 0) if idx < len(pos) else None
            for ff in tree.nontest_funcs():
                for c in fn_calls(ff.node):
                    if tail(c) != f.node.name:
                        continue
                    given = any(k.arg == name for k in c.keywords) or (pidx is not None and len(c.args) > pidx) or any(k.arg is None for k in c.keywords) or any(isinstance(x, ast.Starred) for x in c.args)
                    chk.require(given, chk.fkey(ff, f"passes the accumulator `{name}` of {f.node.name}"),
                                f"`{src(c)[:70]}` in `{ff.qual}` relies on the default of `{name}` of `{f.qual}`, a mutable default that the function fills: the object is shared by all such calls, "
                                "so a second save in the same process also contains the definitions of the first", chk.loc(ff.module, c))
    chk.count("accumulators_with_mutable_default", found)
    if not found:
        chk.ok("core.serialization:no accumulator with a mutable default", "")


def _fills(tree, f, name, depth):
    """does `f` (or a package callee it hands the parameter to) add to its parameter `name`?"""
    MUT = ("append", "extend", "insert", "update", "add", "setdefault")
    for x in body_walk(f.node):
        if isinstance(x, ast.Return) and isinstance(x.value, ast.Name) and x.value.id == name:
            return True
        if isinstance(x, ast.Subscript) and isinstance(x.ctx, ast.Store) and isinstance(x.value, ast.Name) and x.value.id == name:
            return True
    for c in fn_calls(f.node):
        if isinstance(c.func, ast.Attribute) and isinstance(c.func.value, ast.Name) and c.func.value.id == name and c.func.attr in MUT:
            return True
        if depth <= 0:
            continue
        for i, x in enumerate(c.args):
            if isinstance(x, ast.Name) and x.id == name:
                for g in tree.nontest_funcs():
                    if isinstance(g.node, ast.Lambda) or g.node.name != tail(c):
                        continue
                    ps = [p.arg for p in g.node.args.posonlyargs + g.node.args.args]
                    if ps and ps[0] in ("self", "cls"):
                        ps = ps[1:]
                    if i < len(ps) and _fills(tree, g, ps[i], depth - 1):
                        return True
        for k in c.keywords:
            if isinstance(k.value, ast.Name) and k.value.id == name and k.arg:
                for g in tree.nontest_funcs():
                    if not isinstance(g.node, ast.Lambda) and g.node.name == tail(c) and _fills(tree, g, k.arg, depth - 1):
                        return True
    return False


def module_files_loaded_once(chk: Check):
    """Definitions whose classes live in a plain module file carry the path of the file.  Executing the file once per definition creates a new
    set of classes each time: a definition that refers to another one of the same file then holds a value of an incompatible class and
    loading as configurations fails.  The execution must be conditional on the module not being loaded yet."""
    tree = chk.tree
    lo = tree.func("core.objects", "ConfigInformation.load_objects")
    g = CFG(lo.node)
    rd = ReachingDefs(g)
    execs = [(n, c) for n, c in g.call_nodes(lambda c: tail(c) == "exec_module")]
    if not execs:
        chk.ok(chk.fkey(lo, "no module file is executed by the loader"), chk.loc(lo.module, lo.node))
        return
    # tests that look the module up: they mention sys.modules, or test a name whose reaching definition is a lookup in sys.modules
    lookups = []
    for t in g.live:
        if t.kind != "test":
            continue
        hit = "sys.modules" in src(t.ast)
        for x in ast.walk(t.ast):
            if isinstance(x, ast.Name) and any(d.value is not None and "sys.modules" in src(d.value) for d in rd.defs_at(x.id, t)):
                hit = True
        if hit:
            lookups.append(t)
    heads = [h for h in g.live if h.kind == "for" and src(h.ast.iter) == "definitions"]
    for n, c in execs:
        starts = [m for h in heads for m, l in h.succ if l == "loop" and n.id in g.reachable(m, avoid=[h])]
        ok = bool(lookups) and bool(starts) and all(g.on_every_path(lookups, start=m, end=n) for m in starts)
        chk.require(ok, chk.fkey(lo, "module file executed once"), f"`{src(c)}` runs for every definition that names a file, without looking the module up first: two definitions of the same "
                    "file get different class objects, so a parameter holding the other configuration is rejected (`X is not a subtype of X`)", chk.loc(lo.module, c))


def r5_sharing(chk: Check):
    fresh_accumulators(chk)
    record_built_per_call(chk)
    records_keyed_by_identity(chk)
    module_files_loaded_once(chk)
    tree = chk.tree
    f = tree.func("core.objects", "ConfigInformation.__get_objects__")
    g = CFG(f.node)
    tests = [n for n in g.live if n.kind == "test" and "in context.serialized" in src(n.ast)]
    adds = [n for n, c in g.call_nodes(lambda c: src(c.func) == "context.serialized.add")]
    recs = [n for n, c in g.call_nodes(lambda c: "__collect_objects__" in src(c.func))]
    app = [n for n, c in g.call_nodes(lambda c: src(c) == "objects.append(state_dict)")]
    ok = len(tests) == 1 and len(adds) == 1 and recs and all(g.dominates(tests[0], r) and g.dominates(adds[0], r) for r in recs)
    chk.require(ok, chk.fkey(f, "visited before recursion"), "the writer must test and mark the object as serialized before recursing (each object once; cycles terminate)", chk.loc(f.module, f.node))
    chk.require(len(app) == 1 and all(r.id not in g.reachable(app[0]) for r in recs) and all(app[0].id in g.reachable(r) for r in recs), chk.fkey(f, "children before parent"), "an object's record must be appended after the records it references", chk.loc(f.module, f.node))
    lo = tree.func("core.objects", "ConfigInformation.load_objects")
    gl = CFG(lo.node)
    loops = [n for n in gl.live if n.kind == "for" and src(n.ast.iter) == "definitions"]
    chk.require(len(loops) == 2, chk.fkey(lo, "two passes"), "the loader must create all objects in a first pass and fill them in a second", chk.loc(lo.module, lo.node))
    if len(loops) == 2:
        a, b = sorted(loops, key=lambda n: n.lineno)
        done_a = [x for x in gl.live if x.kind == "branch" and x.extra["test"] is a and x.extra["polarity"] == "done"]
        chk.require(any(gl.dominates(x, b) for x in done_a), chk.fkey(lo, "creation completes before filling"), "field filling starts before every object exists (forward / cyclic references would fail)", chk.loc(lo.module, lo.node))
        rdl = ReachingDefs(gl)
        inside = {id(s) for s in ast.walk(a.ast)}
        creates = [n for n in gl.live if n.kind == "stmt" and isinstance(n.ast, ast.Assign) and id(n.ast) in inside and isinstance(n.ast.targets[0], ast.Subscript)
                   and dotted(n.ast.targets[0].value) == "objects" and rdl.canon(n.ast.targets[0].slice, n) == "definition['id']"]
        chk.require(len(creates) == 1, chk.fkey(lo, "objects table"), "objects must be registered in the `objects` table by id", chk.loc(lo.module, lo.node))


def r6_top_level(chk: Check):
    tree = chk.tree
    oj = tree.func("core.objects", "ConfigInformation.outputjson")
    keys = set()
    for x in body_walk(oj.node):
        if isinstance(x, ast.Dict):
            keys |= {k.value for k in x.keys if isinstance(k, ast.Constant)}
    for modq, var in ((("run", "run"), "params"), (("tools.jobs", "load_job"), "params"), (("cli.filter", "JobInformation.tags"), "self.params"),
                      (("core.serialization", "from_task_dir"), "content")):
        f = tree.func(*modq)
        for x in body_walk(f.node):
            if isinstance(x, ast.Subscript) and isinstance(x.slice, ast.Constant) and dotted(x.value) == var and isinstance(x.ctx, ast.Load):
                chk.require(x.slice.value in keys, chk.fkey(f, f"reads {x.slice.value}"), f"`{f.qual}` reads top-level key `{x.slice.value}` of the parameter file, which outputjson does not write ({sorted(keys)})", chk.loc(f.module, x))
    chk.require({"workspace", "tags", "objects"} <= keys, chk.fkey(oj, "writes workspace/tags/objects"), f"outputjson writes {sorted(keys)}", chk.loc(oj.module, oj.node))
    # tags assigned before execute
    r = tree.func("run", "run")
    g = CFG(r.node)
    tg = [n for n in g.live if n.kind == "stmt" and isinstance(n.ast, ast.Assign) and src(n.ast.targets[0]) == "task.__tags__" and src(n.ast.value) == "params['tags']"]
    ex = [n for n, c in g.call_nodes(lambda c: src(c) == "task.execute()")]
    chk.require(len(tg) == 1 and len(ex) == 1 and g.dominates(tg[0], ex[0]), chk.fkey(r, "tags before execute"), "the task must receive the configured tags before its body starts", chk.loc(r.module, r.node))
    # the parameter file of a job is (re)written whenever its script is prepared: the job folder is keyed by the identifier, which
    # ignores Meta / Path parameters and tags, so an existing file is not necessarily the graph being submitted now
    cp = tree.func("commandline", "CommandParameters.output")
    gc = CFG(cp.node)
    wr = gc.call_nodes(lambda c: tail(c) == "outputjson")
    chk.require(len(wr) == 1, chk.fkey(cp, "writes params.json"), "CommandParameters.output must write the parameter file", chk.loc(cp.module, cp.node))
    for n, c in wr:
        conds = [src(t.ast) for t in gc.live if t.kind == "test"]
        chk.require(gc.on_every_path([n]), chk.fkey(cp, "params.json always rewritten"), f"the parameter file is not written on every path (conditions {conds}): a job re-run after changing only ignored parameters or tags would load the old values", chk.loc(cp.module, c))
    # outputjson tags come from the whole graph
    chk.require("self.tags()" in src(oj.node), chk.fkey(oj, "tags of the graph"), "the parameter file must record the tags of the whole graph (self.tags())", chk.loc(oj.module, oj.node))


def r7_recomputed_not_stale(chk: Check):
    """"identifiers equal to the originals when recomputed": the loader must not pre-fill the identifier caches (the stored identifier is the full one; compute() would return it as the raw one)"""
    from . import c01

    c01.r3_cache(chk)


def data_paths_restored(chk: Check):
    """Data files of a saved configuration: load() / from_task_dir() hand the loader of relative paths to from_state_dict, and a serialized path is
    rebuilt as a Path (the task observes the type it was given)"""
    tree = chk.tree
    for q in ("load", "from_task_dir"):
        f = tree.func("core.serialization", q)
        calls = [c for c in fn_calls(f.node) if tail(c) == "from_state_dict"]
        ok = bool(calls) and all(len(c.args) >= 2 or any(k.arg == "path" for k in c.keywords) for c in calls)
        chk.require(ok, chk.fkey(f, "hands the data loader over"), f"`{q}` builds a data loader and does not pass it to from_state_dict: a configuration saved with a data path cannot be loaded back", chk.loc(f.module, f.node))
    op = tree.func("core.objects", "ConfigInformation._objectFromParameters")
    sp = [c for c in fn_calls(op.node) if tail(c) == "SerializedPath" and c.args]
    chk.min_instances(len(sp), 1, "SerializedPath rebuilt by the loader")
    for c in sp:
        chk.require(isinstance(c.args[0], ast.Call) and tail(c.args[0]) == "Path", chk.fkey(op, "serialized path is a Path"),
                    f"`{src(c)[:70]}` rebuilds a data path from its text: the task receives a str where a Path was configured", chk.loc(op.module, c))


def r8_loaders_defined(chk: Check):
    data_paths_restored(chk)
    """Loading back must yield the graph on every path of the loaders: a local read on a path that skipped its assignment is an
    UnboundLocalError instead of a result"""
    from ..dataflow import unbound_reads

    tree = chk.tree
    n = 0
    for mod, qual in (("core.objects", "ConfigInformation.fromParameters"), ("core.objects", "ConfigInformation.load_objects"), ("core.objects", "ConfigInformation._objectFromParameters"),
                      ("core.objects", "ConfigInformation.deserialize"), ("core.objects", "ConfigInformation.__get_objects__"), ("core.objects", "ConfigInformation._outputjsonvalue"),
                      ("core.serialization", "json_object"), ("core.serialization", "state_dict"), ("core.serialization", "from_state_dict"), ("core.serialization", "load"),
                      ("core.serialization", "from_task_dir"), ("run", "run")):
        f = tree.func(mod, qual)
        n += 1
        bad = unbound_reads(f.node)
        if bad:
            x, line = bad[0]
            chk.violation(chk.fkey(f, f"`{x.id}` read before assignment"), f"`{x.id}` is a local of `{f.qual}` read at line {line} on a path where it was not assigned: loading raises UnboundLocalError "
                          "instead of returning the graph", chk.loc(f.module, x))
        else:
            chk.ok(chk.fkey(f, "every local read is bound"), chk.loc(f.module, f.node))
    chk.min_instances(n, 10, "writer / loader functions checked for definedness")



def r9_known_gaps(chk: Check):
    """Two ways a saved graph is not the loaded graph (found by review, demonstrated, kept in known_findings.json)"""
    tree = chk.tree
    go = tree.func("core.objects", "ConfigInformation.__get_objects__")
    # (1) data files: sub-objects are collected outside `context.push(argument.name)`, so that two sibling configurations with the same data
    # parameter are written to the same relative file
    recs = [c for c in fn_calls(go.node) if "__collect_objects__" in src(c.func) and c.args and src(c.args[0]) == "value"]
    def pushed(c):
        p = getattr(c, "_parent", None)
        while p is not None and p is not go.node:
            if isinstance(p, (ast.With, ast.AsyncWith)) and any("context.push(" in src(i.context_expr) for i in p.items):
                return True
            p = getattr(p, "_parent", None)
        return False
    has_data = any("context.serialize(" in src(c) for c in fn_calls(go.node))
    chk.require(not (has_data and recs and not all(pushed(c) for c in recs)), chk.fkey(go, "data files named by the position in the graph"),
                "sub-configurations are serialized outside `context.push(<argument name>)`: the data file of a nested configuration is named after its own argument only, so "
                "Model(encoder=Weights(path=a), decoder=Weights(path=b)) writes both files to <dir>/path and both reload as the decoder's", chk.loc(go.module, go.node))
    # (2) a user dictionary that has the key "type" is read back as a typed record
    op = tree.func("core.objects", "ConfigInformation._objectFromParameters")
    ov = tree.func("core.objects", "ConfigInformation._outputjsonvalue")
    reader_by_key = any(isinstance(x, ast.Compare) and isinstance(x.left, ast.Constant) and x.left.value == "type" and isinstance(x.ops[0], (ast.In, ast.NotIn)) for x in ast.walk(op.node))
    writer_escapes = any(isinstance(x, ast.Constant) and x.value in ("dict", "$dict") for x in ast.walk(ov.node))
    chk.require(not reader_by_key or writer_escapes, chk.fkey(op, "user dictionaries and typed records share a key"),
                "the loader takes any dict with a key 'type' for a typed record while the writer emits user dictionaries verbatim: a Dict[str, str] value {'type': 'adam'} cannot be loaded, "
                "and {'type': 'path', 'value': 'x'} is read back as a Path", chk.loc(op.module, op.node))


RULES = [
    ("R1", "record keys: mandatory keys unconditional; optional keys written exactly when their source is set; every key read is written; pre-tasks / init-tasks / task / meta / fields / typename / identifier are restored", r1_record_keys),
    ("R2", "value tags: every storable kind is written; tags and payload keys of writer and loader agree; references go through the objects table; the collector reaches what the writer references", r2_value_tags),
    ("R3", "the tri-state meta flag is written and read under `is not None`", r3_tristate),
    ("R4", "every argument value (ignored, generated, constant included) is written", r4_all_values_written),
    ("R5", "sharing and cycles: visited-test and mark before recursion, children before parent; loader creates all objects before filling", r5_sharing),
    ("R7", "identifiers of a reloaded graph are recomputed, never taken from a cache filled by the loader (= C01.R3: only identifiers() writes the cache)", r7_recomputed_not_stale),
    ("R8", "definedness of the writers and loaders: every local read is assigned on every path that reaches it (no UnboundLocalError instead of a loaded graph)", r8_loaders_defined),
    ("R6", "top-level keys of the parameter file read by run / load_job / filters / from_task_dir are written; tags reach the task before execute()", r6_top_level),
    ("R9", "known gaps of the round trip (findings kept in known_findings.json): data files of sibling configurations share one name; user dictionaries with a 'type' key", r9_known_gaps),
]
