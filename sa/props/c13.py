"""C13 -- runtime objects mirror the graph and are initialised once."""

from __future__ import annotations

import ast

from ..astq import attr_stores, body_walk, dotted, src, walk_local, norm_stmt, fn_calls
from ..cfg import CFG
from ..dataflow import ReachingDefs
from ..loader import Undecided
from ..report import Check

ASSUMPTIONS = [
    "what user __post_init__ / execute do is not decided",
    "only the memoisation / ordering structure of the walkers is decided",
]


from ..astq import tail  # noqa: E402


def _anc(node):
    p = getattr(node, "_parent", None)
    while p is not None:
        yield p
        p = getattr(p, "_parent", None)


def r1_memoised_walk(chk: Check):
    store_keeps_configurations(chk)
    tree = chk.tree
    f = tree.func("core.objects", "ConfigWalk.__call__")
    g = CFG(f.node)
    rd = ReachingDefs(g)
    loc = chk.loc(f.module, f.node)
    tests = [n for n in g.live if n.kind == "test" and rd.canon(n.ast, n) in ("id(x) in self.visited",)]
    stubs = [n for n, c in g.call_nodes(lambda c: dotted(c.func) == "self.stub")]
    stores = [n for n in g.live if n.kind == "stmt" and isinstance(n.ast, ast.Assign) and src(n.ast.targets[0]).startswith("self.visited[")]
    # recursion sites inside the Config branch
    cfgbranch = [b for b in g.live if b.kind == "branch" and b.extra["test"].kind == "test" and src(b.extra["test"].ast) == "isinstance(x, Config)" and b.extra["polarity"] is True]
    recs = [n for n, c in g.call_nodes(lambda c: isinstance(c.func, ast.Name) and c.func.id == "self") if cfgbranch and g.dominates(cfgbranch[0], n)]
    post = [n for n, c in g.call_nodes(lambda c: dotted(c.func) == "self.postprocess")]
    ok = len(tests) == 1 and len(stubs) == 1 and g.dominates(tests[0], stubs[0])
    chk.require(ok, chk.fkey(f, "visited lookup before stub"), "the walk must look the configuration up in `visited` before creating a stub (one object per configuration)", loc)
    if len(tests) == 1:
        tb = [b for b, l in tests[0].succ if l is True]
        nxt = [m for b in tb for m, _ in b.succ]
        chk.require(any(m.kind == "stmt" and isinstance(m.ast, ast.Return) and "self.visited[" in src(m.ast) for m in nxt), chk.fkey(f, "visited hit returns the memo"), "a visited configuration must return the memoised value", loc)
    first = [s for s in stores if stubs and g.dominates(stubs[0], s) and all(g.dominates(s, r) for r in recs)]
    chk.require(bool(first) and len(recs) >= 4, chk.fkey(f, "stub stored before recursion"), "the stub must be recorded in `visited` before any recursion (cycles and shared sub-configurations)", loc)
    last = [s for s in stores if post and g.dominates(post[0], s)]
    chk.require(len(post) == 1 and bool(last), chk.fkey(f, "final value stored"), "the post-processed value must be recorded in `visited`", loc)
    # key of the memo is the identity of the configuration
    keys = {rd.canon(n.ast.targets[0].slice, n) for n in stores}
    chk.require(keys == {"id(x)"}, chk.fkey(f, "memo key"), f"memo keys are {sorted(keys)}; expected the identity of the visited configuration", loc)
    # FromPython: object store consulted before constructing; all keys are id(<config parameter>)
    n_keys = 0
    for q in ("ConfigInformation.FromPython.preprocess", "ConfigInformation.FromPython.stub", "ConfigInformation.FromPython.postprocess"):
        ff = tree.func("core.objects", q)
        params = [a.arg for a in ff.node.args.args]
        cfgp = "config" if "config" in params else None
        if cfgp is None:
            raise Undecided(f"{q}: no `config` parameter")
        for c in fn_calls(ff.node):
            if isinstance(c.func, ast.Attribute) and dotted(c.func.value) == "self.objects" and c.args:
                n_keys += 1
                k = src(c.args[0])
                chk.require(k == f"id({cfgp})", chk.fkey(ff, f"store key of {c.func.attr}"),
                            f"`{src(c)}` keys the object store with `{k}`; every access must use id({cfgp}) (a different key makes the store forget which "
                            "configurations were constructed: __post_init__ and pre-tasks run again on a shared store)", chk.loc(ff.module, c))
    chk.min_instances(n_keys, 5, "object-store accesses in FromPython")
    st = tree.func("core.objects", "ConfigInformation.FromPython.stub")
    gs = CFG(st.node)
    rds = ReachingDefs(gs)
    ctor = [n for n, c in gs.call_nodes(lambda c: src(c) == "config.XPMValue()")]
    ok = len(ctor) == 1 and any(rds.canon(t.ast, t) == "self.objects.retrieve(id(config)) is None" and pol is True for t, pol in gs.guards(ctor[0]) if t.kind == "test")
    chk.require(ok, chk.fkey(st, "construct only if absent"), "a runtime object must be constructed only when the store has none for this configuration", chk.loc(st.module, st.node))
    adds = [n for n, c in gs.call_nodes(lambda c: tail(c) == "add_stub")]
    chk.require(len(adds) == 1 and ctor and gs.dominates(ctor[0], adds[0]), chk.fkey(st, "new object stored"), "a newly constructed object must be stored", chk.loc(st.module, st.node))
    pp = tree.func("core.objects", "ConfigInformation.FromPython.preprocess")
    gp = CFG(pp.node)
    rets = [n for n in gp.live if n.kind == "stmt" and isinstance(n.ast, ast.Return) and src(n.ast.value).startswith("(False")]
    ok = len(rets) == 1 and "self.objects.retrieve(id(config))" in src(rets[0].ast.value) and any(src(t.ast) == "self.objects.is_constructed(id(config))" and pol is True for t, pol in gp.guards(rets[0]) if t.kind == "test")
    chk.require(ok, chk.fkey(pp, "constructed -> stored instance"), "preprocess must stop and return the stored instance for an already constructed configuration", chk.loc(pp.module, pp.node))
    po = tree.func("core.objects", "ConfigInformation.FromPython.postprocess")
    gpo = CFG(po.node)
    sc = [n for n, c in gpo.call_nodes(lambda c: tail(c) == "set_constructed")]
    chk.require(len(sc) == 1 and gpo.must_pass(gpo.entry, gpo.exit, sc), chk.fkey(po, "marks constructed"), "postprocess must mark the configuration as constructed on every path", chk.loc(po.module, po.node))


def r2_post_init(chk: Check):
    tree = chk.tree
    sites = []
    for f in tree.nontest_funcs():
        for c in fn_calls(f.node):
            if tail(c) == "__post_init__" and isinstance(c.func, ast.Attribute):
                if isinstance(c.func.value, ast.Call) and dotted(c.func.value.func) == "super":
                    continue
                sites.append((f, c))
    legit = {"core.objects:ConfigInformation.FromPython.postprocess", "core.objects:ConfigInformation.load_objects"}
    for f, c in sites:
        chk.require(f.key in legit, chk.fkey(f, "initiates __post_init__"), f"`{f.qual}` calls __post_init__(): only the two object builders may initiate it (once per object)", chk.loc(f.module, c))
    chk.min_instances(len(sites), 2, "initiating __post_init__ call sites")
    # FromPython.postprocess: after the attribute loop, once
    po = tree.func("core.objects", "ConfigInformation.FromPython.postprocess")
    g = CFG(po.node)
    calls = [n for n, c in g.call_nodes(lambda c: src(c) == "stub.__post_init__()")]
    loops = [n for n in g.live if n.kind == "for" and src(n.ast.iter) == "values.items()"]
    ok = len(calls) == 1 and len(loops) == 1 and any(g.dominates(b, calls[0]) for b in g.live if b.kind == "branch" and b.extra["test"] is loops[0] and b.extra["polarity"] == "done")
    ok = ok and calls[0].id not in g.reachable([m for m, _ in calls[0].succ if _ != "exc"][0]) if ok else ok
    chk.require(ok, chk.fkey(po, "post-init after attributes, once"), "__post_init__ must be called exactly once, after every attribute of the object was set", chk.loc(po.module, po.node))
    if loops:
        sa = [c for s in loops[0].ast.body for c in walk_local(s) if isinstance(c, ast.Call) and dotted(c.func) == "setattr"]
        ok = len(sa) == 1 and [src(a) for a in sa[0].args] == ["stub"] + [src(e) for e in loops[0].ast.target.elts]
        chk.require(ok, chk.fkey(po, "attributes from the walk results"), "attributes must be set from the values returned by the walk (the same-object table), not from copies", chk.loc(po.module, po.node))
    # load_objects (instance branch)
    lo = tree.func("core.objects", "ConfigInformation.load_objects")
    gl = CFG(lo.node)
    rdl = ReachingDefs(gl)
    calls = [n for n, c in gl.call_nodes(lambda c: tail(c) == "__post_init__" and isinstance(c.func, ast.Attribute) and not c.args)
             if rdl.canon(c.func.value, n) == "objects[definition['id']]"]
    floops = [n for n in gl.live if n.kind == "for" and "fields" in src(n.ast.iter)]
    ok = len(calls) == 1 and len(floops) == 1 and any(gl.dominates(b, calls[0]) for b in gl.live if b.kind == "branch" and b.extra["test"] is floops[0] and b.extra["polarity"] == "done")
    ok = ok and any(src(t.ast) == "as_instance" and pol is True for t, pol in gl.guards(calls[0]) if t.kind == "test")
    chk.require(ok, chk.fkey(lo, "post-init after fields"), "when loading instances, __post_init__ must be called after the fields of the object were set", chk.loc(lo.module, lo.node))
    if calls:
        # once per definition: the only enclosing loops are over `definitions`
        encl = [a for a in _anc(calls[0].ast) if isinstance(a, ast.For)]
        chk.require([src(a.iter) for a in encl] == ["definitions"], chk.fkey(lo, "once per object"), "__post_init__ is nested in a loop other than the loop over the object table", chk.loc(lo.module, lo.node))


def _key_of(node) -> str:
    """Which record key ('pre-tasks' / 'init-tasks') feeds this AST node (by enclosing loops / comprehension sources)"""
    texts = []
    for a in [node] + list(_anc(node)):
        if isinstance(a, (ast.For,)):
            texts.append(src(a.iter))
        if isinstance(a, (ast.ListComp, ast.DictComp, ast.GeneratorExp, ast.SetComp)):
            texts += [src(g.iter) for g in a.generators]
        if isinstance(a, (ast.FunctionDef, ast.AsyncFunctionDef)):
            break
    for t in texts:
        if "pre-tasks" in t:
            return "pre"
        if "init-tasks" in t:
            return "init"
    return "?"


def r3_order_uniqueness(chk: Check):
    tree = chk.tree
    f = tree.func("core.objects", "ConfigInformation.fromParameters")
    g = CFG(f.node)
    rd = ReachingDefs(g)
    loc = chk.loc(f.module, f.node)
    execs = [(n, c) for n, c in g.call_nodes(lambda c: tail(c) == "execute" and not c.args)]
    chk.min_instances(len(execs), 1, "execute() sites in fromParameters")
    # containers iterated by loops that execute, and how they are filled
    seq = []  # (kind 'pre'|'init', cfg node) in the order they will execute, when decidable
    undecided = []
    for n, c in execs:
        loop = None
        for a in _anc(c):
            if isinstance(a, ast.For):
                loop = a
                break
        if loop is None:
            undecided.append("execute() outside a loop")
            continue
        cont = loop.iter
        while isinstance(cont, ast.Call) and isinstance(cont.func, ast.Attribute) and cont.func.attr in ("values", "items") and not cont.args:
            cont = cont.func.value
        if not isinstance(cont, ast.Name):
            undecided.append(f"loop over {src(loop.iter)}")
            continue
        # definitions / insertions of the container
        ins = []
        for m in g.live:
            for x in m.walk():
                if isinstance(x, ast.Call) and isinstance(x.func, ast.Attribute) and dotted(x.func.value) == cont.id and x.func.attr in ("append", "setdefault", "add", "extend", "update", "insert"):
                    ins.append((m, _key_of(x)))
                if isinstance(x, ast.Assign) and any(isinstance(t, ast.Subscript) and dotted(t.value) == cont.id for t in x.targets):
                    ins.append((m, _key_of(x)))
                if isinstance(x, ast.Assign) and any(isinstance(t, ast.Name) and t.id == cont.id for t in x.targets) and not (isinstance(x.value, (ast.List, ast.Dict)) and not getattr(x.value, "elts", getattr(x.value, "keys", []))):
                    if isinstance(x.value, (ast.ListComp, ast.DictComp)):
                        k = "pre" if "pre-tasks" in src(x.value) or "pre-tasks" in rd.canon(x.value, m) else ("init" if "init-tasks" in src(x.value) or "init-tasks" in rd.canon(x.value, m) else "?")
                        ins.append((m, k))
        ln = g.nodes_of(loop.iter)
        seq.append((ln[0] if ln else n, cont.id, ins))
    if undecided:
        raise Undecided("fromParameters: " + "; ".join(undecided))
    # flatten execution order: loops in CFG (dominance) order; inside a container, insertion order
    order = []
    seq.sort(key=lambda t: len(g.dominators()[t[0].id]))
    for i in range(len(seq) - 1):
        if not g.dominates(seq[i][0], seq[i + 1][0]) and seq[i][1] != seq[i + 1][1]:
            raise Undecided("fromParameters: execution loops are not totally ordered")
    for ln, name, ins in seq:
        ins2 = sorted(ins, key=lambda t: len(g.dominators()[t[0].id]))
        for i in range(len(ins2) - 1):
            if not (g.dominates(ins2[i][0], ins2[i + 1][0]) or ins2[i][0] is ins2[i + 1][0]):
                raise Undecided(f"fromParameters: insertions into `{name}` are not totally ordered")
        order += [(k, m) for m, k in ins2]
    kinds = [k for k, _ in order]
    chk.require("?" not in kinds and "pre" in kinds and "init" in kinds, chk.fkey(f, "both kinds executed"), f"executed lightweight tasks come from {kinds}: every pre-task and every init task must be executed", loc)
    if "pre" in kinds and "init" in kinds:
        last_pre = max(i for i, k in enumerate(kinds) if k == "pre")
        first_init = min(i for i, k in enumerate(kinds) if k == "init")
        chk.require(last_pre < first_init, chk.fkey(f, "pre-tasks before init tasks"),
                    f"execution order of lightweight tasks is {kinds}: init tasks would run before pre-tasks (an init task relying on a pre-task's effect sees an unprepared object)", loc)
    # uniqueness of pre-tasks: membership test before each insertion (or a keyed container)
    pre_ins = [(m, k) for k, m in order if k == "pre"]
    for k, m in [(k, m) for k, m in order if k == "pre"]:
        calls = [x for x in m.walk() if isinstance(x, ast.Call) and isinstance(x.func, ast.Attribute) and x.func.attr in ("append", "setdefault")]
        ok = False
        for x in calls:
            if x.func.attr == "setdefault":
                ok = True
            else:
                ok = any(" in " in src(t.ast) and isinstance(t.ast, ast.Compare) and pol is False for t, pol in g.guards(m) if t.kind == "test")
        chk.require(ok, chk.fkey(f, "pre-tasks de-duplicated"), "a pre-task attached to several configurations must be executed once (membership test before insertion)", loc)
    # init tasks come from the last record
    for k, m in order:
        if k == "init":
            es = [getattr(e, "value", e) if isinstance(e, (ast.Assign, ast.Expr)) else e for e in m.exprs()]
            txt = " ".join(src(e) for e in m.exprs()) + " " + " ".join(rd.canon(e, m) for e in es if isinstance(e, ast.expr))
            par = [a for x in m.exprs() for a in _anc(x) if isinstance(a, ast.For)]
            srcs = [src(a.iter) for a in par] + [txt]
            chk.require(any("definitions[-1]" in s for s in srcs), chk.fkey(f, "init tasks of the main task"), "init tasks must be those of the last (main) record", loc)
    # everything executes before the return of the object, and run.run executes the task after fromParameters
    rets = [n for n in g.live if n.kind == "stmt" and isinstance(n.ast, ast.Return)]
    good = [n for n in rets if n.ast.value is not None and (src(n.ast.value) == "o" or (isinstance(n.ast.value, ast.Tuple) and n.ast.value.elts and src(n.ast.value.elts[0]) == "o"))]
    chk.require(bool(rets) and len(good) == len(rets) and g.on_every_path(rets), chk.fkey(f, "returns the object"), "fromParameters must return the last object on every path", loc)
    r = tree.func("run", "run")
    gr = CFG(r.node)
    fp = [n for n, c in gr.call_nodes(lambda c: tail(c) == "fromParameters")]
    ex = [n for n, c in gr.call_nodes(lambda c: src(c) == "task.execute()")]
    chk.require(len(fp) == 1 and len(ex) == 1 and gr.dominates(fp[0], ex[0]), chk.fkey(r, "task body after loading"), "the task body must start after fromParameters (pre-tasks and init tasks) returned", chk.loc(r.module, r.node))
    # fromConfig executes pre-tasks keyed by id (once each)
    fc = tree.func("core.objects", "ConfigInformation.fromConfig")
    ok = any(isinstance(x, ast.For) and src(x.iter) == "processor.pre_tasks.values()" and any(isinstance(c, ast.Call) and tail(c) == "execute" for c in walk_local(x)) for x in body_walk(fc.node))
    chk.require(ok, chk.fkey(fc, "pre-tasks once"), "fromConfig must execute each gathered pre-task once (dict keyed by identity)", chk.loc(fc.module, fc.node))
    po = tree.func("core.objects", "ConfigInformation.FromPython.postprocess")
    ok = any(isinstance(s, ast.Assign) and src(s.targets[0]) == "self.pre_tasks[id(pre_task)]" for s in ast.walk(po.node))
    chk.require(ok, chk.fkey(po, "pre-tasks keyed by identity"), "gathered pre-tasks must be keyed by identity", chk.loc(po.module, po.node))
    # ... every pre-task of every converted configuration is gathered: no condition inside the gathering loop (what is shared is handled by the
    # key; a store shared with an earlier call says nothing about pre-tasks having run)
    gp = CFG(po.node)
    for nd in gp.live:
        if nd.kind == "stmt" and isinstance(nd.ast, ast.Assign) and src(nd.ast.targets[0]).startswith("self.pre_tasks["):
            loops_ = [h for h in gp.live if h.kind == "for" and "pre_tasks" in src(h.ast.iter) and gp.dominates(h, nd)]
            extra = [(src(t.ast), pol) for t, pol in gp.guards(nd) if t.kind == "test" and any(gp.dominates(h, t) for h in loops_)]
            chk.require(not extra, chk.fkey(po, "every pre-task gathered"), f"a pre-task is gathered only under {extra}: a pre-task shared with an object built by an earlier call (same object store) is never executed", chk.loc(po.module, nd.ast))
    # the walk memo is filled by the walk only, one configuration at a time and once it is built: pre-filling it from the object store hands out
    # stubs that an earlier, failed conversion left unfinished
    for ff in tree.nontest_funcs():
        if ff.module.name != "core.objects":
            continue
        for c in fn_calls(ff.node):
            if tail(c) == "update" and isinstance(c.func, ast.Attribute) and src(c.func.value).endswith(".visited"):
                chk.violation(chk.fkey(ff, "walk memo pre-filled"), f"`{src(c)[:70]}` in `{ff.qual}` fills the memo of the configuration walk in bulk: configurations whose objects exist but were never "
                              "completed (a failed __post_init__) are returned as they are", chk.loc(ff.module, c))
        for x in body_walk(ff.node):
            if isinstance(x, ast.Assign) and any(src(t).endswith(".visited") for t in x.targets) and ff.qual != "ConfigWalk.__init__":
                chk.violation(chk.fkey(ff, "walk memo replaced"), f"`{norm_stmt(x)}` in `{ff.qual}` replaces the memo of the configuration walk", chk.loc(ff.module, x))


def r4_walk_reaches_every_node(chk: Check):
    from . import c14

    c14.r2_seal_reaches_hash_inputs(chk)


def store_keeps_configurations(chk: Check):
    """The object store is keyed by id(config): it must keep the configurations it knows alive, or a new configuration allocated at the address
    of a collected one receives the stale runtime object"""
    tree = chk.tree
    st = tree.funcs.get("core.objects:ConfigInformation.FromPython.stub")
    if st is None:
        raise Undecided("FromPython.stub not found")
    adds = [c for c in fn_calls(st.node) if tail(c) == "add_stub"]
    keeps = [x for x in body_walk(st.node) if isinstance(x, ast.Assign) and isinstance(x.targets[0], ast.Subscript) and "id(config)" in src(x.targets[0].slice) and src(x.value) == "config"]
    keeps += [c for c in fn_calls(st.node) if any(src(a) == "config" for a in c.args) and tail(c) in ("add_stub", "add_config", "keep")]
    chk.require(bool(adds) and bool(keeps), chk.fkey(st, "store keeps the configuration alive"), "the store records `id(config) -> object` without a reference to the configuration: after it is "
                "collected, another configuration at the same address gets its runtime object", chk.loc(st.module, st.node))


RULES = [
    ("R1", "memoised walk: visited lookup before stub, stub recorded before recursion, final value recorded; the object store is keyed by id(config) everywhere and consulted before constructing", r1_memoised_walk),
    ("R2", "post-initialisation: only the two builders initiate __post_init__, once per object, after all attributes were set from the walk results", r2_post_init),
    ("R3", "lightweight tasks: every pre-task (de-duplicated) then every init task of the main record, all before the task body", r3_order_uniqueness),
    ("R4", "the graph walk that builds the runtime objects descends into every argument value, list element, dict value, pre-task, init task and (when asked) producing task, "
           "under no other condition than their presence (= C14.R2)", r4_walk_reaches_every_node),
]
