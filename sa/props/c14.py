"""C14 -- submitted configurations are frozen together with their identity."""

from __future__ import annotations

import ast

from ..astq import attr_stores, body_walk, dotted, src, walk_local, norm_stmt, fn_calls
from ..cfg import CFG
from ..dataflow import ReachingDefs
from ..loader import Undecided
from ..report import Check
from . import c01

ASSUMPTIONS = [
    "in-place mutation of a *value* (cfg.some_list.append(x) after sealing) is outside the statement (it speaks of assigning parameters, "
    "changing the meta flag and adding pre-tasks); reported as a NOTE",
    "asserts count as guards (python -O is not modelled)",
]


from ..astq import tail  # noqa: E402


def _anc(node):
    p = getattr(node, "_parent", None)
    while p is not None:
        yield p
        p = getattr(p, "_parent", None)


def _sealed_guarded(g: CFG, site, allow_bypass: bool):
    """The mutation `site` cannot be reached with `_sealed` true (except, where allowed, under bypass)"""
    tests = [t for t in g.live if t.kind == "test" and src(t.ast).endswith("._sealed") and g.dominates(t, site)]
    if not tests:
        return False, "no test of `_sealed` dominates it"
    for t in tests:
        tb = [b for b, l in t.succ if l is True]
        if not tb:
            return True, ""
        if site.id not in g.reachable(tb[0]):
            return True, ""
        if allow_bypass:
            byp = [b for b in g.live if b.kind == "branch" and b.extra["test"].kind == "test" and src(b.extra["test"].ast) == "bypass" and b.extra["polarity"] is True]
            if byp and g.must_pass(tb[0], site, byp):
                return True, ""
    return False, "it is reachable on the sealed branch"


def r1_mutator_guards(chk: Check):
    tree = chk.tree
    mod = tree.mod("core.objects")
    n_sites = 0
    for f in tree.nontest_funcs():
        if f.module is not mod:
            continue
        sites = []
        for x in body_walk(f.node):
            # stores / deletes in <..>.values[...]
            if isinstance(x, (ast.Assign, ast.AugAssign, ast.Delete)):
                tg = x.targets if isinstance(x, (ast.Assign, ast.Delete)) else [x.target]
                for t in tg:
                    if isinstance(t, ast.Subscript) and isinstance(t.value, ast.Attribute) and t.value.attr == "values":
                        sites.append((x, "values", dotted(t.value.value)))
                    if isinstance(t, ast.Attribute) and t.attr == "_meta":
                        sites.append((x, "_meta", dotted(t.value)))
                    if isinstance(t, ast.Attribute) and t.attr == "pre_tasks" and not isinstance(x, ast.Delete):
                        sites.append((x, "pre_tasks", dotted(t.value)))
            if isinstance(x, ast.Call) and isinstance(x.func, ast.Attribute) and x.func.attr in ("extend", "append", "insert", "remove", "clear", "pop", "update", "__setitem__"):
                base = x.func.value
                if isinstance(base, ast.Attribute) and base.attr in ("pre_tasks", "values"):
                    sites.append((x, base.attr, dotted(base.value)))
        # receivers: `self` only inside ConfigInformation; otherwise <x>.__xpm__ / xpminfo / xpm
        sites = [(x, w, b) for (x, w, b) in sites if b is not None and ((b == "self" and f.cls is not None and f.cls.qual == "ConfigInformation")
                                                                      or b.endswith("__xpm__") or b in ("xpminfo", "xpm"))]
        if not sites:
            continue
        g = CFG(f.node)
        for x, what, base in sites:
            n_sites += 1
            key = chk.fkey(f, f"mutates {what}: {norm_stmt(x) if isinstance(x, ast.stmt) else src(x)[:80]}")
            loc = chk.loc(f.module, x)
            # a guarded container must never be shared between two configurations: the seal of one does not protect it from the other's mutators
            if isinstance(x, ast.Assign) and isinstance(x.value, ast.Attribute) and x.value.attr in ("pre_tasks", "values") and dotted(x.value.value) != base:
                chk.violation(key, f"`{norm_stmt(x)}` in `{f.qual}` makes two configurations share one `{x.value.attr}` container: adding to the (unsealed) one changes the sealed one, "
                              "whose identifier and job directory are already fixed", loc)
                continue
            # construction / loading contexts (frozen table, each verified)
            if f.qual == "ConfigInformation.__init__":
                chk.ok(key, loc, "object under construction")
                continue
            if f.qual == "TypeConfig.__init__" and base in ("xpm", "self.__xpm__") and any(
                    isinstance(s2, ast.Assign) and src(s2.targets[0]) == "xpm" and src(s2.value) == "ConfigInformation(self)" for s2 in body_walk(f.node)):
                chk.ok(key, loc, "object under construction (fresh ConfigInformation)")
                continue
            if f.qual == "ConfigInformation.load_objects":
                seal = [n for n in g.live if n.kind == "stmt" and src(n.ast) == "xpminfo._sealed = True"]
                nodes = g.nodes_of(x) if not isinstance(x, ast.stmt) else [n for n in g.live if n.ast is x]
                heads = [h for h in g.live if h.kind == "for"]
                ok = bool(seal) and all(all(n.id not in g.reachable(s, avoid=heads) or n is s for s in seal) for n in nodes)
                chk.require(ok, key, "load_objects mutates a configuration that may already be sealed", loc, okmsg="before `_sealed = True` of the loaded object")
                continue
            if f.qual == "copyconfig":
                fresh = any(isinstance(s, ast.Assign) and src(s.targets[0]) == "copy" and src(s.value) == "config.__class__()" for s in body_walk(f.node))
                chk.require(fresh and (base or "").startswith("copy"), key, "copyconfig mutates something other than its fresh copy", loc, okmsg="fresh copy")
                continue
            nodes = [n for n in g.live if n.ast is x] if isinstance(x, ast.stmt) else g.nodes_of(x)
            if not nodes:
                chk.ok(key, loc, "unreachable")
                continue
            for n in nodes:
                ok, why = _sealed_guarded(g, n, allow_bypass=(f.qual == "ConfigInformation.set"))
                chk.require(ok, key, f"`{f.qual}` changes `{what}` of a configuration although it may be sealed ({why}): a submitted task could be edited after its identifier "
                            "and job directory were fixed", loc)
    chk.min_instances(n_sites, 8, "mutation sites of values / _meta / pre_tasks")
    # bypass=True call sites (who may write a sealed configuration)
    legit = {"core.objects:TypeConfig.__init__": "object under construction", "core.objects:ConfigInformation.seal.Sealer.postprocess": "the sealing walk itself, before `_sealed = True`",
             "core.objects:ConfigInformation.load_objects": "before `_sealed = True`", "core.objects:copyconfig": "fresh copy"}
    nb = 0
    for f in tree.nontest_funcs():
        for c in fn_calls(f.node):
            if tail(c) == "set" and isinstance(c.func, ast.Attribute) and ("__xpm__" in src(c.func.value) or dotted(c.func.value) in ("xpm", "self")):
                byp = any(k.arg == "bypass" and not (isinstance(k.value, ast.Constant) and k.value.value is False) for k in c.keywords) or (
                    len(c.args) >= 3 and not (isinstance(c.args[2], ast.Constant) and c.args[2].value is False))
                if byp:
                    nb += 1
                    chk.require(f.key in legit, chk.fkey(f, "set(..., bypass=True)"), f"`{f.qual}` assigns a parameter with bypass=True: only {sorted(legit)} may bypass the sealed / read-only checks", chk.loc(f.module, c),
                                okmsg=legit.get(f.key, ""))
    chk.min_instances(nb, 3, "set(..., bypass=True) call sites")
    # Sealer.postprocess seals after generating
    sp = tree.func("core.objects", "ConfigInformation.seal.Sealer.postprocess")
    gs = CFG(sp.node)
    seal = [n for n in gs.live if n.kind == "stmt" and src(n.ast) == "config.__xpm__._sealed = True"]
    chk.require(len(seal) == 1 and gs.must_pass(gs.entry, gs.exit, seal), chk.fkey(sp, "seals every visited node"), "the sealing walk must mark every visited configuration as sealed on every path", chk.loc(sp.module, sp.node))
    # the public setter routes through ConfigInformation.set (property installed by addArgument)
    aa = tree.func("core.types", "ObjectType.addArgument")
    chk.require("_self.__xpm__.set(argument.name, value)" in src(aa.node), chk.fkey(aa, "attribute assignment goes through set()"), "parameter assignment on a configuration must go through ConfigInformation.set (sealed check)", chk.loc(aa.module, aa.node))
    sm = tree.func("core.objects", "setmeta")
    chk.require(any(src(c) == "config.__xpm__.set_meta(flag)" for c in fn_calls(sm.node)), chk.fkey(sm, "setmeta goes through set_meta"), "setmeta must go through set_meta (sealed check)", chk.loc(sm.module, sm.node))
    pt = tree.func("core.objects", "TypeConfig.pre_tasks")
    chk.note("the `pre_tasks` property returns the internal list of a possibly sealed configuration (in-place mutation escapes the guard); outside the statement of C14", chk.loc(pt.module, pt.node))


def r2_seal_reaches_hash_inputs(chk: Check):
    tree = chk.tree
    f = tree.func("core.objects", "ConfigWalk.__call__")
    g = CFG(f.node)
    rd = ReachingDefs(g)
    loc = chk.loc(f.module, f.node)
    recs = [(n, c) for n, c in g.call_nodes(lambda c: isinstance(c.func, ast.Name) and c.func.id == "self" and len(c.args) == 1)]
    args = {rd.canon(c.args[0], n) for n, c in recs}
    need = {"info.pre_tasks": "pre-tasks", "info.init_tasks": "init tasks", "x.__xpm__.task": "the producing task"}
    need = {"x.__xpm__.pre_tasks": "pre-tasks", "x.__xpm__.init_tasks": "init tasks", "x.__xpm__.task": "the producing task"}
    for a, what in need.items():
        chk.require(a in args, chk.fkey(f, f"descends into {what}"), f"the configuration walk (used for sealing) does not descend into {what}, which the identifier depends on: it would stay editable after submission", loc)
    # ... under no other condition than "there is something to descend into" (polarity included)
    common = {("isinstance(x, Config)", True), ("id(x) in self.visited", False)}
    allowed = {"x.__xpm__.pre_tasks": {("x.__xpm__.pre_tasks", True)}, "x.__xpm__.init_tasks": {("x.__xpm__.init_tasks", True)},
               "x.__xpm__.task": {("x.__xpm__.task is None", False), ("self.recurse_task", True), ("x.__xpm__.task is x", False)}}
    for n, c in recs:
        a = rd.canon(c.args[0], n)
        raw = {(rd.canon(t.ast, t), pol) for t, pol in g.guards(n) if t.kind == "test"}
        if ("isinstance(x, Config)", True) not in raw:
            continue  # list / dict branches: decided by the loops below
        gs = raw - common
        # the pre-processing verdict: `flag` must be true to go on
        gs = {(t_, pol) for t_, pol in gs if not (pol is True and "preprocess" in t_) and not (t_ == "flag" and pol is True)}
        if a in allowed:
            ok = gs <= allowed[a] and (a != "x.__xpm__.task" or gs == allowed[a])
            chk.require(ok, chk.fkey(f, f"descent into {need[a]} is unconditional"), f"the walk descends into {need[a]} under {sorted(gs)}; expected only {sorted(allowed[a])}: "
                        "part of what the identifier depends on would not be sealed (or validated, or instantiated)", loc)
        elif isinstance(c.args[0], ast.Name) and gs:
            okv = gs <= {(f"{c.args[0].id} is None", False)}
            chk.require(okv, chk.fkey(f, f"descent into values is unconditional [{a}]"), f"the walk descends into a value under {sorted(gs)}; expected at most `is not None`", loc)
    # argument values, list elements, dict values
    loops = {src(n.ast.iter): n for n in g.live if n.kind == "for"}
    for its, what in ((("info.xpmvalues()", "x.__xpm__.xpmvalues()"), "argument values"), (("enumerate(x)",), "list elements"), (("x.items()",), "dict values")):
        lp = next((loops[i] for i in its if i in loops), None)
        ok = lp is not None and any(isinstance(c, ast.Call) and isinstance(c.func, ast.Name) and c.func.id == "self" for s in lp.ast.body for c in walk_local(s))
        chk.require(ok, chk.fkey(f, f"descends into {what}"), f"the configuration walk does not descend into {what}", loc)
    # task descent only with recurse_task; the sealer asks for it
    for n, c in recs:
        if rd.canon(c.args[0], n) == "x.__xpm__.task":
            gs = [(src(t.ast), pol) for t, pol in g.guards(n) if t.kind == "test"]
            chk.require(("self.recurse_task", True) in gs, chk.fkey(f, "task under recurse_task"), "descent into the producing task must be controlled by recurse_task", loc)
    sl = tree.func("core.objects", "ConfigInformation.seal")
    pre0 = tree.func("core.objects", "ConfigInformation.seal.Sealer.preprocess")
    sealer_names = {"Sealer"} | ({pre0.cls.node.name} if pre0.cls is not None else set())
    ok = any(dotted(c.func) in sealer_names and any(k.arg == "recurse_task" and isinstance(k.value, ast.Constant) and k.value.value is True for k in c.keywords) for c in fn_calls(sl.node))
    chk.require(ok, chk.fkey(sl, "sealer recurses into tasks"), "the sealing walk must be created with recurse_task=True", chk.loc(sl.module, sl.node))
    pre = tree.func("core.objects", "ConfigInformation.seal.Sealer.preprocess")
    rets = [src(x.value) for x in body_walk(pre.node) if isinstance(x, ast.Return)]
    chk.require(rets == ["(not config.__xpm__._sealed, config)"], chk.fkey(pre, "stops on sealed nodes"), f"Sealer.preprocess returns {rets}", chk.loc(pre.module, pre.node))


def init_tasks_owned(chk: Check):
    """The init tasks of a submitted task are part of its frozen identity: submit() stores its own list, not the caller's (nor the shared default)"""
    tree = chk.tree
    sub = tree.func("core.objects", "ConfigInformation.submit")
    st = [x for x in body_walk(sub.node) if isinstance(x, ast.Assign) and src(x.targets[0]) == "self.init_tasks"]
    chk.min_instances(len(st), 1, "store of self.init_tasks in submit")
    params = {a.arg for a in sub.node.args.args + sub.node.args.kwonlyargs}
    for x in st:
        alias = isinstance(x.value, ast.Name) and x.value.id in params
        chk.require(not alias, chk.fkey(sub, "own list of init tasks"), f"`{norm_stmt(x)}` stores the caller's list: appending to it after the submission changes the sealed task (and the parameter file of its job) "
                    "while its identifier stays", chk.loc(sub.module, x))


def r3_submit_order(chk: Check):
    init_tasks_owned(chk)
    tree = chk.tree
    f = tree.func("core.objects", "ConfigInformation.submit")
    g = CFG(f.node)
    loc = chk.loc(f.module, f.node)
    ini = [n for n in g.live if n.kind == "stmt" and isinstance(n.ast, ast.Assign) and src(n.ast.targets[0]) == "self.init_tasks" and "init_tasks" in src(n.ast.value)]
    # (validate_and_seal is spliced into submit at load time: the rule reads `self.validate()` ... `self.seal(context)` in submit itself)
    va = [n for n, c in g.call_nodes(lambda c: src(c) == "self.validate()")]
    vs = [n for n, c in g.call_nodes(lambda c: dotted(c.func) == "self.seal")]
    upd = [n for n, c in g.call_nodes(lambda c: dotted(c.func) == "self.updatedependencies")]
    sub = [n for n, c in g.call_nodes(lambda c: src(c).startswith("experiment.CURRENT.submit("))]
    ok = len(ini) == 1 and len(vs) == 1 and len(va) == 1 and g.dominates(ini[0], va[0]) and g.dominates(ini[0], vs[0])
    chk.require(ok, chk.fkey(f, "init tasks before sealing"), "init tasks must be attached before the configuration is validated and sealed (they are part of the identifier)", loc)
    ok = len(vs) == 1 and upd and sub and all(g.dominates(vs[0], u) for u in upd) and all(g.dominates(vs[0], s) for s in sub)
    chk.require(ok, chk.fkey(f, "seal before scheduling"), "the task must be validated and sealed before dependencies are collected and before it is handed to the scheduler", loc)
    chk.require(len(va) == 1 and len(vs) == 1 and g.dominates(va[0], vs[0]), chk.fkey(f, "validate then seal"), "validation must precede sealing", loc)
    # the job directory is derived from the identifier after sealing: Job() is created before sealing but reads the identifier lazily (properties)
    for p in ("relpath", "identifier"):
        jp = tree.cls("scheduler.base", "Job").methods[p]
        chk.require(any(isinstance(d, ast.Name) and d.id == "property" for d in jp.node.decorator_list), chk.fkey(jp, "lazy"), f"Job.{p} must be computed on demand (after sealing), not cached at construction", chk.loc(jp.module, jp.node))


def r4_identity_frozen(chk: Check):
    c01.r3_cache(chk)
    # a cached identifier is reset only together with unsealing
    tree = chk.tree
    n = 0
    for f in tree.nontest_funcs():
        resets = [(t, v, s) for t, v, s in attr_stores(f.node) if t.attr in c01.CACHE_FIELDS and isinstance(v, ast.Constant) and v.value is None]
        if not resets:
            continue
        uns = {src(t.value) for t, v, s in attr_stores(f.node) if t.attr == "_sealed" and isinstance(v, ast.Constant) and v.value is False}
        for t, v, s in resets:
            n += 1
            chk.require(src(t.value) in uns, chk.fkey(f, norm_stmt(s)),
                        f"`{f.qual}` resets the cached identifier `{t.attr}` of a configuration without unsealing it: the identifier (and the job directory derived from it) of a "
                        "submitted task would be recomputed later from a state that changed since submission (e.g. the producing task attached to a sealed output)", chk.loc(f.module, s))
    chk.min_instances(n, 4, "resets of the identifier cache")


def r5_nobody_unseals(chk: Check):
    """Unsealing walks through task links and shared sub-configurations: it reopens nodes that were sealed by an earlier submission.
    No function of the package calls it (internal API kept for tests / interactive repair)."""
    tree = chk.tree
    sites = []
    for f in tree.nontest_funcs():
        for c in fn_calls(f.node):
            if tail(c) == "__unseal__" or (isinstance(c.func, ast.Name) and c.func.id in ("Unsealer", "_Unsealer")):
                if not f.key.startswith("core.objects:ConfigInformation.__unseal__"):
                    sites.append((f, c))
        for t, v, s_ in attr_stores(f.node):
            if t.attr == "_sealed" and isinstance(v, ast.Constant) and v.value is False and "__unseal__" not in f.key and f.name != "__init__":
                sites.append((f, s_))
    for f, c in sites:
        chk.violation(chk.fkey(f, "unseals"), f"`{f.qual}` unseals configurations (`{src(c)[:80]}`): every node reachable from there, including tasks already submitted and their shared "
                      "sub-configurations, becomes assignable again and loses its cached identifier", chk.loc(f.module, c))
    if not sites:
        chk.ok("core.objects:unsealing sites", "", "no function of the package unseals (only ConfigInformation.__unseal__ itself)")


RULES = [
    ("R1", "every mutation of values / _meta / pre_tasks is unreachable with `_sealed` true (bypass only in the frozen table of construction / sealing / loading / fresh-copy sites)", r1_mutator_guards),
    ("R2", "the sealing walk reaches everything the identifier depends on: argument values, list elements, dict values, pre-tasks, init tasks, producing task (recurse_task=True)", r2_seal_reaches_hash_inputs),
    ("R3", "submit: init tasks attached, then validate, then seal, then dependency collection and scheduling; job paths are derived lazily", r3_submit_order),
    ("R5", "who may unseal: no function of the package calls __unseal__ / stores _sealed = False (except __unseal__ itself and constructors)", r5_nobody_unseals),
    ("R4", "identity frozen: identifier cache legitimacy (= C01.R3) and the cache is reset only together with unsealing", r4_identity_frozen),
]
