"""C15 -- parameters hold values of their declared type; submit fails fast."""

from __future__ import annotations

import ast
import re
import itertools

from ..astq import attr_stores, body_walk, dotted, src, walk_local, norm_stmt, fn_calls
from ..cfg import CFG
from ..dataflow import ReachingDefs, walk_table
from ..loader import Undecided
from ..report import Check
from . import c14

ASSUMPTIONS = [
    "equality of read-back values for arbitrary user types is not decided; BoolType accepts anything (stores bool(value))",
    "checker objects (argument.checker) are user code",
]


from ..astq import tail  # noqa: E402


def r1_validate_total(chk: Check):
    tree = chk.tree
    base = tree.cls("core.types", "Type")
    n = 0
    for c in tree.subclasses(base, strict=True):
        f = c.methods.get("validate")
        if f is None:
            continue
        n += 1
        g = CFG(f.node)
        loc = chk.loc(f.module, f.node)
        bad = []
        for (p, l) in g.exit.pred:
            if p.kind == "stmt" and isinstance(p.ast, ast.Return):
                v = p.ast.value
                if v is None or (isinstance(v, ast.Constant) and v.value is None):
                    gs = [(src(t.ast), pol) for t, pol in g.guards(p) if t.kind == "test"]
                    if ("value is None", True) in gs:
                        continue  # None stays None (optional)
                    bad.append(f"`return None` at line {p.lineno}")
            else:
                bad.append(f"falls off the end after line {p.lineno} ({p.label()[:50]})")
        chk.require(not bad, chk.fkey(f, "total"), f"{c.qual}.validate can complete without returning a value ({'; '.join(bad)}): assignment would silently store None for a value of the wrong type", loc)
    chk.min_instances(n, 10, "validate implementations of Type subclasses")


def r2_set_table(chk: Check):
    tree = chk.tree
    f = tree.func("core.objects", "ConfigInformation.set")
    g = CFG(f.node)
    rd = ReachingDefs(g)
    loc = chk.loc(f.module, f.node)

    def classify(n):
        t = src(n.ast)
        c = rd.canon(n.ast, n)
        table = {
            "k not in self.xpmtype.arguments": ("is_arg", False), "k in self.xpmtype.arguments": ("is_arg", True),
            "self._sealed": ("sealed", True), "bypass": ("bypass", True),
            "argument.generator": ("generated", True), "argument.constant": ("constant", True),
            "v is not None": ("v_none", False), "v is None": ("v_none", True),
            "argument.required": ("required", True),
            "argument is None": ("is_arg", False), "argument is not None": ("is_arg", True),
        }
        if t in table:
            return table[t]
        if t == "argument" or c in ("self.xpmtype.arguments.get(k, None)", "self.xpmtype.arguments.get(k)"):
            return ("is_arg", True)
        return None

    def events(n):
        out = []
        if n.kind == "stmt":
            if isinstance(n.ast, ast.Assign) and src(n.ast.targets[0]) == "self.values[k]":
                out.append("store " + src(n.ast.value))
            elif isinstance(n.ast, ast.Expr) and isinstance(n.ast.value, ast.Call) and dotted(n.ast.value.func) == "setattr":
                out.append("plain attribute")
            elif isinstance(n.ast, ast.Raise) and n.ast.exc is not None:
                out.append("raise")
        return out

    def stop(n):
        if n is g.exit:
            return "exit"
        if n is g.raise_:
            return "raise"
        return None

    atoms = ["is_arg", "sealed", "bypass", "generated", "constant", "v_none", "required"]
    nsc = 0
    nbad = 0
    for bits in itertools.product([False, True], repeat=len(atoms)):
        s = dict(zip(atoms, bits))
        if s["sealed"]:
            continue  # the sealed dimension belongs to C14.R1; here the configuration is open
        nsc += 1
        if not s["is_arg"]:
            want = ("plain attribute", "exit")
        elif s["sealed"] and not s["bypass"]:
            want = ("raise", "raise")
        elif (s["generated"] or s["constant"]) and not s["bypass"]:
            want = ("raise", "raise")
        elif not s["v_none"]:
            want = ("store argument.validate(v)", "exit")
        elif s["required"]:
            want = ("raise", "raise")
        else:
            want = ("store None", "exit")
        outs = walk_table(g, g.entry, classify, s, events, stop)
        for o in outs:
            ev = [e for e in o.events]
            # the except/log/re-raise wrapper: a raise is followed by the bare re-raise
            got = (ev[0] if ev else "nothing", o.end)
            ok = got == want and not [u for u in o.unknown if u[2] is None]
            if not ok:
                nbad += 1
                if nbad > 3:
                    break
                sc = ", ".join(f"{k}={'T' if v else 'F'}" for k, v in s.items())
                chk.violation(chk.fkey(f, f"set() under [{','.join(k for k, v in s.items() if v)}]"),
                              f"ConfigInformation.set under [{sc}] does {ev or ['nothing']} and ends with {o.end}"
                              f"{' depending on ' + str([u[0] for u in o.unknown]) if o.unknown else ''}; expected {want[0]} ({want[1]}). "
                              "The stored value must be the validated (coerced) one, a sealed or read-only parameter must raise, a required one cannot be None", loc)
                break
    chk.ok(chk.fkey(f, "decision table"), loc, f"{nsc} scenarios")
    chk.count("c15_set_scenarios", nsc)
    # who may write values[...]: only ConfigInformation.set (A3)
    nst = 0
    for ff in tree.nontest_funcs():
        for x in body_walk(ff.node):
            if isinstance(x, (ast.Assign, ast.AugAssign)):
                tg = x.targets if isinstance(x, ast.Assign) else [x.target]
                for t in tg:
                    if isinstance(t, ast.Subscript) and isinstance(t.value, ast.Attribute) and t.value.attr == "values" and ff.module.name == "core.objects" and (
                            (dotted(t.value.value) or "").endswith(("__xpm__", "xpm", "xpminfo")) or (dotted(t.value.value) == "self" and ff.cls is not None and ff.cls.qual == "ConfigInformation")):
                        nst += 1
                        chk.require(ff.key == "core.objects:ConfigInformation.set", chk.fkey(ff, "stores into values: " + norm_stmt(x)),
                                    f"`{ff.qual}` stores a parameter value directly into `values`, bypassing validation / coercion: the parameter may hold a value that is not of its declared type "
                                    "(e.g. a default `1` for a float parameter stays an int)", chk.loc(ff.module, x))
    chk.min_instances(nst, 2, "stores into values[...]")
    # Argument.validate returns the type-validated value
    av = tree.func("core.arguments", "Argument.validate")
    ga = CFG(av.node)
    rda = ReachingDefs(ga)
    rets = [n for n in ga.live if n.kind == "stmt" and isinstance(n.ast, ast.Return)]
    ok = len(rets) == 1 and rda.canon(rets[0].ast.value, rets[0]) == "self.type.validate(value)"
    chk.require(ok, chk.fkey(av, "returns the validated value"), "Argument.validate must return the value returned by the type's validate (the coerced one)", chk.loc(av.module, av.node))


def r3_coercions(chk: Check):
    """Reference predicates evaluated on the path traces of each validate(): independent of how the
    control structure is written"""
    from ..dataflow import path_traces

    tree = chk.tree
    V = "<p1>"

    def traces(cls):
        f = tree.func("core.types", f"{cls}.validate")
        return f, path_traces(f.node), chk.loc(f.module, f.node)

    def returns(ts):
        return [t for t in ts if t.end.startswith("return")]

    # --- int
    f, ts, loc = traces("IntType")
    bad = []
    for t in ts:
        isf = t.has(f"isinstance({V}, float)", True)
        notf = t.has(f"isinstance({V}, float)", False)
        isi = t.has(f"isinstance({V}, int)", True)
        fr0 = [c for c in t.conds if c[0].endswith(" == 0")]
        if t.end.startswith("return"):
            if isf and fr0 and fr0[0][1] is True and t.end.startswith("return int("):
                continue
            if (notf or not isf) and isi and t.end == f"return {V}":
                continue
            bad.append(t)
        elif t.end.startswith("raise"):
            if (isf and fr0 and fr0[0][1] is False) or (not isf and t.has(f"isinstance({V}, int)", False)):
                continue
            bad.append(t)
        else:
            bad.append(t)
    kinds = {("float-ok" if (t.has(f"isinstance({V}, float)", True) and t.end.startswith("return int(")) else "int-ok" if t.end == f"return {V}" else "raise" if t.end.startswith("raise") else "?") for t in ts}
    chk.require(not bad and {"float-ok", "int-ok", "raise"} <= kinds and "math.modf" in src(f.node), chk.fkey(f, "integral float -> int"),
                f"IntType.validate: an integral float must become int(...), a float with a fractional part and any non-int must raise, an int is kept ({bad[:2]})", loc)
    # --- float
    f, ts, loc = traces("FloatType")
    ok = all((t.end == f"return float({V})" and t.has(f"isinstance({V}, (float, int))", True)) or (t.end.startswith("raise") and t.has(f"isinstance({V}, (float, int))", False)) for t in ts) and len(ts) == 2
    ok = ok or all((t.end == f"return float({V})" and t.has(f"isinstance({V}, (int, float))", True)) or (t.end.startswith("raise") and t.has(f"isinstance({V}, (int, float))", False)) for t in ts) and len(ts) == 2
    chk.require(ok, chk.fkey(f, "int -> float"), f"FloatType.validate: int or float -> float(value); anything else raises ({ts})", loc)
    # --- path
    f, ts, loc = traces("PathType")
    ok = bool(returns(ts))
    for t in ts:
        strpath = [c for c in t.conds if c[0] in (f"isinstance({V}, (str, Path))", f"isinstance({V}, (Path, str))")]
        if t.end.startswith("return"):
            legacy = any("'$type'" in c[0] and c[1] is True for c in t.conds)
            ok = ok and ((t.end == f"return Path({V})" and strpath and strpath[0][1] is True) or (legacy and t.end.startswith("return Path(")))
        else:
            ok = ok and t.end.startswith("raise") and strpath and strpath[0][1] is False
    chk.require(ok, chk.fkey(f, "str -> Path"), f"PathType.validate: str or Path -> Path(value); anything else raises ({ts})", loc)
    # --- str
    f, ts, loc = traces("StrType")
    ok = all((t.end.startswith("return") and t.has(f"isinstance({V}, str)", True)) or (t.end.startswith("raise") and t.has(f"isinstance({V}, str)", False)) for t in ts) and len(ts) == 2
    chk.require(ok, chk.fkey(f, "str only"), f"StrType.validate: non-str raises ({ts})", loc)
    # --- containers
    f, ts, loc = traces("ArrayType")
    ok = len(ts) == 2 and all((t.end == f"return [self.type.validate($1) for $1 in {V}]" and t.has(f"isinstance({V}, List)", True)) or (t.end.startswith("raise") and t.has(f"isinstance({V}, List)", False))
                              or (t.end == f"return [self.type.validate($1) for $1 in {V}]" and t.has(f"isinstance({V}, list)", True)) or (t.end.startswith("raise") and t.has(f"isinstance({V}, list)", False)) for t in ts)
    chk.require(ok, chk.fkey(f, "every element validated"), f"ArrayType.validate: non-list raises; the stored list is rebuilt from every validated element ({ts})", loc)
    f, ts, loc = traces("DictType")
    want = f"return {{self.keytype.validate($1): self.valuetype.validate($2) for $1, $2 in {V}.items()}}"
    ok = len(ts) == 2 and all((t.end == want and t.has(f"isinstance({V}, dict)", True)) or (t.end.startswith("raise") and t.has(f"isinstance({V}, dict)", False)) for t in ts)
    chk.require(ok, chk.fkey(f, "every key and value validated"), f"DictType.validate: non-dict raises; the stored dict is rebuilt from every validated key and value ({ts})", loc)
    # --- union: first accepting member, else raise unconditionally
    f = tree.func("core.types", "UnionType.validate")
    g = CFG(f.node)
    loc = chk.loc(f.module, f.node)
    loops = [n for n in g.live if n.kind == "for" and src(n.ast.iter) == "self.types"]
    ok = len(loops) == 1
    if ok:
        done = [b for b in g.live if b.kind == "branch" and b.extra["test"] is loops[0] and b.extra["polarity"] == "done"][0]
        reach = g.reachable(done)
        ok = g.exit.id not in reach and any(n.id in reach and n.kind == "stmt" and isinstance(n.ast, ast.Raise) for n in g.live)
        v = src(loops[0].ast.target)
        ok = ok and any(isinstance(x, ast.Return) and src(x.value) == f"{v}.validate(value)" for x in ast.walk(loops[0].ast))
    chk.require(ok, chk.fkey(f, "first accepting member or raise"), "UnionType: returns the first member type's validated value; when no member accepts, it must raise unconditionally", loc)
    # --- enum / configuration
    f, ts, loc = traces("EnumType")
    ok = all((t.end == f"return {V}" and t.has(f"isinstance({V}, self.type)", True)) or (t.end.startswith("raise") and t.has(f"isinstance({V}, self.type)", False)) for t in ts) and len(ts) == 2
    chk.require(ok, chk.fkey(f, "enum member"), f"EnumType: only members of the declared enum ({ts})", loc)
    f = tree.func("core.types", "ObjectType.validate")
    ts = path_traces(f.node)
    loc = chk.loc(f.module, f.node)
    ok = bool(ts)
    for t in ts:
        if t.end == f"return {V}":
            # (returning the value when it is None is `return None`)
            ok = ok and (t.has(f"{V} is None", True) or (t.has(f"isinstance({V}, Config)", True) and (t.has(f"isinstance({V}, self.basetype)", True) or t.has(f"isinstance({V}, types)", True))))
        elif t.end == "return None":
            ok = ok and t.has(f"{V} is None", True)
        else:
            ok = ok and t.end.startswith("raise")
    chk.require(ok, chk.fkey(f, "configuration subtype"), f"ObjectType: only configurations of the declared class (or a subclass) ({[t for t in ts if t.end.startswith('return')]})", loc)
    aa = tree.func("core.types", "ObjectType.addArgument")
    chk.require("argument.type.validate(argument.default)" in src(aa.node), chk.fkey(aa, "default validated"), "a declared default must be validated", chk.loc(aa.module, aa.node))


def r4_required_reaches_graph(chk: Check):
    tree = chk.tree
    f = tree.func("core.objects", "ConfigInformation.validate")
    loc = chk.loc(f.module, f.node)
    helper = tree.funcs.get("core.objects:ConfigInformation.validate.validate_value")
    for k, ff in tree.funcs.items():
        if helper is None and ff.parent is f:
            helper = ff
    g = CFG(f.node)
    if helper is None:
        inline = [c for c in fn_calls(f.node) if src(c.func).endswith(".__xpm__.validate")]
        recl = any(isinstance(x, ast.For) and src(x.iter) in ("value", "value.values()") for x in ast.walk(f.node))
        if inline and not recl:
            chk.violation(chk.fkey(f, "list elements / dict values"), "ConfigInformation.validate only follows direct Config values: configurations inside list or dict parameters are not validated, "
                          "so a required value missing there is accepted at submission", loc)
            return
        raise Undecided("ConfigInformation.validate: no nested value walker found")
    hp = helper.node.args.args[0].arg
    gh = CFG(helper.node)
    hloc = loc

    def guarded(n, kind):
        return any(t.kind == "test" and src(t.ast) in (f"isinstance({hp}, {kind})",) and pol is True for t, pol in gh.guards(n))

    cfgcalls = [n for n, c in gh.call_nodes(lambda c: src(c.func) == f"{hp}.__xpm__.validate") if guarded(n, "Config")]
    chk.require(bool(cfgcalls), chk.fkey(helper, "Config"), "nested configurations are not validated", hloc)
    for n in cfgcalls:
        cb = [b for b in gh.live if b.kind == "branch" and b.extra["test"].kind == "test" and src(b.extra["test"].ast) == f"isinstance({hp}, Config)" and b.extra["polarity"] is True]
        ok = bool(cb) and all(gh.on_every_path([n], start=b) for b in cb)
        chk.require(ok, chk.fkey(helper, "Config validated unconditionally"),
                    "a nested configuration is validated only under an extra condition: e.g. configurations produced by task_outputs() carry a task link but were never validated by the producing task, "
                    "so a required value missing there is accepted at submission", hloc)
    for kind, it_text, what in (("list", hp, "list elements"), ("dict", f"{hp}.values()", "dict values")):
        loops_k = [n for n in gh.live if n.kind == "for" and guarded(n, kind)]
        ok = False
        desc = [src(n.ast.iter) for n in loops_k]
        for n in loops_k:
            tgt = src(n.ast.target)
            rec = [c for s2 in n.ast.body for c in walk_local(s2) if isinstance(c, ast.Call) and tail(c) == helper.node.name]
            if src(n.ast.iter) == it_text and len(rec) == 1 and len(rec[0].args) == 1 and src(rec[0].args[0]) == tgt:
                ok = True
            if kind == "dict" and len(rec) == 1 and len(rec[0].args) == 1:
                # other ways of reaching every value of the dict
                a = src(rec[0].args[0])
                names = tgt.strip("()").split(", ")
                if src(n.ast.iter) == f"{hp}.items()" and len(names) == 2 and a == names[1]:
                    ok = True
                if src(n.ast.iter) in (hp, f"{hp}.keys()") and a == f"{hp}[{tgt}]":
                    ok = True
        extra = " (iterating a dict yields its keys)" if kind == "dict" else ""
        chk.require(ok, chk.fkey(helper, what), f"configurations stored as {what} of a parameter are not validated (loops over {desc}{extra}): a required value missing there is accepted at submission", hloc)
    # called for every argument value; required + missing raises unless generated
    loops = [n for n in g.live if n.kind == "for" and src(n.ast.iter) == "self.xpmtype.arguments.items()"]
    chk.require(len(loops) == 1, chk.fkey(f, "argument loop"), "validate must examine every declared argument", loc)
    if len(loops) == 1:
        calls = [c for s in loops[0].ast.body for c in walk_local(s) if isinstance(c, ast.Call) and tail(c) == helper.node.name]
        chk.require(len(calls) == 1, chk.fkey(f, "walks each value"), "every argument value must be walked for nested configurations", loc)
        # per-argument decision table: a value is walked; a missing required value without generator raises; nothing else leaves the iteration early
        lp = loops[0]
        start = [m for m, l in lp.succ if l == "loop"][0]
        after = [m for m, l in lp.succ if l == "done"]
        hname = helper.node.name

        def classify(n):
            t = src(n.ast)
            return {"value is None": ("none", True), "argument.required": ("req", True), "argument.generator": ("gen", True)}.get(t)

        def events(n):
            return ["walk" for c in n.calls() if tail(c) == hname]

        def stop(n):
            if n is lp:
                return "next"
            if n in after:
                return "left the loop"
            if n is g.raise_:
                return "raise"
            if n is g.exit:
                return "return"
            return None

        import itertools

        bad = []
        for none, req, gen in itertools.product([True, False], repeat=3):
            outs = walk_table(g, start, classify, {"none": none, "req": req, "gen": gen}, events, stop)
            want_end = "raise" if none and req and not gen else "next"
            want_walk = not none
            for o in outs:
                # a condition outside the table is harmless when both of its outcomes end the same way (explored both ways, e.g. the
                # bookkeeping of an exception handler that re-raises)
                unk = []
                if o.end != want_end or ("walk" in o.events) != want_walk:
                    unk = [u[0] for u in o.unknown if u[2] is None]
                if o.end != want_end or ("walk" in o.events) != want_walk:
                    bad.append(f"value {'missing' if none else 'given'}, required={req}, generator={gen}: {'walked' if 'walk' in o.events else 'not walked'}, {o.end}{' depending on ' + str(unk) if unk else ''}")
        chk.require(not bad, chk.fkey(f, "per-argument decision"), "every argument must be examined: a given value is walked for nested configurations, a missing required value without generator raises, "
                    f"and no other argument ends the loop; found {bad[:3]}", loc)
    for attr in ("self.pre_tasks", "self.init_tasks"):
        lp = [n for n in g.live if n.kind == "for" and src(n.ast.iter) == attr]
        ok = len(lp) == 1 and any(isinstance(c, ast.Call) and src(c.func).endswith(".__xpm__.validate") for s in lp[0].ast.body for c in walk_local(s))
        chk.require(ok, chk.fkey(f, f"validates {attr}"), f"`{attr}` are not validated", loc)


def r5_submit_validates_first(chk: Check):
    c14.r3_submit_order(chk)
    # fail fast: a validation error is never swallowed -- every handler around a validation call re-raises on all its paths
    tree = chk.tree
    n = 0
    for key in ("core.objects:ConfigInformation.validate", "core.objects:ConfigInformation.submit", "core.objects:ConfigInformation.validate_and_seal"):
        f = tree.funcs.get(key)
        if f is None:
            continue
        for t in ast.walk(f.node):
            if not isinstance(t, ast.Try):
                continue
            guarded = [c for b in t.body for c in ast.walk(b) if isinstance(c, ast.Call) and tail(c) in ("validate", "__validate__")]
            if not guarded:
                continue
            for h in t.handlers:
                if isinstance(h.type, ast.Name) and h.type.id.startswith("__InlineReturn"):
                    continue
                n += 1
                # the handler's last statement on every path is a raise
                def ends_raising(stmts):
                    if not stmts:
                        return False
                    last = stmts[-1]
                    if isinstance(last, ast.Raise):
                        return True
                    if isinstance(last, ast.If):
                        return ends_raising(last.body) and ends_raising(last.orelse)
                    return False
                chk.require(ends_raising(h.body), chk.fkey(f, "validation errors propagate"), f"an `except {src(h.type) if h.type else ''}` around `{src(guarded[0])}` in `{f.qual}` does not re-raise: "
                            "an invalid configuration would be accepted and scheduled instead of being rejected by submit()", chk.loc(f.module, h))
    chk.min_instances(n, 2, "exception handlers around validation calls")


def r6_type_resolution(chk: Check):
    """Declared types are resolved exactly: the table of basic types is looked up by the key itself (an Enum that also
    derives from int / str must stay an enumeration), and enumerations are recognised before any structural fallback"""
    tree = chk.tree
    # the declared hint object itself decides: no table keyed by the *text* of a hint (two classes of the same name print alike)
    for ff in tree.nontest_funcs():
        if ff.module.name not in ("core.arguments", "core.types", "core.objects"):
            continue
        gg = CFG(ff.node)
        rr = ReachingDefs(gg)
        for nn in gg.live:
            for x in nn.walk():
                key = None
                if isinstance(x, ast.Subscript) and isinstance(x.ctx, (ast.Load, ast.Store)):
                    key = x.slice
                elif isinstance(x, ast.Call) and isinstance(x.func, ast.Attribute) and x.func.attr in ("get", "setdefault", "pop") and x.args:
                    key = x.args[0]
                if key is None:
                    continue
                kt = rr.canon(key, nn)
                if re.match(r"^(repr|str)\(", kt) and re.search(r"type|hint", kt, re.I) and "name" not in kt:
                    chk.violation(chk.fkey(ff, "type looked up by its text"), f"`{src(x)[:80]}` in `{ff.qual}` indexes a table with `{kt}`: the text of a type hint does not identify it (same-named classes, re-defined classes), "
                                  "so a parameter may be validated against another class than the declared one", chk.loc(ff.module, x))
    f = tree.func("core.types", "Type.fromType")
    g = CFG(f.node)
    rd = ReachingDefs(g)
    loc = chk.loc(f.module, f.node)
    lookups = [(n, c) for n, c in g.call_nodes(lambda c: src(c.func) in ("Type.DEFINED.get",) or (isinstance(c.func, ast.Attribute) and c.func.attr == "get" and "DEFINED" in src(c.func.value)))]
    subs = [x for x in body_walk(f.node) if isinstance(x, ast.Subscript) and "DEFINED" in src(x.value)]
    bad = [src(c) for n, c in lookups if not (c.args and src(c.args[0]) == "key")] + [src(x) for x in subs if src(x.slice) != "key"]
    chk.require(bool(lookups) and not bad, chk.fkey(f, "exact lookup"), f"Type.fromType looks basic types up with {bad}: only the declared type itself may select a basic type "
                "(a base-class lookup turns IntEnum / (str, Enum) parameters into plain int / str parameters that accept any number / string)", loc)
    en = [n for n in g.live if n.kind == "test" and src(n.ast) == "issubclass(key, Enum)"]
    chk.require(len(en) == 1, chk.fkey(f, "enum recognised"), "Type.fromType must recognise enumeration classes", loc)


def r7_failed_validation_leaves_no_mark(chk: Check):
    """validate() marks a configuration as validated before it checks it (the mark stops cycles).  Every exceptional exit after the mark
    must remove it again, or the configuration -- and the missing value in it -- is skipped by the next submit that reaches it"""
    tree = chk.tree
    f = tree.func("core.objects", "ConfigInformation.validate")
    loc = chk.loc(f.module, f.node)
    # the only reason to skip a configuration is that it carries the mark: no other early exit (e.g. "an equal configuration was seen":
    # configuration equality ignores values that are not set)
    g0 = CFG(f.node)
    arg_loops = [n for n in g0.live if n.kind == "for" and "arguments" in src(n.ast.iter)]
    examined = [b for b in g0.live if b.kind == "branch" and b.extra["test"] in arg_loops and b.extra["polarity"] == "done"]
    for n in g0.live:
        if n.kind == "stmt" and isinstance(n.ast, ast.Return):
            gs = [(src(t.ast), pol) for t, pol in g0.guards(n) if t.kind == "test"]
            extra = [x for x in gs if x != ("self._validated", True)]
            if extra and examined and g0.must_pass(g0.entry, n, examined):
                continue  # a return after every argument was examined is the end of the function
            chk.require(not extra, chk.fkey(f, "skipped only when marked"), f"validate() returns early under {extra}: a configuration that was never examined is treated as valid", chk.loc(f.module, n.ast))
    marks = [x for x in body_walk(f.node) if isinstance(x, ast.Assign) and src(x.targets[0]).endswith("._validated") and isinstance(x.value, ast.Constant) and x.value.value is True]
    if not marks:
        chk.ok(chk.fkey(f, "no persistent validated mark"), loc)
        return

    def anc(x):
        p = getattr(x, "_parent", None)
        while p is not None and p is not f.node:
            yield p
            p = getattr(p, "_parent", None)

    def resets(h):
        has_reset = any(isinstance(y, ast.Assign) and src(y.targets[0]).endswith("._validated") and isinstance(y.value, ast.Constant) and y.value.value is False for y in ast.walk(h))
        reraises = any(isinstance(y, ast.Raise) and y.exc is None for y in h.body)
        broad = h.type is None or src(h.type) in ("BaseException", "Exception")
        return has_reset and reraises and broad

    risky = []
    for x in body_walk(f.node):
        if isinstance(x, ast.Raise) and not any(isinstance(a, ast.ExceptHandler) for a in anc(x)):
            risky.append(x)
        elif isinstance(x, ast.Call) and (tail(x) in ("validate", "__validate__") or (isinstance(x.func, ast.Name) and x.func.id.startswith("validate"))):
            risky.append(x)
    chk.min_instances(len(risky), 3, "raising sites of ConfigInformation.validate")
    for x in risky:
        ok = any(isinstance(a, ast.Try) and any(x is y for st in a.body for y in ast.walk(st)) and any(resets(h) for h in a.handlers) for a in anc(x))
        chk.require(ok, chk.fkey(f, "mark removed when validation fails"),
                    f"`{src(x)[:60]}` can raise after the configuration was marked as validated and nothing removes the mark: the next task that uses this (sub-)configuration skips "
                    "its validation, so a missing required value is accepted at submission", chk.loc(f.module, x))



def r8_known_gaps(chk: Check):
    """Three validators that store a value that is not of the declared type, or refuse one that is (findings kept in known_findings.json)"""
    tree = chk.tree
    bt = tree.func("core.types", "BoolType.validate")
    rets = [x for x in body_walk(bt.node) if isinstance(x, ast.Return) and x.value is not None]
    raises = [x for x in body_walk(bt.node) if isinstance(x, ast.Raise)]
    coerces = any(isinstance(x.value, ast.Call) and dotted(x.value.func) == "bool" for x in rets)
    chk.require(not coerces or bool(raises), chk.fkey(bt, "bool accepts anything"), "BoolType.validate is `return bool(value)`: 'false', 'no', a list or a configuration are accepted and stored as their truth value "
                "(Param[bool] := 'false' stores True)", chk.loc(bt.module, bt.node))
    ot = tree.func("core.types", "ObjectType.validate")
    g = CFG(ot.node)
    none_ok = [n for n in g.live if n.kind == "stmt" and isinstance(n.ast, ast.Return) and (n.ast.value is None or (isinstance(n.ast.value, ast.Constant) and n.ast.value.value is None))
               and any(src(t.ast) == "value is None" and pol is True for t, pol in g.guards(n) if t.kind == "test")]
    chk.require(not none_ok, chk.fkey(ot, "None accepted as a configuration"), "ObjectType.validate returns None for None: `List[Layer] := [Layer(), None]` and `Dict[str, Layer] := {'a': None}` are stored "
                "(a List[int] rejects None); the submission fails later, by accident, in the sealing walk", chk.loc(ot.module, ot.node))
    et = tree.func("core.types", "EnumType.validate")
    un = tree.func("core.types", "UnionType.validate")
    by_assert = any(isinstance(x, ast.Assert) for x in body_walk(et.node))
    caught = any(h.type is not None and "AssertionError" in src(h.type) or h.type is None for h in ast.walk(un.node) if isinstance(h, ast.ExceptHandler))
    chk.require(not by_assert or caught, chk.fkey(un, "an enumeration member aborts a Union"), "EnumType.validate reports a mismatch with `assert` and UnionType.validate only catches ValueError / TypeError: "
                "Union[Pooling, int] := 3 is rejected instead of trying int", chk.loc(un.module, un.node))


RULES = [
    ("R1", "every Type.validate is total: no non-raising path returns None / falls off the end (except None stays None)", r1_validate_total),
    ("R2", "ConfigInformation.set decision table over all 64 assignments of its atoms on an unsealed configuration: stores the *validated* value, raises when sealed / read-only / required-None; nobody else stores into values; Argument.validate returns the coerced value", r2_set_table),
    ("R3", "documented coercions and container validation: integral float -> int, int -> float, str -> Path; every element / key / value validated and the container rebuilt; Union raises when no member accepts", r3_coercions),
    ("R4", "the required-value check reaches the whole graph: direct values, list elements, dict *values*, pre-tasks, init tasks; missing required (not generated) raises", r4_required_reaches_graph),
    ("R6", "declared types are resolved exactly: basic types by the key itself, enumerations recognised", r6_type_resolution),
    ("R7", "a failed validation leaves no configuration marked as validated: every raising site after the mark is covered by a handler that resets it and re-raises", r7_failed_validation_leaves_no_mark),
    ("R5", "submit validates and seals before anything is registered (= C14.R3)", r5_submit_validates_first),
    ("R8", "validators with a wrong verdict (findings kept in known_findings.json): bool accepts anything, None inside containers of configurations, enumeration member of a Union", r8_known_gaps),
]
