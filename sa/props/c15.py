"""C15 -- parameters hold values of their declared type; submit fails fast."""

from __future__ import annotations

import ast
import itertools

from ..astq import attr_stores, body_walk, dotted, src, walk_local, norm_stmt, fn_calls
from ..cfg import CFG
from ..dataflow import ReachingDefs, walk_table
from ..loader import Undecided
from ..report import Check
from . import c14

ASSUMPTIONS = [
    "equality of read-back values for arbitrary user types is not decided; BoolType accepts anything (stores bool(value))",
    "checker objects (argument.checker) are user code",
]


from ..astq import tail  # noqa: E402


def r1_validate_total(chk: Check):
    tree = chk.tree
    base = tree.cls("core.types", "Type")
    n = 0
    for c in tree.subclasses(base, strict=True):
        f = c.methods.get("validate")
        if f is None:
            continue
        n += 1
        g = CFG(f.node)
        loc = chk.loc(f.module, f.node)
        bad = []
        for (p, l) in g.exit.pred:
            if p.kind == "stmt" and isinstance(p.ast, ast.Return):
                v = p.ast.value
                if v is None or (isinstance(v, ast.Constant) and v.value is None):
                    gs = [(src(t.ast), pol) for t, pol in g.guards(p) if t.kind == "test"]
                    if ("value is None", True) in gs:
                        continue  # None stays None (optional)
                    bad.append(f"`return None` at line {p.lineno}")
            else:
                bad.append(f"falls off the end after line {p.lineno} ({p.label()[:50]})")
        chk.require(not bad, chk.fkey(f, "total"), f"{c.qual}.validate can complete without returning a value ({'; '.join(bad)}): assignment would silently store None for a value of the wrong type", loc)
    chk.min_instances(n, 10, "validate implementations of Type subclasses")


def r2_set_table(chk: Check):
    tree = chk.tree
    f = tree.func("core.objects", "ConfigInformation.set")
    g = CFG(f.node)
    rd = ReachingDefs(g)
    loc = chk.loc(f.module, f.node)

    def classify(n):
        t = src(n.ast)
        c = rd.canon(n.ast, n)
        table = {
            "k not in self.xpmtype.arguments": ("is_arg", False), "k in self.xpmtype.arguments": ("is_arg", True),
            "self._sealed": ("sealed", True), "bypass": ("bypass", True),
            "argument.generator": ("generated", True), "argument.constant": ("constant", True),
            "v is not None": ("v_none", False), "v is None": ("v_none", True),
            "argument.required": ("required", True),
            "argument is None": ("is_arg", False), "argument is not None": ("is_arg", True),
        }
        if t in table:
            return table[t]
        if t == "argument" or c in ("self.xpmtype.arguments.get(k, None)", "self.xpmtype.arguments.get(k)"):
            return ("is_arg", True)
        return None

    def events(n):
        out = []
        if n.kind == "stmt":
            if isinstance(n.ast, ast.Assign) and src(n.ast.targets[0]) == "self.values[k]":
                out.append("store " + src(n.ast.value))
            elif isinstance(n.ast, ast.Expr) and isinstance(n.ast.value, ast.Call) and dotted(n.ast.value.func) == "setattr":
                out.append("plain attribute")
            elif isinstance(n.ast, ast.Raise) and n.ast.exc is not None:
                out.append("raise")
        return out

    def stop(n):
        if n is g.exit:
            return "exit"
        if n is g.raise_:
            return "raise"
        return None

    atoms = ["is_arg", "sealed", "bypass", "generated", "constant", "v_none", "required"]
    nsc = 0
    nbad = 0
    for bits in itertools.product([False, True], repeat=len(atoms)):
        s = dict(zip(atoms, bits))
        if s["sealed"]:
            continue  # the sealed dimension belongs to C14.R1; here the configuration is open
        nsc += 1
        if not s["is_arg"]:
            want = ("plain attribute", "exit")
        elif s["sealed"] and not s["bypass"]:
            want = ("raise", "raise")
        elif (s["generated"] or s["constant"]) and not s["bypass"]:
            want = ("raise", "raise")
        elif not s["v_none"]:
            want = ("store argument.validate(v)", "exit")
        elif s["required"]:
            want = ("raise", "raise")
        else:
            want = ("store None", "exit")
        outs = walk_table(g, g.entry, classify, s, events, stop)
        for o in outs:
            ev = [e for e in o.events]
            # the except/log/re-raise wrapper: a raise is followed by the bare re-raise
            got = (ev[0] if ev else "nothing", o.end)
            ok = got == want and not [u for u in o.unknown if u[2] is None]
            if not ok:
                nbad += 1
                if nbad > 3:
                    break
                sc = ", ".join(f"{k}={'T' if v else 'F'}" for k, v in s.items())
                chk.violation(chk.fkey(f, f"set() under [{','.join(k for k, v in s.items() if v)}]"),
                              f"ConfigInformation.set under [{sc}] does {ev or ['nothing']} and ends with {o.end}"
                              f"{' depending on ' + str([u[0] for u in o.unknown]) if o.unknown else ''}; expected {want[0]} ({want[1]}). "
                              "The stored value must be the validated (coerced) one, a sealed or read-only parameter must raise, a required one cannot be None", loc)
                break
    chk.ok(chk.fkey(f, "decision table"), loc, f"{nsc} scenarios")
    chk.count("c15_set_scenarios", nsc)
    # who may write values[...]: only ConfigInformation.set (A3)
    nst = 0
    for ff in tree.nontest_funcs():
        for x in body_walk(ff.node):
            if isinstance(x, (ast.Assign, ast.AugAssign)):
                tg = x.targets if isinstance(x, ast.Assign) else [x.target]
                for t in tg:
                    if isinstance(t, ast.Subscript) and isinstance(t.value, ast.Attribute) and t.value.attr == "values" and ff.module.name == "core.objects" and (
                            (dotted(t.value.value) or "").endswith(("__xpm__", "xpm", "xpminfo")) or (dotted(t.value.value) == "self" and ff.cls is not None and ff.cls.qual == "ConfigInformation")):
                        nst += 1
                        chk.require(ff.key == "core.objects:ConfigInformation.set", chk.fkey(ff, "stores into values: " + norm_stmt(x)),
                                    f"`{ff.qual}` stores a parameter value directly into `values`, bypassing validation / coercion: the parameter may hold a value that is not of its declared type "
                                    "(e.g. a default `1` for a float parameter stays an int)", chk.loc(ff.module, x))
    chk.min_instances(nst, 2, "stores into values[...]")
    # Argument.validate returns the type-validated value
    av = tree.func("core.arguments", "Argument.validate")
    ga = CFG(av.node)
    rda = ReachingDefs(ga)
    rets = [n for n in ga.live if n.kind == "stmt" and isinstance(n.ast, ast.Return)]
    ok = len(rets) == 1 and rda.canon(rets[0].ast.value, rets[0]) == "self.type.validate(value)"
    chk.require(ok, chk.fkey(av, "returns the validated value"), "Argument.validate must return the value returned by the type's validate (the coerced one)", chk.loc(av.module, av.node))


def _validate_src(tree, cls):
    f = tree.func("core.types", f"{cls}.validate")
    return f, src(f.node)


def r3_coercions(chk: Check):
    tree = chk.tree
    f, t = _validate_src(tree, "IntType")
    g = CFG(f.node)
    loc = chk.loc(f.module, f.node)
    # float branch: raise iff fractional part != 0, else int(...)
    fl = [n for n in g.live if n.kind == "test" and src(n.ast) == "isinstance(value, float)"]
    ok = len(fl) == 1
    if ok:
        tb = [b for b, l in fl[0].succ if l is True][0]
        reg = g.reachable(tb, avoid=[b for b, l in fl[0].succ if l is False])
        frac = [n for n in g.live if n.id in reg and n.kind == "test" and "== 0" in src(n.ast)]
        rets = [n for n in g.live if n.id in reg and n.kind == "stmt" and isinstance(n.ast, ast.Return)]
        rs = [n for n in g.live if n.id in reg and n.kind == "stmt" and isinstance(n.ast, ast.Raise)]
        ok = len(frac) == 1 and len(rets) == 1 and src(rets[0].ast.value).startswith("int(") and len(rs) == 1 and any(g.dominates(b, rs[0]) for b, l in frac[0].succ if l is False) and "math.modf(value)" in t
    chk.require(ok, chk.fkey(f, "integral float -> int"), "IntType: a float with a non-zero fractional part must raise, an integral float must become int(...)", loc)
    ni = [n for n in g.live if n.kind == "test" and src(n.ast) == "isinstance(value, int)"]
    ok = len(ni) == 1 and any(m.kind == "stmt" and isinstance(m.ast, ast.Raise) for b, l in ni[0].succ if l is False for m, _ in b.succ)
    chk.require(ok, chk.fkey(f, "non-int raises"), "IntType: a value that is neither int nor integral float must raise", loc)
    f, t = _validate_src(tree, "FloatType")
    ok = "if not isinstance(value, (float, int)):" in t and "raise" in t and "return float(value)" in t
    chk.require(ok, chk.fkey(f, "int -> float"), "FloatType: int or float -> float(value); anything else raises", chk.loc(f.module, f.node))
    f, t = _validate_src(tree, "PathType")
    ok = "if not isinstance(value, (str, Path)):" in t and "return Path(value)" in t
    chk.require(ok, chk.fkey(f, "str -> Path"), "PathType: str or Path -> Path(value); anything else raises", chk.loc(f.module, f.node))
    f, t = _validate_src(tree, "StrType")
    ok = "if not isinstance(value, str):" in t and "raise" in t
    chk.require(ok, chk.fkey(f, "str only"), "StrType: non-str raises", chk.loc(f.module, f.node))
    f, t = _validate_src(tree, "ArrayType")
    rets = [x for x in body_walk(f.node) if isinstance(x, ast.Return)]
    ok = "if not isinstance(value, List):" in t and len(rets) == 1 and isinstance(rets[0].value, ast.ListComp) and src(rets[0].value.elt) == f"self.type.validate({src(rets[0].value.generators[0].target)})" \
        and src(rets[0].value.generators[0].iter) == "value" and not rets[0].value.generators[0].ifs
    chk.require(ok, chk.fkey(f, "every element validated"), "ArrayType: non-list raises; the stored list is rebuilt from every validated element", chk.loc(f.module, f.node))
    f, t = _validate_src(tree, "DictType")
    rets = [x for x in body_walk(f.node) if isinstance(x, ast.Return)]
    ok = "if not isinstance(value, dict):" in t and len(rets) == 1 and isinstance(rets[0].value, ast.DictComp)
    if ok:
        dc = rets[0].value
        k, v = [src(e) for e in dc.generators[0].target.elts]
        ok = src(dc.key) == f"self.keytype.validate({k})" and src(dc.value) == f"self.valuetype.validate({v})" and src(dc.generators[0].iter) == "value.items()" and not dc.generators[0].ifs
    chk.require(ok, chk.fkey(f, "every key and value validated"), "DictType: non-dict raises; the stored dict is rebuilt from every validated key and value", chk.loc(f.module, f.node))
    f, t = _validate_src(tree, "UnionType")
    g = CFG(f.node)
    loops = [n for n in g.live if n.kind == "for" and src(n.ast.iter) == "self.types"]
    ok = len(loops) == 1
    if ok:
        done = [b for b in g.live if b.kind == "branch" and b.extra["test"] is loops[0] and b.extra["polarity"] == "done"][0]
        nxt = [m for m, _ in done.succ]
        ok = all(m.kind == "stmt" and isinstance(m.ast, ast.Raise) for m in nxt) and any("return subtype.validate(value)" in src(s) for s in ast.walk(loops[0].ast) if isinstance(s, ast.Return))
    chk.require(ok, chk.fkey(f, "first accepting member or raise"), "UnionType: returns the first member type's validated value; when no member accepts, it must raise unconditionally", chk.loc(f.module, f.node))
    f, t = _validate_src(tree, "EnumType")
    ok = "isinstance(value, self.type)" in t and "return value" in t
    chk.require(ok, chk.fkey(f, "enum member"), "EnumType: only members of the declared enum", chk.loc(f.module, f.node))
    f = tree.func("core.types", "ObjectType.validate")
    t = src(f.node)
    ok = "if not isinstance(value, Config):" in t and ("if not isinstance(value, types):" in t or "if not isinstance(value, self.basetype):" in t) and t.count("raise ValueError") >= 2
    chk.require(ok, chk.fkey(f, "configuration subtype"), "ObjectType: only configurations of the declared class (or a subclass)", chk.loc(f.module, f.node))
    # defaults are validated when declared and coerced when used: addArgument validates; __init__ goes through set (R2)
    aa = tree.func("core.types", "ObjectType.addArgument")
    chk.require("argument.type.validate(argument.default)" in src(aa.node), chk.fkey(aa, "default validated"), "a declared default must be validated", chk.loc(aa.module, aa.node))


def r4_required_reaches_graph(chk: Check):
    tree = chk.tree
    f = tree.func("core.objects", "ConfigInformation.validate")
    loc = chk.loc(f.module, f.node)
    helper = None
    for k, ff in tree.funcs.items():
        if ff.parent is f:
            helper = ff
    g = CFG(f.node)
    if helper is None:
        inline = [c for c in fn_calls(f.node) if src(c.func).endswith(".__xpm__.validate")]
        recl = any(isinstance(x, ast.For) and src(x.iter) in ("value", "value.values()") for x in ast.walk(f.node))
        if inline and not recl:
            chk.violation(chk.fkey(f, "list elements / dict values"), "ConfigInformation.validate only follows direct Config values: configurations inside list or dict parameters are not validated, "
                          "so a required value missing there is accepted at submission", loc)
            return
        raise Undecided("ConfigInformation.validate: no nested value walker found")
    hp = helper.node.args.args[0].arg
    rows = {}
    chain = [s for s in helper.node.body if isinstance(s, ast.If)]
    if len(chain) != 1:
        raise Undecided("validate_value: expected one isinstance chain")
    node = chain[0]
    while True:
        t = node.test
        kinds = []
        if isinstance(t, ast.Call) and dotted(t.func) == "isinstance" and dotted(t.args[0]) == hp:
            k = t.args[1]
            kinds = [dotted(e) for e in (k.elts if isinstance(k, ast.Tuple) else [k])]
        loops = [x for x in node.body if isinstance(x, ast.For)]
        rec = [c for b in node.body for c in walk_local(b) if isinstance(c, ast.Call) and dotted(c.func) == helper.node.name]
        meth = [c for b in node.body for c in walk_local(b) if isinstance(c, ast.Call) and src(c.func).endswith(".__xpm__.validate")]
        for kd in kinds:
            rows[kd] = {"iter": [src(l.iter) for l in loops], "target": [src(l.target) for l in loops], "rec": [src(c.args[0]) for c in rec], "method": bool(meth)}
        if len(node.orelse) == 1 and isinstance(node.orelse[0], ast.If):
            node = node.orelse[0]
        else:
            break
    chk.require(rows.get("Config", {}).get("method"), chk.fkey(helper, "Config"), "nested configurations are not validated", loc)
    r = rows.get("list", {})
    chk.require(bool(r) and r["iter"] == [hp] and r["rec"] == r["target"], chk.fkey(helper, "list elements"), f"configurations inside a list parameter are not validated ({r}): a required value missing there is accepted at submission", loc)
    r = rows.get("dict", {})
    chk.require(bool(r) and r["iter"] == [f"{hp}.values()"] and r["rec"] == r["target"], chk.fkey(helper, "dict values"),
                f"configurations stored as dict values are not validated ({r}; iterating a dict yields its keys): a required value missing there is accepted at submission", loc)
    # called for every argument value; required + missing raises unless generated
    loops = [n for n in g.live if n.kind == "for" and src(n.ast.iter) == "self.xpmtype.arguments.items()"]
    chk.require(len(loops) == 1, chk.fkey(f, "argument loop"), "validate must examine every declared argument", loc)
    if len(loops) == 1:
        calls = [c for s in loops[0].ast.body for c in walk_local(s) if isinstance(c, ast.Call) and dotted(c.func) == helper.node.name]
        chk.require(len(calls) == 1, chk.fkey(f, "walks each value"), "every argument value must be walked for nested configurations", loc)
        rs = [n for n in g.live if n.kind == "stmt" and isinstance(n.ast, ast.Raise) and g.dominates(loops[0], n)]
        ok = False
        for r_ in rs:
            gs = sorted((src(t.ast), pol) for t, pol in g.guards(r_) if t.kind == "test" and src(t.ast) != "self._validated")
            if gs == sorted([("value is None", True), ("argument.required", True), ("argument.generator", False)]):
                ok = True
        chk.require(ok, chk.fkey(f, "missing required raises"), "a required argument without value (and without generator) must raise", loc)
        chk.require(not any(isinstance(x, (ast.Continue, ast.Break)) for x in ast.walk(loops[0].ast)), chk.fkey(f, "no skipped argument"), "validate skips some arguments", loc)
    for attr in ("self.pre_tasks", "self.init_tasks"):
        lp = [n for n in g.live if n.kind == "for" and src(n.ast.iter) == attr]
        ok = len(lp) == 1 and any(isinstance(c, ast.Call) and src(c.func).endswith(".__xpm__.validate") for s in lp[0].ast.body for c in walk_local(s))
        chk.require(ok, chk.fkey(f, f"validates {attr}"), f"`{attr}` are not validated", loc)


def r5_submit_validates_first(chk: Check):
    c14.r3_submit_order(chk)


RULES = [
    ("R1", "every Type.validate is total: no non-raising path returns None / falls off the end (except None stays None)", r1_validate_total),
    ("R2", "ConfigInformation.set decision table over all 64 assignments of its atoms on an unsealed configuration: stores the *validated* value, raises when sealed / read-only / required-None; nobody else stores into values; Argument.validate returns the coerced value", r2_set_table),
    ("R3", "documented coercions and container validation: integral float -> int, int -> float, str -> Path; every element / key / value validated and the container rebuilt; Union raises when no member accepts", r3_coercions),
    ("R4", "the required-value check reaches the whole graph: direct values, list elements, dict *values*, pre-tasks, init tasks; missing required (not generated) raises", r4_required_reaches_graph),
    ("R5", "submit validates and seals before anything is registered (= C14.R3)", r5_submit_validates_first),
]
