"""C16 -- the experiment's job index lists exactly the jobs of the last completed plan."""

from __future__ import annotations

import ast

from ..astq import attr_stores, body_walk, dotted, src, walk_local, norm_stmt, fn_calls
from ..cfg import CFG
from ..dataflow import ReachingDefs, walk_table
from ..loader import Undecided
from ..report import Check

ASSUMPTIONS = [
    "kill of the experiment process follows from R4 only (nothing else deletes the backup); fasteners with max_delay=0 blocks instead of failing (observation)",
    "histories of runs are not enumerated",
]


from ..astq import tail  # noqa: E402


def _anc(node):
    p = getattr(node, "_parent", None)
    while p is not None:
        yield p
        p = getattr(p, "_parent", None)


def run_modes(tree):
    c = tree.cls("scheduler.workspace", "RunMode")
    return [s.targets[0].id for s in c.node.body if isinstance(s, ast.Assign) and isinstance(s.targets[0], ast.Name)]


def _moves_index(fn_node) -> bool:
    t = src(fn_node)
    return "jobspath.glob(" in t and (".rename(" in t or ".unlink(" in t)


def _mode_classifier(modes, mode):
    def classify(n):
        e = n.ast
        if isinstance(e, ast.Compare) and len(e.ops) == 1:
            l, r = src(e.left), dotted(e.comparators[0]) or ""
            if l in ("self.workspace.run_mode", "self.run_mode") and r.startswith("RunMode.") and r.split(".")[1] in modes:
                eq = (r.split(".")[1] == mode)
                if isinstance(e.ops[0], (ast.Eq, ast.Is)):
                    return ("#const", True) if eq else ("#const", False)
                if isinstance(e.ops[0], (ast.NotEq, ast.IsNot)):
                    return ("#const", False) if eq else ("#const", True)
        return None

    return classify


def r1_lock_before_index(chk: Check):
    tree = chk.tree
    modes = run_modes(tree)
    f = tree.func("scheduler.base", "experiment.__enter__")
    g = CFG(f.node)
    loc = chk.loc(f.module, f.node)
    xp = tree.cls("scheduler.base", "experiment")
    helpers = {name for name, m in xp.methods.items() if name != "__enter__" and _moves_index(m.node)}

    def events(n):
        out = []
        for c in n.calls():
            s = src(c)
            if "connector.lock(self.xplockpath" in s and s.endswith(".__enter__()"):
                out.append("lock")
            if dotted(c.func) and dotted(c.func).startswith("self.") and dotted(c.func).split(".")[1] in helpers:
                out.append("move")
        if n.kind == "for" and "jobspath.glob(" in src(n.ast.iter):
            out.append("move")
        return out

    total = 0
    for mode in modes:
        cl = _mode_classifier(modes, mode)
        outs = walk_table(g, g.entry, cl, {"#const": True}, events, lambda n: "exit" if n is g.exit else ("raise" if n is g.raise_ else None))
        for o in outs:
            total += 1
            ev = list(o.events)
            if "move" in ev:
                ok = "lock" in ev and ev.index("lock") < ev.index("move")
                chk.require(ok, chk.fkey(f, f"lock before index move [{mode}]"),
                            f"in run mode {mode} the job index is moved to the backup {'before' if 'lock' in ev else 'without'} taking the experiment lock: a second process entering the same "
                            "experiment would rotate the index of the process that holds it (its jobs become orphans)", loc)
        if mode == "NORMAL":
            chk.require(any("move" in o.events for o in outs), chk.fkey(f, "index rotated in NORMAL mode"), "in NORMAL mode the previous index must be moved to the backup", loc)
        else:
            chk.require(not any("move" in o.events for o in outs), chk.fkey(f, f"index untouched in {mode}"), f"the index is rotated in run mode {mode}", loc)
    chk.count("enter_paths", total)
    # lock without waiting
    lk = [c for c in fn_calls(f.node) if "connector.lock(self.xplockpath" in src(c) and tail(c) == "lock"]
    ok = len(lk) == 1 and len(lk[0].args) == 2 and isinstance(lk[0].args[1], ast.Constant) and lk[0].args[1].value == 0
    chk.require(ok, chk.fkey(f, "lock without waiting"), "the experiment lock must be requested without waiting (max_delay 0)", loc)
    # released only in the finally of __exit__
    ex = tree.func("scheduler.base", "experiment.__exit__")
    rel = [c for c in fn_calls(ex.node) if src(c.func) == "self.xplock.__exit__"]
    ok = len(rel) == 1 and any(isinstance(a, ast.Try) and any(rel[0] in list(ast.walk(s)) for s in a.finalbody) for a in _anc(rel[0]))
    chk.require(ok, chk.fkey(ex, "lock released in finally"), "the experiment lock must be released in the `finally` of __exit__", chk.loc(ex.module, ex.node))
    others = []
    for ff in tree.nontest_funcs():
        for c in fn_calls(ff.node):
            if "xplock" in src(c.func) and tail(c) in ("__exit__", "release") and ff.key != ex.key:
                others.append(ff.qual)
    chk.require(not others, chk.fkey(ex, "only __exit__ releases"), f"{others} release the experiment lock", chk.loc(ex.module, ex.node))
    from .c05 import lock_files_never_removed

    lock_files_never_removed(chk)


def r2_move_complete(chk: Check):
    tree = chk.tree
    xp = tree.cls("scheduler.base", "experiment")
    cands = [m for name, m in xp.methods.items() if _moves_index(m.node)]
    if len(cands) != 1:
        raise Undecided(f"{len(cands)} methods of experiment rotate the index")
    f = cands[0]
    g = CFG(f.node)
    loc = chk.loc(f.module, f.node)
    loops = [n for n in g.live if n.kind == "for" and src(n.ast.iter) == "self.jobspath.glob('*/*')"]
    chk.require(len(loops) == 1, chk.fkey(f, "every entry of the index"), "the rotation must range over every entry of the current index (glob('*/*'))", loc)
    if len(loops) != 1:
        return
    lp = loops[0]
    v = src(lp.ast.target)
    body = g.reachable([m for m, l in lp.succ if l == "loop"][0], avoid=[lp])
    ren = [n for n in g.live if n.id in body and any(src(c.func) == f"{v}.rename" for c in n.calls())]
    unl = [n for n in g.live if n.id in body and any(src(c.func) == f"{v}.unlink" for c in n.calls())]
    sym = [b for b in g.live if b.id in body and b.kind == "branch" and b.extra["test"].kind == "test" and src(b.extra["test"].ast) == f"{v}.is_symlink()" and b.extra["polarity"] is True]
    ok = len(ren) == 1 and len(unl) == 1 and len(sym) == 1 and g.must_pass(sym[0], lp, ren + unl)
    chk.require(ok, chk.fkey(f, "each link renamed or dropped"), "every symlink of the index must be either renamed into the backup or (when the backup already has it) unlinked", loc)
    # which of the two: a link is dropped only when the backup already has an entry of that name, moved otherwise
    rdm = ReachingDefs(g)
    for nodes_, want_pol, what in ((unl, True, "dropped"), (ren, False, "moved")):
        for n_ in nodes_:
            gs_ = [(rdm.canon(t.ast, t), pol) for t, pol in g.guards(n_) if t.kind == "test"]
            tgt = [(c_, pol) for c_, pol in gs_ if "jobsbakpath" in c_ and (c_.endswith(".is_symlink()") or c_.endswith(".exists()"))]
            chk.require(len(tgt) == 1 and tgt[0][1] is want_pol, chk.fkey(f, f"link {what} by the state of the backup"), f"a link of the index is {what} under {gs_}: it must be dropped exactly when the backup "
                        "index already holds that entry and moved there otherwise (a link dropped without being in the backup makes its job an orphan)", loc)
    if ren:
        c = [c for c in ren[0].calls() if tail(c) == "rename"][0]
        ok = "jobsbakpath" in ReachingDefs(g).canon(c.args[0], ren[0]) and "relative_to(self.jobspath)" in ReachingDefs(g).canon(c.args[0], ren[0])
        chk.require(ok, chk.fkey(f, "renamed into the backup at the same relative path"), "links must be moved to jobs.bak/<same relative path>", loc)


def r3_linking(chk: Check):
    tree = chk.tree
    f = tree.func("scheduler.base", "Scheduler.aio_submit")
    g = CFG(f.node)
    rd = ReachingDefs(g)
    loc = chk.loc(f.module, f.node)
    ln = [(n, c) for n, c in g.call_nodes(lambda c: tail(c) == "symlink_to")]
    chk.require(len(ln) == 1, chk.fkey(f, "links the job"), "aio_submit must link the submitted job into the experiment's job index", loc)
    if len(ln) != 1:
        return
    n, c = ln[0]
    ok = rd.canon(c.func.value, n) == "experiment.current().jobspath / job.relpath" and src(c.args[0]) == "job.path"
    chk.require(ok, chk.fkey(f, "link target"), f"the index link is `{rd.canon(c.func.value, n)}` -> `{src(c.args[0])}`; expected <experiment jobs>/<job relpath> -> job.path", loc)
    aw = [x for x in g.live if x.has_await()]
    rets = [x for x in g.live if x.kind == "stmt" and isinstance(x.ast, ast.Return)]
    chk.require(all(g.dominates(n, x) for x in aw + rets), chk.fkey(f, "link before any await / return"), "the job must be linked before the first await and before every return of aio_submit", loc)
    gs = [(src(t.ast), pol) for t, pol in g.guards(n) if t.kind == "test" and "is_symlink" not in src(t.ast)]
    chk.require(not gs, chk.fkey(f, "link unconditional"), f"the index link is created only under {gs}", loc)
    # a job submitted again (after a failure, or by the next run of the experiment) already has its link: it is replaced, not created blindly
    # (symlink_to raises FileExistsError, aio_submit dies before its bookkeeping and the experiment never ends)
    target = rd.canon(c.func.value, n)
    freed = []
    for x in g.live:
        for cc in x.calls():
            if tail(cc) == "unlink" and isinstance(cc.func, ast.Attribute) and rd.canon(cc.func.value, x) == target:
                freed.append(x)
        if x.kind == "branch" and x.extra["test"].kind == "test" and x.extra["polarity"] is False:
            t = x.extra["test"]
            e = t.ast
            if isinstance(e, ast.Call) and isinstance(e.func, ast.Attribute) and e.func.attr in ("is_symlink", "exists") and not e.args and rd.canon(e.func.value, t) == target:
                freed.append(x)
            elif isinstance(e, ast.Call) and dotted(e.func) in ("os.path.lexists", "os.path.islink") and e.args and rd.canon(e.args[0], t) == target:
                freed.append(x)
    chk.require(bool(freed) and g.on_every_path(freed, end=n), chk.fkey(f, "existing link replaced"),
                "the index link is created without removing the link left by an earlier submission of the same job", loc)


RMTREE_SITES = {
    "scheduler.base:experiment.__exit__": "backup index, after a successful NORMAL run",
    "cli.jobs:process": "jobs clean (C19.R4)",
    "cli:orphans": "orphans --clean (C19.R5)",
    "core.context:shallow_copy": "serialisation target (copy of a data path)",
    "utils:cleanupdir": "test / tooling helper",
}


def r4_backup_deletion(chk: Check):
    tree = chk.tree
    n = 0
    for f in tree.nontest_funcs():
        for c in fn_calls(f.node):
            if tail(c) == "rmtree":
                n += 1
                known = f.key in RMTREE_SITES or any(f.key.startswith(k.split(":")[0] + ":") and f.key.endswith(k.split(":")[1].split(".")[-1]) for k in RMTREE_SITES)
                chk.require(known, chk.fkey(f, "rmtree"), f"`{f.qual}` deletes a directory tree; the known deletion sites are {sorted(RMTREE_SITES)}", chk.loc(f.module, c))
            if ("jobsbakpath" in src(c) or "jobs.bak" in src(c)) and tail(c) in ("rmtree", "rmdir", "unlink", "remove") and f.key != "scheduler.base:experiment.__exit__":
                chk.violation(chk.fkey(f, "deletes the backup index"), f"`{f.qual}` deletes (part of) the backup index", chk.loc(f.module, c))
    chk.min_instances(n, 4, "rmtree call sites")
    ex = tree.func("scheduler.base", "experiment.__exit__")
    g = CFG(ex.node)
    sites = [(nn, c) for nn, c in g.call_nodes(lambda c: tail(c) == "rmtree")]
    chk.require(len(sites) == 1 and src(sites[0][1]) == "rmtree(self.jobsbakpath)", chk.fkey(ex, "deletes the backup"), "__exit__ must delete exactly the backup index", chk.loc(ex.module, ex.node))
    for nn, c in sites:
        gs = sorted((src(t.ast), pol) for t, pol in g.guards(nn) if t.kind == "test")
        want = sorted([("self.workspace.run_mode == RunMode.NORMAL", True), ("exc_type is None", True), ("self.jobsbakpath.is_dir()", True)])
        chk.require(gs == want, chk.fkey(ex, "backup dropped only after a successful NORMAL run"),
                    f"the backup index is deleted under {gs}; it must be deleted exactly when the run mode is NORMAL and no exception escaped the block (else the previous index "
                    "must be kept so that its jobs are not reported as orphans)", chk.loc(ex.module, c))


def one_shot_iterators(chk: Check, f):
    """A local bound to a one-shot iterator (Path.glob/rglob, generator expression, chain, map, filter,
    iter, zip) must not be consumed twice on a path"""
    g = CFG(f.node)
    rd = ReachingDefs(g)
    bad = []
    gens = {}
    elts = {}
    for n in g.live:
        for d in rd.gen[n.id]:
            v = None
            if d.kind == "assign" and d.value is not None:
                v = d.value
            elif d.kind == "unpack" and isinstance(d.value, ast.Tuple) and n.kind == "stmt" and isinstance(n.ast, ast.Assign) and isinstance(n.ast.targets[0], ast.Tuple) \
                    and len(n.ast.targets[0].elts) == len(d.value.elts):
                for t, e in zip(n.ast.targets[0].elts, d.value.elts):
                    if isinstance(t, ast.Name) and t.id == d.name:
                        v = e
            if v is not None:
                one = isinstance(v, ast.GeneratorExp) or (isinstance(v, ast.Call) and (tail(v) in ("glob", "rglob", "iglob", "iterdir", "scandir") or dotted(v.func) in ("chain", "itertools.chain", "map", "filter", "iter", "zip")))
                if one:
                    gens[(d.node.id, d.name)] = d
                    elts[(d.node.id, d.name)] = v
    for (nid, name), d in gens.items():
        uses = []
        for n in g.live:
            if n is d.node:
                continue
            for x in n.walk():
                if isinstance(x, ast.Name) and x.id == name and isinstance(x.ctx, ast.Load) and d in rd.defs_at(name, n):
                    uses.append(n)
                    break
        kills = [n for n in g.live if any(d2.name == name for d2 in rd.gen[n.id])]
        for i, a in enumerate(uses):
            if a in kills:
                continue  # `it = chain(it, more)`: the old iterator is consumed by the new one, which takes over the name
            for b in uses:
                if a is not b and b.id in g.reachable(a, avoid=[k for k in kills if k is not b]) and not (a.kind == "for" and b.id in g.reachable([m for m, l in a.succ if l == "loop"][0], avoid=[a]) and b is a):
                    bad.append((name, d, a, b, elts[(nid, name)]))
            if a.kind != "for" and a.id in g.reachable([m for m, _ in a.succ][0] if a.succ else a) and a.succ:
                # consumed inside a loop body
                if any(x.kind == "for" and a.id in g.reachable([m for m, l in x.succ if l == "loop"][0], avoid=[x]) for x in g.live if x.kind == "for" and x is not a):
                    bad.append((name, d, a, a, elts[(nid, name)]))
    return bad


def orphans_resolve_links(chk: Check):
    """A job folder can be reached through a link (repair of deprecated identifiers): `referenced` means that some index entry *resolves* to
    the folder, not that the two relative names are equal; a link among the stored jobs is unlinked, never handed to rmtree"""
    tree = chk.tree
    f = tree.func("cli", "orphans")
    g = CFG(f.node)
    rd = ReachingDefs(g)
    loc = chk.loc(f.module, f.node)
    rms = [(n, c) for n, c in g.call_nodes(lambda c: tail(c) == "rmtree")]
    for n, c in rms:
        gs = [rd.canon(t.ast, t) for t, pol in g.guards(n) if t.kind == "test"]
        ok = any(".resolve()" in t_ and " in " in t_ for t_ in gs)
        chk.require(ok, chk.fkey(f, "referenced through a link"), f"`{src(c)}` is decided by relative names only ({gs[:2]}): the folder behind a repair link that an index references "
                    "is reported as an orphan and deleted", chk.loc(f.module, c))
        gl = [(src(t.ast), pol) for t, pol in g.guards(n) if t.kind == "test" and "is_symlink" in src(t.ast)]
        chk.require(any(pol is False for _, pol in gl), chk.fkey(f, "links are unlinked"), "rmtree can be called on a symbolic link (it raises): links among the stored jobs must be unlinked", chk.loc(f.module, c))
    adds = [c for c in fn_calls(f.node) if tail(c) == "add" and c.args and ".resolve()" in src(c.args[0])]
    chk.require(bool(adds), chk.fkey(f, "collects resolved index entries"), "orphans does not record the folders the index entries resolve to", loc)
    # both sides of the comparison are fully resolved paths: a repair link resolves through another link, and the stored folder may be reached
    # through a relative or symlinked workspace path (readlink / the path as typed are not the folder)
    sets = {src(c.func.value) for c in adds}
    for c in fn_calls(f.node):
        if tail(c) == "add" and c.args and src(c.func.value) in sets:
            for nd in g.nodes_of(c):
                a = rd.canon(c.args[0], nd)
                chk.require(a.endswith(".resolve()") and "readlink" not in a, chk.fkey(f, "index entries fully resolved"),
                            f"`{src(c)[:70]}` records `{a[:60]}`, not the fully resolved folder: a repair link (a link to a link's target) is taken for the folder itself", chk.loc(f.module, c))
    for n, c in rms:
        for t, pol in g.guards(n):
            if t.kind == "test" and isinstance(t.ast, ast.Compare) and isinstance(t.ast.ops[0], (ast.In, ast.NotIn)) and src(t.ast.comparators[0]) in sets:
                l = rd.canon(t.ast.left, t)
                chk.require(l.endswith(".resolve()"), chk.fkey(f, "stored folder fully resolved"),
                            f"the stored folder is compared as `{l[:60]}`: with a relative or symlinked workspace path it never equals the resolved index entries and referenced data is deleted", chk.loc(f.module, t.ast))


def r5_orphans_index(chk: Check):
    orphans_resolve_links(chk)
    tree = chk.tree
    f = tree.func("cli", "orphans")
    loc = chk.loc(f.module, f.node)
    bad = one_shot_iterators(chk, f)
    seen = set()
    for name, d, a, b, v in bad:
        if name in seen:
            continue
        seen.add(name)
        chk.violation(chk.fkey(f, f"one-shot iterator `{name}` consumed twice"),
                      f"`{name} = {src(v)}` is a one-shot iterator that is consumed at line {a.lineno} and again at line {b.lineno}: the second use sees nothing, "
                      "so part of the experiment indexes is not scanned and their jobs are reported (and with --clean deleted) as orphans", chk.loc(f.module, d.node.ast))
    if not bad:
        chk.ok(chk.fkey(f, "iterators consumed once"), loc)
    g = CFG(f.node)
    rd = ReachingDefs(g)
    # xpjobs built from both */jobs and */jobs.bak unless --ignore-old
    loops = [n for n in g.live if n.kind == "for" and src(n.ast.iter) == "paths" or n.kind == "for" and "jobs.bak" in rd.canon(n.ast.iter, n) and "chain" in rd.canon(n.ast.iter, n)]
    # the set of indexed job names, whatever it is called: the one filled with a value that is not a resolved path
    name_sets = [src(c.func.value) for n, c in g.call_nodes(lambda c: tail(c) == "add" and isinstance(c.func, ast.Attribute) and c.args and not src(c.args[0]).endswith(".resolve()"))
                 if isinstance(c.func.value, ast.Name)]
    XPJOBS = name_sets[0] if len(set(name_sets)) == 1 else "xpjobs"
    adds = [n for n, c in g.call_nodes(lambda c: src(c.func) == XPJOBS + ".add")]
    chk.require(len(adds) == 1, chk.fkey(f, "collects indexed jobs"), "orphans must collect the jobs referenced by the experiment indexes", loc)
    def patterns(e, at, ign, depth=6):
        """glob patterns feeding expression `e` evaluated at node `at` when --ignore-old is `ign`"""
        if depth <= 0:
            return {"?"}
        if isinstance(e, ast.IfExp):
            t = src(e.test)
            if t == "ignore_old":
                return patterns(e.body if ign else e.orelse, at, ign, depth)
            if t == "not ignore_old":
                return patterns(e.orelse if ign else e.body, at, ign, depth)
            return patterns(e.body, at, ign, depth) | patterns(e.orelse, at, ign, depth)
        if isinstance(e, ast.Call):
            if tail(e) in ("glob", "rglob") and e.args and isinstance(e.args[0], ast.Constant):
                return {e.args[0].value}
            if dotted(e.func) in ("chain", "itertools.chain", "list", "sorted", "set", "tuple", "iter"):
                out = set()
                for a in e.args:
                    out |= patterns(a.value if isinstance(a, ast.Starred) else a, at, ign, depth - 1)
                return out
            return {"?"}
        if isinstance(e, (ast.List, ast.Tuple)):
            out = set()
            for a in e.elts:
                out |= patterns(a, at, ign, depth - 1)
            return out
        if isinstance(e, ast.BinOp) and isinstance(e.op, ast.Add):
            return patterns(e.left, at, ign, depth - 1) | patterns(e.right, at, ign, depth - 1)
        if isinstance(e, ast.Name):
            out = set()
            for d in rd.defs_at(e.id, at):
                if d.node is None:
                    return {"?"}
                gs = [(src(t.ast), pol) for t, pol in g.guards(d.node) if t.kind == "test"]
                if ("ignore_old", not ign) in gs or ("not ignore_old", ign) in gs:
                    continue
                v = d.value
                if d.kind == "unpack" and isinstance(v, ast.Tuple) and isinstance(d.node.ast, ast.Assign) and isinstance(d.node.ast.targets[0], ast.Tuple):
                    for t, el in zip(d.node.ast.targets[0].elts, v.elts):
                        if isinstance(t, ast.Name) and t.id == e.id:
                            v = el
                if v is None or d.kind not in ("assign", "unpack"):
                    return {"?"}
                out |= patterns(v, d.node, ign, depth - 1)
            return out
        return {"?"}

    feed = [n for n in g.live if n.kind == "for" and adds and g.dominates(n, adds[0]) and "getjobs" not in src(n.ast.iter)]
    feed = [n for n in feed if not any(g.dominates(n, m) and m is not n for m in feed)][:1] or feed[:1]
    outer = [n for n in g.live if n.kind == "for" and adds and adds[0].id in g.reachable([m for m, l in n.succ if l == "loop"][0], avoid=[n])]
    outer.sort(key=lambda n: len(g.dominators()[n.id]))
    if not outer:
        raise Undecided("orphans: loop collecting the indexed jobs not found")
    top = outer[0]
    got = {ign: patterns(top.ast.iter, top, ign) for ign in (True, False)}
    ok = got[False] == {"*/jobs", "*/jobs.bak"} and got[True] == {"*/jobs"}
    chk.require(ok, chk.fkey(f, "index and backup index"),
                f"the indexed jobs come from {sorted(got[False])} (and {sorted(got[True])} with --ignore-old); they must come from every xp/*/jobs and, unless --ignore-old, every xp/*/jobs.bak", loc)
    # deletion: clean and key not in xpjobs
    rm = [(n, c) for n, c in g.call_nodes(lambda c: tail(c) == "rmtree")]
    chk.require(len(rm) == 1, chk.fkey(f, "single deletion site"), "orphans must have exactly one deletion site", loc)
    for n, c in rm:
        guards = [(t, pol) for t, pol in g.guards(n) if t.kind == "test"]
        gs = sorted((src(t.ast), pol) for t, pol in guards)
        member = [(t, pol) for t, pol in guards if isinstance(t.ast, ast.Compare) and isinstance(t.ast.ops[0], ast.In) and src(t.ast.comparators[0]) == XPJOBS]
        lp = [a for a in _anc(c) if isinstance(a, ast.For)]
        # the listing of jobs/ : either the shared helper getjobs(jobspath) -> (relative key, directory), or the same thing written out
        listing = None
        if lp and "getjobs(jobspath)" in src(lp[0].iter) and isinstance(lp[0].target, ast.Tuple) and len(lp[0].target.elts) == 2:
            listing = (src(lp[0].target.elts[0]), src(lp[0].target.elts[1]), [])
        elif lp and src(lp[0].iter) == "jobspath.glob('*/*')" and isinstance(lp[0].target, ast.Name):
            d_ = lp[0].target.id
            listing = (f"str({d_}.relative_to(jobspath))", d_, [(f"{d_}.is_dir()", True)])
        okd = False
        if listing is not None and len(member) == 1 and member[0][1] is False:
            tnode = member[0][0]
            want_key = rd.canon(ast.parse(listing[0], mode="eval").body, tnode)
            okd = rd.canon(tnode.ast.left, tnode) == want_key or src(tnode.ast.left) == listing[0]
        # (`not a link` and `no index entry resolves to it` are the two refinements of orphans_resolve_links)
        rest = sorted((src(t.ast), pol) for t, pol in guards if (t, pol) not in member and not ("is_symlink()" in src(t.ast) and pol is False) and not (".resolve() in " in src(t.ast) and pol is False))
        ok = okd and rest == sorted([("clean", True)] + (listing[2] if listing else []))
        chk.require(ok, chk.fkey(f, "delete iff clean and unreferenced"), f"orphans deletes under {gs}; expected exactly: --clean and the job is referenced by no index", chk.loc(f.module, c))
        chk.require(listing is not None and (src(c.args[0]) == listing[1] or rd.canon(c.args[0], n) == listing[1]), chk.fkey(f, "deletes the orphan itself"), "the deleted path must be the orphan job directory under jobs/", chk.loc(f.module, c))


RULES = [
    ("R1", "per run mode, every path of __enter__ that rotates the index first takes the experiment lock (without waiting); the lock is released only in the finally of __exit__", r1_lock_before_index),
    ("R2", "the rotation ranges over every index entry and each symlink is renamed into the backup (same relative path) or unlinked if already there", r2_move_complete),
    ("R3", "aio_submit links every submitted job into the index, unconditionally, before the first await and every return", r3_linking),
    ("R4", "the backup index is deleted only by __exit__, exactly under NORMAL mode and no exception; rmtree sites of the package are the frozen table", r4_backup_deletion),
    ("R5", "orphans: indexed jobs come from every index and (unless --ignore-old) every backup index, one-shot iterators are consumed once, deletion iff --clean and unreferenced", r5_orphans_index),
]
