"""C17 -- generated paths are private to the job, distinct and reproducible."""

from __future__ import annotations

import ast

from ..astq import attr_stores, body_walk, dotted, src, walk_local, norm_stmt, fn_calls, tail
from ..cfg import CFG
from ..dataflow import ReachingDefs
from ..loader import Undecided
from ..report import Check
from .c01 import NONDET_CALLS, NONDET_PREFIX

ASSUMPTIONS = [
    "two generators of one class declared with the same file name, dict keys containing path separators, and user-supplied callables are outside the decided part "
    "(the statement restricts itself to plain file names)",
]


def _anc(node):
    p = getattr(node, "_parent", None)
    while p is not None:
        yield p
        p = getattr(p, "_parent", None)


def r1_rooted(chk: Check):
    tree = chk.tree
    f = tree.func("generators", "PathGenerator.__call__")
    g = CFG(f.node)
    rd = ReachingDefs(g)
    rets = [n for n in g.live if n.kind == "stmt" and isinstance(n.ast, ast.Return)]
    chk.min_instances(len(rets), 1, "returns of PathGenerator.__call__")
    from ..dataflow import expansions

    for n in rets:
        vals = expansions(rd, n.ast.value, n, depth=6) if n.ast.value is not None else {"None"}
        ok = all(v.startswith("context.currentpath() / ") for v in vals) and vals
        chk.require(ok, chk.fkey(f, "rooted at the current position"), f"a generated path is {sorted(vals)}: it must be <context position> / <relative part> on every branch", chk.loc(f.module, n.ast))
        for v in vals:
            if not v.startswith("context.currentpath() / "):
                continue
            rel = v[len("context.currentpath() / "):]
            chk.require(rel in ("Path(self.path)", "self.path(context, config)", "self.path"), chk.fkey(f, "relative part " + rel), f"relative part `{rel}` is not the declared file name", chk.loc(f.module, n.ast))
    cp = tree.func("core.objects", "ConfigWalkContext.currentpath")
    rets = sorted(src(x.value) for x in body_walk(cp.node) if isinstance(x, ast.Return))
    chk.require(rets == ["self.path", "self.path / self._configpath"], chk.fkey(cp, "position under the job path"), f"currentpath returns {rets}; expected the job path, joined with the position when there is one", chk.loc(cp.module, cp.node))
    jp = tree.func("scheduler.base", "JobContext.path")
    rets = [src(x.value) for x in body_walk(jp.node) if isinstance(x, ast.Return)]
    chk.require(rets == ["self.job.path"], chk.fkey(jp, "job directory"), f"JobContext.path returns {rets}; expected the job directory", chk.loc(jp.module, jp.node))
    sub = tree.func("core.objects", "ConfigInformation.submit")
    gs = CFG(sub.node)
    rds = ReachingDefs(gs)
    ok = any(len(c.args) == 1 and rds.canon(c.args[0], n) == "JobContext(self.job)" for n, c in gs.call_nodes(lambda c: dotted(c.func) == "self.seal"))
    chk.require(ok, chk.fkey(sub, "sealed with the job context"), "a submitted task must be sealed with the context of its own job", chk.loc(sub.module, sub.node))


def r2_positions(chk: Check):
    tree = chk.tree
    f = tree.func("core.objects", "ConfigWalk.__call__")
    loc = chk.loc(f.module, f.node)
    recs = [c for c in fn_calls(f.node) if isinstance(c.func, ast.Name) and c.func.id == "self" and len(c.args) == 1]
    chk.min_instances(len(recs), 6, "recursive descents of the configuration walk")
    g = CFG(f.node)
    rd = ReachingDefs(g)
    kinds = set()
    for c in recs:
        arg = c.args[0]
        w = None
        loop = None
        for anc in _anc(c):
            if isinstance(anc, ast.With) and w is None:
                w = src(anc.items[0].context_expr)
            if isinstance(anc, ast.For) and loop is None:
                loop = anc
            if isinstance(anc, (ast.FunctionDef, ast.AsyncFunctionDef)):
                break
        nodes = g.nodes_of(c)
        canon = rd.canon(arg, nodes[0]) if nodes else src(arg)
        if canon.endswith(".__xpm__.task") or canon.endswith(".task"):
            chk.ok(chk.fkey(f, "descent into the producing task"), chk.loc(f.module, c), "frozen exception: the producing task is already sealed, the sealer stops there")
            continue
        expected, what = None, None
        if isinstance(arg, ast.Name) and loop is not None and isinstance(loop.target, ast.Tuple) and len(loop.target.elts) == 2 and src(loop.target.elts[1]) == arg.id:
            first = src(loop.target.elts[0])
            it = src(loop.iter)
            if it.endswith(".xpmvalues()"):
                expected, what = f"self.map({first}.name)", "argument name"
            elif it.startswith("enumerate("):
                expected, what = f"self.list({first})", "list index"
            elif it.endswith(".items()"):
                expected, what = f"self.map({first})", "dict key"
        elif canon.endswith(".pre_tasks"):
            expected, what = "self.map('__pre_tasks__')", "reserved key __pre_tasks__"
        elif canon.endswith(".init_tasks"):
            expected, what = "self.map('__init_tasks__')", "reserved key __init_tasks__"
        if expected is None:
            chk.violation(chk.fkey(f, f"descent into {canon[:40]}"), f"unknown descent `{src(c)}` in the configuration walk (position discipline not established)", chk.loc(f.module, c))
            continue
        kinds.add(what)
        chk.require(w == expected, chk.fkey(f, f"descent under its {what}"),
                    f"the walk descends into `{src(arg)}` under `{w}`; it must push `{expected}` so that two different sub-configurations never share a position (and hence a generated path)", chk.loc(f.module, c))
    chk.require({"argument name", "list index", "dict key"} <= kinds, chk.fkey(f, "sibling keys"), f"siblings must be keyed by argument name / enumerate index / dict key (found {sorted(kinds)})", loc)
    ls = tree.func("core.objects", "ConfigWalk.list")
    mp = tree.func("core.objects", "ConfigWalk.map")
    chk.require([src(x.value) for x in body_walk(ls.node) if isinstance(x, ast.Return)] == ["self.context.push(str(i))"], chk.fkey(ls, "list position"), "ConfigWalk.list must push str(index)", chk.loc(ls.module, ls.node))
    chk.require([src(x.value) for x in body_walk(mp.node) if isinstance(x, ast.Return)] == ["self.context.push(k)"], chk.fkey(mp, "map position"), "ConfigWalk.map must push the key itself", chk.loc(mp.module, mp.node))
    pu = tree.func("core.objects", "ConfigWalkContext.push")
    kp = pu.node.args.args[1].arg
    st = [s for s in ast.walk(pu.node) if isinstance(s, ast.Assign) and src(s.targets[0]) == "self._configpath"]
    tries = [s for s in ast.walk(pu.node) if isinstance(s, ast.Try)]
    ok = len(tries) == 1 and tries[0].finalbody and any(isinstance(s, ast.Assign) and src(s.targets[0]) == "self._configpath" for s in tries[0].finalbody)
    chk.require(ok, chk.fkey(pu, "position restored in finally"), "push must restore the previous position in a `finally` (an exception in a sub-tree must not shift the positions of its siblings)", chk.loc(pu.module, pu.node))
    inner = [s for s in st if not (tries and any(s in list(ast.walk(x)) for x in tries[0].finalbody))]
    gp = CFG(pu.node)
    rdp = ReachingDefs(gp)
    forms = set()
    ok = bool(inner)
    for st_ in inner:
        for nn in gp.live:
            if nn.kind == "stmt" and nn.ast is st_:
                gs = tuple(sorted((src(t.ast), pol) for t, pol in gp.guards(nn) if t.kind == "test" and src(t.ast) == "p is None"))
                forms.add((gs, src(st_.value)))
                ds = rdp.defs_at(kp, nn)
                ok = ok and len(ds) == 1 and next(iter(ds)).kind == "param"
    ok = ok and forms in ({((), f"(Path('out') if p is None else p) / {kp}")},
                          {((("p is None", True),), f"Path('out') / {kp}"), ((("p is None", False),), f"p / {kp}")})
    chk.require(ok, chk.fkey(pu, "position = parent / key"),
                f"push sets the position to `{src(inner[0].value) if inner else '?'}`; it must be <parent position> / <key> with the key unchanged (a key reduced or normalised "
                "maps two sibling keys to one folder: two generated paths collide)", chk.loc(pu.module, pu.node))
    if tries:
        rest = [s for s in tries[0].finalbody if isinstance(s, ast.Assign) and src(s.targets[0]) == "self._configpath"]
        chk.require(bool(rest) and src(rest[0].value) == "p" and any(isinstance(s, ast.Assign) and src(s.targets[0]) == "p" and src(s.value) == "self._configpath" for s in pu.node.body),
                    chk.fkey(pu, "restores the saved position"), "push must restore exactly the position saved at entry", chk.loc(pu.module, pu.node))


def r3_generated_once(chk: Check):
    # the sub-configurations of a declared default are not shared between instances (they would keep the paths of the first task) (= C01.R6)
    from .c01 import r6_defaults_not_aliased

    r6_defaults_not_aliased(chk)
    _r3_generated_once(chk)


def _r3_generated_once(chk: Check):
    tree = chk.tree
    n = 0
    sp0 = tree.func("core.objects", "ConfigInformation.seal.Sealer.postprocess")
    for f in tree.nontest_funcs():
        for c in fn_calls(f.node):
            if src(c.func) == "argument.generator" or (isinstance(c.func, ast.Attribute) and c.func.attr == "generator" and isinstance(c.func.value, ast.Name)):
                n += 1
                ok = f.node is sp0.node
                chk.require(ok, chk.fkey(f, "calls a generator"), f"`{f.qual}` calls a value generator; only the sealing walk may (once per configuration)", chk.loc(f.module, c))
    chk.min_instances(n, 2, "generator call sites")
    sp = tree.func("core.objects", "ConfigInformation.seal.Sealer.postprocess")
    g = CFG(sp.node)
    calls = g.call_nodes(lambda c: src(c.func) == "argument.generator")
    for nn, c in calls:
        if len(c.args) == 2:
            chk.require([src(a) for a in c.args] == ["self.context", "config"], chk.fkey(sp, "generator gets the walk context"), f"the generator is called with {[src(a) for a in c.args]}; it must receive the walk context (current position) and the configuration", chk.loc(sp.module, c))
    from ..dataflow import expansions

    rdsp = ReachingDefs(g)
    sets = []
    for nn, c in g.call_nodes(lambda c: isinstance(c.func, ast.Attribute) and c.func.attr == "set" and src(c.func.value) == "config.__xpm__" and len(c.args) == 2 and src(c.args[0]) == "k"):
        vals = expansions(rdsp, c.args[1], nn, depth=4)
        if vals and all(".generator(" in v for v in vals) and any(k_.arg == "bypass" and src(k_.value) == "True" for k_ in c.keywords):
            sets.append(nn)
    chk.require(len(sets) == 1, chk.fkey(sp, "stores the generated value"), "the generated value must be stored in the configuration", chk.loc(sp.module, sp.node))
    pre = tree.func("core.objects", "ConfigInformation.seal.Sealer.preprocess")
    rets = [src(x.value) for x in body_walk(pre.node) if isinstance(x, ast.Return)]
    chk.require(rets == ["(not config.__xpm__._sealed, config)"], chk.fkey(pre, "sealed nodes are not regenerated"), f"Sealer.preprocess returns {rets}: a sealed configuration must not be visited again (its paths were generated at its own submission)", chk.loc(pre.module, pre.node))
    # memoised walk: one visit per configuration object (shared sub-configuration -> one position)
    f = tree.func("core.objects", "ConfigWalk.__call__")
    gg = CFG(f.node)
    rdd = ReachingDefs(gg)
    memo = [n for n in gg.live if n.kind == "test" and rdd.canon(n.ast, n) == "id(x) in self.visited"]
    chk.require(len(memo) == 1, chk.fkey(f, "one visit per configuration"), "the walk must visit each configuration object once", chk.loc(f.module, f.node))


def r4_reproducible(chk: Check):
    tree = chk.tree
    n = 0
    targets = [f for f in tree.nontest_funcs() if f.module.name == "generators" or (f.cls is not None and f.cls.qual in ("ConfigWalkContext", "ConfigWalk")) or ".Sealer." in f.qual
               or f.key in ("scheduler.base:JobContext.path", "scheduler.base:Job.path", "scheduler.base:Job.relpath")]
    for f in targets:
        for x in body_walk(f.node):
            n += 1
            d = None
            if isinstance(x, ast.Call):
                d = dotted(x.func)
            elif isinstance(x, ast.Attribute):
                d = dotted(x)
            if d and (d in NONDET_CALLS - {"id"} or d.startswith(NONDET_PREFIX) or d in ("Path.cwd", "os.getcwd", "Path.home")):
                chk.violation(chk.fkey(f, f"uses {d}"), f"`{f.qual}` uses `{d}` while computing generated paths: paths would not be reproducible / not inside the job directory", chk.loc(f.module, x))
    chk.ok("path generation slice", "", f"{len(targets)} functions free of time / random / environment / cwd / tempfile")
    chk.min_instances(len(targets), 10, "functions of the path-generation slice")
    # walk order is canonical: declared arguments in declaration order, list by index, dict by key
    xv = tree.func("core.objects", "ConfigInformation.xpmvalues")
    loops = [x for x in body_walk(xv.node) if isinstance(x, ast.For)]
    chk.require(len(loops) == 1 and src(loops[0].iter) == "self.xpmtype.arguments.values()", chk.fkey(xv, "declaration order"),
                f"xpmvalues() iterates `{src(loops[0].iter) if loops else '?'}`: a shared sub-configuration gets its path from the first position the walk reaches, so the walk must follow "
                "the declaration order of the arguments, not the order in which the user assigned them", chk.loc(xv.module, xv.node))


def r5_final_job_directory(chk: Check):
    from . import c14

    c14.r3_submit_order(chk)
    # no generated value enters the identifier: it would change, and with it the job directory, while the walk is handing out paths
    from .c02 import r2_table

    r2_table(chk, direction="emitted", only_atom="generated")
    # ... and a defaulted sub-configuration does not enter the identifier when its paths are generated (= C02.R10)
    from .c02 import r10_default_by_signature

    r10_default_by_signature(chk)



def r6_known_gaps(chk: Check):
    """Two ways a generated path leaves the job directory (findings kept in known_findings.json)"""
    tree = chk.tree
    pre = [ff for k, ff in tree.funcs.items() if k.startswith("core.objects:ConfigInformation.seal.") and ff.node.name == "preprocess"]
    for ff in pre:
        skips = any(isinstance(x, ast.Return) and "_sealed" in src(x) for x in body_walk(ff.node))
        chk.require(not skips, chk.fkey(ff, "sealed configurations keep their paths"),
                    "the sealing walk skips configurations that are already sealed: a sub-configuration shared by two tasks keeps the paths generated for the first one, "
                    "so the second task's parameter points into the first task's job directory", chk.loc(ff.module, ff.node))
    mp = tree.func("core.objects", "ConfigWalk.map")
    verb = any(isinstance(c, ast.Call) and tail(c) == "push" and c.args and isinstance(c.args[0], ast.Name) for c in fn_calls(mp.node))
    chk.require(not verb, chk.fkey(mp, "dict keys are path components"), "a dict key is pushed verbatim as a path component: keys such as '/data/x' or '../../y' place generated paths outside the job directory "
                "(or give two objects the same path)", chk.loc(mp.module, mp.node))


RULES = [
    ("R1", "rooted in the job directory: generated path = context position / declared name on every branch; position = job path / relative position; the task is sealed with its own job context", r1_rooted),
    ("R2", "position discipline: every recursive descent pushes its sibling-unique key (argument name, list index, dict key, reserved keys); push = parent / key unchanged, restored in finally", r2_positions),
    ("R3", "generation happens once per configuration: only the sealing walk calls generators, with the walk context; sealed nodes are not revisited; one visit per object", r3_generated_once),
    ("R5", "paths are generated under the *final* job directory: everything that enters the identifier (init tasks) is attached before sealing (= C14.R3); no generated argument is hashed (= C02.R2 restricted to generated arguments)", r5_final_job_directory),
    ("R4", "reproducibility: no time / random / environment / cwd in the path-generation slice; the walk follows declaration order", r4_reproducible),
    ("R6", "generated paths leaving the job directory (findings kept in known_findings.json): sealed shared sub-configurations keep the first task's paths; dict keys used verbatim as path components", r6_known_gaps),
]
