"""C18 -- a launcher request only matches hosts that satisfy it."""

from __future__ import annotations

import ast
import itertools

from ..astq import attr_stores, body_walk, dotted, src, walk_local, norm_stmt, fn_calls, tail
from ..cfg import CFG
from ..dataflow import ReachingDefs, walk_table
from ..loader import Undecided
from ..report import Check

ASSUMPTIONS = [
    "humanfriendly parsing of sizes / durations and the user's find_launcher function are not decided",
    "arpeggio semantics as modelled: a rule function returns a sequence; StrMatch subclasses with suppress=True do not reach the visitor",
]

MUTATORS = {"append", "extend", "sort", "insert", "remove", "pop", "clear", "update", "reverse", "add", "discard", "setdefault"}


def _anc(node):
    p = getattr(node, "_parent", None)
    while p is not None:
        yield p
        p = getattr(p, "_parent", None)


def truth_table(expr, ref, names):
    """Evaluate a boolean expression over its atomic comparisons against `ref(**atoms)`.
    names: atom source text -> atom name.  Returns list of disagreeing assignments, or raises"""
    atoms = {}

    def collect(e):
        if isinstance(e, ast.BoolOp):
            for v in e.values:
                collect(v)
        elif isinstance(e, ast.UnaryOp) and isinstance(e.op, ast.Not):
            collect(e.operand)
        else:
            t = src(e)
            if t not in names:
                raise Undecided(f"unmodelled atom `{t}`")
            atoms[t] = names[t]

    collect(expr)

    def ev(e, env):
        if isinstance(e, ast.BoolOp):
            vals = [ev(v, env) for v in e.values]
            return all(vals) if isinstance(e.op, ast.And) else any(vals)
        if isinstance(e, ast.UnaryOp):
            return not ev(e.operand, env)
        nm, pos = names[src(e)]
        return env[nm] if pos else not env[nm]

    allnames = sorted({v[0] for v in names.values()})
    bad = []
    for bits in itertools.product([False, True], repeat=len(allnames)):
        env = dict(zip(allnames, bits))
        if ev(expr, env) != ref(**env):
            bad.append(env)
    return bad


def r1_sufficiency(chk: Check):
    # the ordering of CPU specifications is the hand-written disjunction: a generated (lexicographic) ordering never looks at the cores once the
    # memory differs
    for cname in ("CPUSpecification",):
        cls = next((c for c in chk.tree.classes.values() if c.qual == cname and c.module.name == "launcherfinder.specs"), None)
        if cls is not None and "__lt__" not in cls.methods:
            gen = [d for d in cls.node.decorator_list if isinstance(d, ast.Call) and any(k.arg == "order" and isinstance(k.value, ast.Constant) and k.value.value for k in d.keywords)]
            chk.require(not gen, f"launcherfinder.specs:{cname}:ordering generated from the fields", f"`{cname}` is ordered by a generated, lexicographic comparison ({src(gen[0]) if gen else ''}): "
                        "a host with more memory but fewer cores than requested is not `<` the request and matches it", chk.loc(cls.module, cls.node))
            if gen:
                return
    tree = chk.tree
    # operators used by match
    lt = tree.func("launcherfinder.specs", "CPUSpecification.__lt__")
    rets = [x for x in body_walk(lt.node) if isinstance(x, ast.Return)]
    if len(rets) != 1:
        raise Undecided("CPUSpecification.__lt__: expected one return")
    names = {"self.memory < other.memory": ("mem", True), "self.cores < other.cores": ("cores", True),
             "other.memory > self.memory": ("mem", True), "other.cores > self.cores": ("cores", True),
             "self.memory >= other.memory": ("mem", False), "self.cores >= other.cores": ("cores", False)}
    bad = truth_table(rets[0].value, lambda mem, cores: mem or cores, names)
    chk.require(not bad, chk.fkey(lt, "short of memory OR cores"),
                f"CPUSpecification.__lt__ is `{src(rets[0].value)}`: a host must be considered insufficient when it is short of memory *or* of cores (disagrees for {bad[:2]}): "
                "with a conjunction a 12 GB host matches a 70 GB request", chk.loc(lt.module, lt.node))
    cm = tree.func("launcherfinder.specs", "CudaSpecification.match")
    rets = [x for x in body_walk(cm.node) if isinstance(x, ast.Return)]
    if len(rets) != 1:
        raise Undecided("CudaSpecification.match: expected one return")
    names = {"self.memory >= spec.memory": ("enough", True), "self.min_memory <= spec.memory": ("above_min", True),
             "spec.memory <= self.memory": ("enough", True), "self.memory < spec.memory": ("enough", False)}
    bad = truth_table(rets[0].value, lambda enough, above_min: enough and above_min, names)
    chk.require(not bad, chk.fkey(cm, "GPU memory"), f"CudaSpecification.match is `{src(rets[0].value)}`: a GPU matches only if it has at least the requested memory (and the request reaches its minimum)", chk.loc(cm.module, cm.node))
    # match decision table
    f = tree.func("launcherfinder.specs", "HostSimpleRequirement.match")
    g = CFG(f.node)
    rd = ReachingDefs(g)

    def classify(n):
        if n.kind == "for":
            return ("loop", True)
        t = src(n.ast)
        table = {
            "self.cuda_gpus": ("gpus", True),
            "len(host.cuda) < len(self.cuda_gpus)": ("short_count", True),
            "host_gpu.match(req_gpu)": ("gpu_mismatch", False),
            "len(self.cuda_gpus) < host.min_gpu": ("few_gpus", True),
            "host.cpu < self.cpu": ("cpu_short", True),
            "0 < host.max_duration": ("limit", True),
            "host.max_duration < self.duration": ("too_long", True),
        }
        return table.get(t)

    def stop(n):
        if n.kind == "stmt" and isinstance(n.ast, ast.Return):
            v = n.ast.value
            if isinstance(v, ast.Name):
                # a result variable: what it holds on this path (single reaching definition)
                d = rd.unique(v.id, n)
                if d is not None and d.value is not None:
                    v = d.value
            return "no match" if v is None or (isinstance(v, ast.Constant) and v.value is None) else "match"
        if n is g.exit:
            return "no match"
        return None

    atoms = ["gpus", "short_count", "gpu_mismatch", "few_gpus", "cpu_short", "limit", "too_long"]
    nsc = 0
    for bits in itertools.product([False, True], repeat=len(atoms)):
        s = dict(zip(atoms, bits))
        if not s["gpus"] and (s["short_count"] or s["gpu_mismatch"]):
            continue
        nsc += 1
        s2 = dict(s)
        s2["loop"] = True
        outs = walk_table(g, g.entry, classify, s2, lambda n: [], stop)
        ref = not (s["gpus"] and (s["short_count"] or s["gpu_mismatch"])) and not s["few_gpus"] and not s["cpu_short"] and not (s["limit"] and s["too_long"])
        for o in outs:
            got = o.end == "match"
            if got != ref or [u for u in o.unknown if u[2] is None]:
                sc = ", ".join(f"{k}={'T' if v else 'F'}" for k, v in s.items())
                chk.violation(chk.fkey(f, "match decision [" + ",".join(k for k, v in s.items() if v) + "]"),
                              f"HostSimpleRequirement.match under [{sc}] gives `{o.end}`{' depending on ' + str([u[0] for u in o.unknown]) if o.unknown else ''}; a host must be matched exactly when it is "
                              "short of nothing: GPU count, per-GPU memory, minimum GPU count, CPU memory/cores, duration limit", chk.loc(f.module, f.node))
                break
    chk.ok(chk.fkey(f, "match decision table"), chk.loc(f.module, f.node), f"{nsc} scenarios over {len(atoms)} atoms")
    # the GPU pairing compares the requested GPUs with the host's (zip after the count test, both sorted)
    loops = [n for n in g.live if n.kind == "for"]
    ok = len(loops) == 1 and src(loops[0].ast.iter) == "zip(host.cuda, self.cuda_gpus)"
    chk.require(ok, chk.fkey(f, "pairs host and requested GPUs"), "every requested GPU must be paired with a host GPU", chk.loc(f.module, f.node))
    hp = tree.func("launcherfinder.specs", "HostSpecification.__post_init__")
    chk.require("self.cuda = sorted(self.cuda)" in src(hp.node), chk.fkey(hp, "host GPUs sorted"), "host GPUs must be sorted (pairing smallest with smallest)", chk.loc(hp.module, hp.node))


def mutation_summary(tree, m):
    """(in-place mutated sub-objects `self.X`, rebound fields `self.X`) of method m"""
    mutated, rebound = set(), set()
    for t, v, s in attr_stores(m.node):
        d = dotted(t)
        if d and d.startswith("self."):
            parts = d.split(".")
            if len(parts) == 2:
                rebound.add(parts[1])
            else:
                mutated.add(parts[1])
    for c in fn_calls(m.node):
        if isinstance(c.func, ast.Attribute) and c.func.attr in MUTATORS:
            d = dotted(c.func.value)
            if d and d.startswith("self.") and d.count(".") >= 1:
                mutated.add(d.split(".")[1])
    return mutated, rebound


def r2_operands_unaltered(chk: Check):
    tree = chk.tree
    n = 0
    for clsname in ("HostSimpleRequirement", "HostRequirement", "RequirementUnion"):
        k = tree.cls("launcherfinder.specs", clsname)
        for op in ("__and__", "__mul__", "__or__", "__rmul__", "__rand__", "__ror__"):
            m = k.methods.get(op)
            if m is None:
                continue
            n += 1
            loc = chk.loc(m.module, m.node)
            g = CFG(m.node)
            rd = ReachingDefs(g)
            params = [a.arg for a in m.node.args.args]
            problems = []

            def kind_of(name, at):
                """('shared'|'shallow'|'deep', source)"""
                if name in params:
                    ds = rd.defs_at(name, at)
                    if all(d.kind == "param" for d in ds):
                        return "shared"
                kinds = set()
                for d in rd.defs_at(name, at):
                    if d.kind == "param":
                        kinds.add("shared")
                    elif d.kind == "assign" and isinstance(d.value, ast.Call):
                        fn = dotted(d.value.func) or ""
                        if fn.split(".")[-1] == "deepcopy":
                            kinds.add("deep")
                        elif fn.split(".")[-1] == "copy":
                            kinds.add("shallow")
                        elif fn[:1].isupper() or fn.split(".")[-1][:1].isupper():
                            kinds.add("deep")  # constructor: fresh object
                        else:
                            kinds.add("shared")
                    else:
                        kinds.add("shared")
                if "shared" in kinds or not kinds:
                    return "shared"
                return "shallow" if "shallow" in kinds else "deep"

            def freshened(name, field, at):
                """field `name.field` was rebound to a fresh object on every path to `at`"""
                stores = [x for x in g.live if x.kind == "stmt" and isinstance(x.ast, ast.Assign) and src(x.ast.targets[0]) == f"{name}.{field}"]
                fresh = []
                for x in stores:
                    v = x.ast.value
                    ok = isinstance(v, (ast.List, ast.ListComp, ast.Dict)) or (isinstance(v, ast.Call) and ((dotted(v.func) or "").split(".")[-1] in ("deepcopy", "list", "copy", "sorted")
                                                                                                         or (dotted(v.func) or "x").split(".")[-1][:1].isupper()))
                    if isinstance(v, ast.Call) and (dotted(v.func) or "").split(".")[-1] in ("list", "copy", "sorted") and field not in ("cuda_gpus",):
                        ok = ok
                    if ok:
                        fresh.append(x)
                return bool(fresh) and g.must_pass(g.entry, at, fresh)

            for node in g.live:
                # direct stores X.a = ... / X.a.b = ...
                if node.kind == "stmt":
                    for t, v, s in attr_stores(node.ast):
                        d = dotted(t)
                        if not d:
                            continue
                        parts = d.split(".")
                        root = parts[0]
                        kd = kind_of(root, node)
                        if kd == "shared":
                            problems.append((s, f"`{src(s)}` writes into operand `{root}`"))
                        elif kd == "shallow" and len(parts) >= 3 and not freshened(root, parts[1], node):
                            problems.append((s, f"`{src(s)}` writes into `{root}.{parts[1]}`, which a shallow copy shares with the operand"))
                for c in node.calls():
                    if not isinstance(c.func, ast.Attribute):
                        continue
                    d = dotted(c.func.value)
                    if not d:
                        continue
                    parts = d.split(".")
                    root = parts[0]
                    if root not in params and not rd.defs_at(root, node):
                        continue
                    kd = kind_of(root, node)
                    if c.func.attr in MUTATORS and len(parts) >= 2:
                        if kd == "shared":
                            problems.append((c, f"`{src(c)}` mutates `{d}` of operand `{root}` in place"))
                        elif kd == "shallow" and not freshened(root, parts[1], node):
                            problems.append((c, f"`{src(c)}` mutates `{d}`, which a shallow copy shares with the operand"))
                    elif len(parts) == 1:
                        callee = k.methods.get(c.func.attr) or tree.find_method(k, c.func.attr)
                        if callee is not None and c.func.attr not in ("match",):
                            mut, reb = mutation_summary(tree, callee)
                            if kd == "shared" and (mut or reb):
                                problems.append((c, f"`{src(c)}` calls {callee.qual}, which modifies its receiver ({sorted(mut | reb)}), on operand `{root}`"))
                            elif kd == "shallow":
                                shared = sorted(x for x in mut if not freshened(root, x, node))
                                if shared:
                                    problems.append((c, f"`{src(c)}` calls {callee.qual}, which mutates {shared} in place; `{root}` is a shallow copy, so these objects are shared with the operand"))
            if problems:
                for where, msg in problems[:3]:
                    chk.violation(chk.fkey(m, "operand altered: " + msg[:90]), f"{clsname}.{op}: {msg}. Combining or multiplying requests must never alter the operands "
                                  "(a kept request reused in another expression would silently change)", chk.loc(m.module, where))
            else:
                chk.ok(chk.fkey(m, "operands unaltered"), loc)
    chk.min_instances(n, 3, "operator methods of the requirement classes")


def r3_text_equals_program(chk: Check):
    tree = chk.tree
    pm = tree.mod("launcherfinder.parser")
    rules = {}
    for s in pm.tree.body:
        if isinstance(s, ast.FunctionDef) and s.name != "parse":
            rets = [x for x in s.body if isinstance(x, ast.Return)]
            if len(rets) == 1:
                rules[s.name] = rets[0].value
    need = {"mem_spec", "cores_spec", "multiplier", "cuda_specs", "cuda", "cpu_specs", "cpu", "duration", "one_spec", "grammar"}
    if not need <= set(rules):
        raise Undecided(f"grammar rules changed: missing {sorted(need - set(rules))}")
    vis = tree.cls("launcherfinder.parser", "Visitor")
    vmethods = set(vis.methods)
    for s in vis.node.body:
        if isinstance(s, ast.Assign) and isinstance(s.targets[0], ast.Name) and s.targets[0].id.startswith("visit_"):
            vmethods.add(s.targets[0].id)
    for r in sorted(need):
        if r == "multiplier":
            chk.ok("launcherfinder.parser:multiplier", chk.loc(pm, pm.tree), "frozen exception: its only unsuppressed terminal is passed through as text and converted by visit_cuda with int()")
            continue
        chk.require(f"visit_{r}" in vmethods, f"launcherfinder.parser:Visitor.visit_{r}", f"grammar rule `{r}` has no visitor: its parse-tree node would reach the parent visitor unconverted", chk.loc(vis.module, vis.node))
    # keys produced by the *_spec visitors are keyword parameters of the specs constructors
    def keys_of(method):
        f = vis.methods[method]
        out = set()
        for x in body_walk(f.node):
            if isinstance(x, ast.Return) and isinstance(x.value, ast.Dict):
                out |= {k.value for k in x.value.keys if isinstance(k, ast.Constant)}
        return out
    def kwonly(fn):
        f = tree.func("launcherfinder.specs", fn)
        return {a.arg for a in f.node.args.kwonlyargs}
    def alts(rule):
        return {n.id for n in ast.walk(rules[rule]) if isinstance(n, ast.Name) and n.id in rules}
    prod = {"mem_spec": keys_of("visit_mem_spec"), "cores_spec": keys_of("visit_cores_spec")}
    chk.require(prod["mem_spec"] == {"mem"} and prod["cores_spec"] == {"cores"}, "launcherfinder.parser:spec keys", f"spec visitors produce {prod}", chk.loc(vis.module, vis.node))
    for rule, ctor in (("cpu_specs", "cpu"), ("cuda_specs", "cuda_gpu")):
        ks = set()
        for a in alts(rule):
            ks |= prod.get(a, {"?"})
        chk.require(ks <= kwonly(ctor), f"launcherfinder.parser:{rule} -> specs.{ctor}", f"`{rule}` can produce the keys {sorted(ks)} but specs.{ctor} accepts {sorted(kwonly(ctor))}: a textual request would fail or mean something else than the programmatic one", chk.loc(pm, rules[rule]))
    # values: mem passed as text (parsed by parse_size in specs), cores as int
    vm = src(vis.methods["visit_mem_spec"].node)
    vc = src(vis.methods["visit_cores_spec"].node)
    chk.require("'mem': node.value" in vm or "'mem': children" in vm, "launcherfinder.parser:Visitor.visit_mem_spec:value", "mem must be passed through as written", chk.loc(vis.module, vis.methods["visit_mem_spec"].node))
    chk.require("'cores': int(" in vc, "launcherfinder.parser:Visitor.visit_cores_spec:value", "cores must be converted to int", chk.loc(vis.module, vis.methods["visit_cores_spec"].node))
    # combination operators
    from ..dataflow import path_traces

    f1 = vis.methods["visit_one_spec"]
    rets = [x for x in body_walk(f1.node) if isinstance(x, ast.Return)]
    ok = False
    if len(rets) == 1 and isinstance(rets[0].value, ast.Call) and dotted(rets[0].value.func) in ("reduce", "functools.reduce") and len(rets[0].value.args) == 2:
        fn_, seq = rets[0].value.args
        if src(seq) == "children":
            if isinstance(fn_, ast.Lambda) and len(fn_.args.args) == 2 and isinstance(fn_.body, ast.BinOp) and isinstance(fn_.body.op, ast.BitAnd):
                pa, pb = (x.arg for x in fn_.args.args)
                ok = src(fn_.body.left) == pa and src(fn_.body.right) == pb
            elif dotted(fn_) in ("operator.and_", "and_", "operator.__and__"):
                ok = True
            elif isinstance(fn_, (ast.Name, ast.Attribute)):
                # a named two-argument function that returns `a & b`
                nm = fn_.id if isinstance(fn_, ast.Name) else fn_.attr
                for ff in tree.nontest_funcs():
                    if ff.module is vis.module and ff.node.name == nm:
                        ps = [a.arg for a in ff.node.args.args if a.arg not in ("self", "cls")]
                        st_ = [x for x in ff.node.body if not (isinstance(x, ast.Expr) and isinstance(x.value, ast.Constant))]
                        if len(ps) == 2 and len(st_) == 1 and isinstance(st_[0], ast.Return) and isinstance(st_[0].value, ast.BinOp) and isinstance(st_[0].value.op, ast.BitAnd):
                            ok = src(st_[0].value.left) == ps[0] and src(st_[0].value.right) == ps[1]
    chk.require(ok, "launcherfinder.parser:Visitor.visit_one_spec", "terms joined by `&` in the text must be combined with `&` (left to right)", chk.loc(vis.module, f1.node))
    f2 = vis.methods["visit_cuda"]
    ts = path_traces(f2.node, alpha=False, pathsens=True)
    ends = {}
    for t_ in ts:
        c = dict(t_.conds)
        ends.setdefault(c.get("1 < len(children)"), set()).add(t_.end)
    ok = ends == {True: {"return specs.cuda_gpu(**children[0]) * int(children[1])"}, False: {"return specs.cuda_gpu(**children[0])"}}
    chk.require(ok, "launcherfinder.parser:Visitor.visit_cuda", f"`cuda(...) * n` must multiply the programmatic request by int(n); found {ends}", chk.loc(vis.module, f2.node))
    t = src(vis.methods["visit_cpu"].node)
    chk.require("return specs.cpu(**children[0])" in t, "launcherfinder.parser:Visitor.visit_cpu", "cpu(...) must build specs.cpu with the parsed keys", chk.loc(vis.module, vis.methods["visit_cpu"].node))
    t = src(vis.methods["visit_duration"].node)
    chk.require("specs.duration(" in t, "launcherfinder.parser:Visitor.visit_duration", "duration=... must build specs.duration", chk.loc(vis.module, vis.methods["visit_duration"].node))
    # ... and the unit is interpreted in one place only (specs.duration, as for the programmatic request): the visitor hands the matched text
    # over and has no unit table of its own (the grammar accepts `h`, `hours`, `d`, `days`)
    vd = vis.methods["visit_duration"].node
    own_units = [x for x in body_walk(vd) if isinstance(x, (ast.Compare, ast.IfExp, ast.If, ast.Match))
                 or (isinstance(x, ast.BinOp) and isinstance(x.op, (ast.Mult, ast.Pow)))
                 or (isinstance(x, ast.Call) and dotted(x.func) in ("int", "float"))]
    dcalls = [c for c in fn_calls(vd) if src(c.func) == "specs.duration"]
    ok = not own_units and len(dcalls) == 1 and any(isinstance(y, ast.Name) and y.id == "children" for y in ast.walk(dcalls[0]))
    chk.require(ok, "launcherfinder.parser:Visitor.visit_duration:unit interpreted by specs.duration", "the textual duration is converted by the visitor itself "
                f"({[src(x)[:40] for x in own_units][:3]}) instead of handing the matched text to specs.duration: text and programmatic request can disagree on a unit spelling the grammar accepts",
                chk.loc(vis.module, vd))
    g = vis.methods["visit_grammar"]
    rets = [x for x in body_walk(g.node) if isinstance(x, ast.Return)]
    ok = len(rets) == 1 and src(rets[0].value) in ("[child for child in children]", "list(children)", "children")
    chk.require(ok, "launcherfinder.parser:Visitor.visit_grammar", f"alternatives must be returned in source order ({src(rets[0].value) if rets else '?'})", chk.loc(g.module, g.node))
    # separators: & between terms, | between alternatives
    chk.require("sep='&'" in src(rules["one_spec"]) and "sep='|'" in src(rules["grammar"]), "launcherfinder.parser:separators", "`&` must separate terms and `|` alternatives", chk.loc(pm, rules["one_spec"]))
    # literals suppressed
    sc = tree.cls("launcherfinder.parser", "SuppressStrMatch")
    ok = any(isinstance(s, ast.Assign) and src(s) == "suppress = True" for s in sc.node.body)
    pf = tree.func("launcherfinder.parser", "parse")
    ok = ok and "syntax_classes={'StrMatch': SuppressStrMatch}" in src(pf.node)
    chk.require(ok, "launcherfinder.parser:literals suppressed", "string literals of the grammar must be suppressed so that keywords / punctuation never reach the visitor", chk.loc(pf.module, pf.node))


def r4_order(chk: Check):
    union_returns_matched_alternative(chk)
    tree = chk.tree
    f = tree.func("launcherfinder.specs", "RequirementUnion.match")
    g = CFG(f.node)
    loops = [n for n in g.live if n.kind == "for"]
    ok = len(loops) == 1 and src(loops[0].ast.iter) == "self.requirements"
    chk.require(ok, chk.fkey(f, "iterates as given"), "RequirementUnion.match must try the alternatives in the given order", chk.loc(f.module, f.node))
    # a new incumbent (MatchRequirement(...)) is created only under a *strict* comparison of its score with the incumbent's (or -inf when there is none)
    from ..dataflow import expansions

    rd4 = ReachingDefs(g)
    upd = [n for n, c in g.call_nodes(lambda c: dotted(c.func) == "MatchRequirement")]
    ok = len(upd) == 1
    for n in upd:
        strict = False
        for t, pol in g.guards(n):
            if t.kind != "test" or not (isinstance(t.ast, ast.Compare) and len(t.ast.ops) == 1 and isinstance(t.ast.ops[0], ast.Lt)) or pol is not True:
                continue
            right = rd4.canon(t.ast.comparators[0], t)
            lefts = expansions(rd4, t.ast.left, t, depth=4)
            if right.endswith(".score") and lefts and all(x in ("float('-inf')", "-math.inf", "-inf") or x.endswith(".score") for x in lefts):
                strict = True
        ok = ok and strict
    chk.require(ok, chk.fkey(f, "strictly greater"), "the incumbent alternative may only be replaced by a strictly better one (ties keep the earlier alternative)", chk.loc(f.module, f.node))
    ru = tree.func("launcherfinder.specs", "RequirementUnion.__init__")
    chk.require("self.requirements = list(requirements)" in src(ru.node), chk.fkey(ru, "keeps order"), "RequirementUnion must keep its alternatives in the given order", chk.loc(ru.module, ru.node))
    fd = tree.func("launcherfinder.registry", "LauncherRegistry.find")
    gf = CFG(fd.node)
    loc = chk.loc(fd.module, fd.node)
    muts = [(n, c) for n, c in gf.call_nodes(lambda c: isinstance(c.func, ast.Attribute) and dotted(c.func.value) == "specs" and c.func.attr in MUTATORS)]
    inloops = [n for n in gf.live if n.kind == "for" and src(n.ast.iter) == "input_specs"]
    ok = len(inloops) == 1 and len(muts) == 2 and {c.func.attr for _, c in muts} == {"extend", "append"}
    if ok:
        body = gf.reachable([m for m, l in inloops[0].succ if l == "loop"][0], avoid=[inloops[0]])
        ok = all(n.id in body for n, _ in muts)
        v = src(inloops[0].ast.target)
        ok = ok and any(src(c) == f"specs.extend(parse({v}))" for _, c in muts) and any(src(c) == f"specs.append({v})" for _, c in muts)
    comp_form = False
    if not ok and len(inloops) == 1 and len(muts) == 1 and muts[0][1].func.attr == "extend" and len(muts[0][1].args) == 1:
        # one `specs.extend(<parse(spec) or [spec]>)` per argument, the operand chosen on the way
        n, c = muts[0]
        body = gf.reachable([m for m, l in inloops[0].succ if l == "loop"][0], avoid=[inloops[0]])
        v = src(inloops[0].ast.target)
        forms = set(expansions(ReachingDefs(gf), c.args[0], n, depth=4))
        e = f"ELEM({src(inloops[0].ast.iter)})"
        ok = n.id in body and any(forms == {f"parse({x})", y} for x in (v, e) for y in (f"[{x}]", f"({x},)"))
    if not ok:
        # equivalent single expression: [r for spec in input_specs for r in (parse(spec) if isinstance(spec, str) else (spec,))]
        for n in gf.live:
            if n.kind == "stmt" and isinstance(n.ast, ast.Assign) and src(n.ast.targets[0]) == "specs" and isinstance(n.ast.value, ast.ListComp) and len(n.ast.value.generators) == 2:
                g1, g2 = n.ast.value.generators
                v = src(g1.target)
                e = g2.iter
                if src(g1.iter) == "input_specs" and not g1.ifs and not g2.ifs and src(n.ast.value.elt) == src(g2.target) and isinstance(e, ast.IfExp) \
                        and src(e.test) == f"isinstance({v}, str)" and src(e.body) == f"parse({v})" and src(e.orelse) in (f"({v},)", f"[{v}]"):
                    comp_form = ok = True
    chk.require(ok, chk.fkey(fd, "alternatives collected in argument order"),
                "LauncherRegistry.find must collect the alternatives in one pass over its arguments, in order (textual ones expanded in place): collecting the textual and the programmatic "
                "ones separately changes which alternative is tried first", loc)
    others = [n for n in gf.live if n.kind == "stmt" and isinstance(n.ast, ast.Assign) and src(n.ast.targets[0]) == "specs" and not (isinstance(n.ast.value, ast.List) and not n.ast.value.elts)]
    chk.require(len(others) == (1 if comp_form else 0), chk.fkey(fd, "no reordering"), f"`specs` is rebuilt by {[src(n.ast) for n in others]}", loc)
    tries = [n for n in gf.live if n.kind == "for" and src(n.ast.iter) == "specs"]
    ok = len(tries) == 1 and any(isinstance(x, ast.Return) and src(x.value) == "launcher" for s in tries[0].ast.body for x in ast.walk(s))
    chk.require(ok, chk.fkey(fd, "first launcher wins"), "find must return the launcher of the first alternative that has one", loc)


def r5_conjunction_per_dimension(chk: Check):
    """`a & b` asks for the maximum of *each* dimension: CPU specifications are not totally ordered (more memory vs more cores), so taking
    "the larger specification" drops one side's demand.  Examined wherever the merge is written: `_add`, or `__init__` / `__and__` themselves"""
    tree = chk.tree
    DIMS = ("cpu.memory", "cpu.cores", "duration")
    sites = 0
    for f in tree.nontest_funcs():
        if f.module.name != "launcherfinder.specs" or f.cls is None or f.cls.qual != "HostSimpleRequirement":
            continue
        g = CFG(f.node)
        rd = ReachingDefs(g)
        recvs = set()
        for n in g.live:
            if n.kind == "stmt" and isinstance(n.ast, (ast.Assign, ast.AugAssign)):
                for t in (n.ast.targets if isinstance(n.ast, ast.Assign) else [n.ast.target]):
                    ts = src(t)
                    for d in DIMS:
                        if ts.endswith("." + d):
                            recvs.add(ts[: -len(d) - 1])
                    if ts.endswith(".cpu") and not isinstance(getattr(n.ast, "value", None), ast.Call):
                        recvs.add(ts[:-4])
        # constructors / helpers that only initialise the fields with constants are not merges
        for r in sorted(recvs):
            got, whole = {}, False
            for n in g.live:
                if n.kind == "stmt" and isinstance(n.ast, ast.Assign):
                    for t in n.ast.targets:
                        ts = src(t)
                        v = n.ast.value
                        if ts == f"{r}.cpu" and not (isinstance(v, ast.Call) and tail(v) == "CPUSpecification"):
                            whole = True
                        for d in DIMS:
                            if ts == f"{r}.{d}":
                                if isinstance(v, ast.Constant):
                                    continue
                                if isinstance(v, ast.Call) and dotted(v.func) == "max" and len(v.args) == 2:
                                    got.setdefault(d, []).append({src(a) if src(a) == ts else rd.canon(a, n) for a in v.args})
                                elif isinstance(v, ast.Call) and dotted(v.func) in ("int", "parse_size", "parse_timespan"):
                                    continue
                                else:
                                    got.setdefault(d, []).append({"<" + src(v)[:50] + ">"})
            if not got and not whole:
                continue
            sites += 1
            ok = not whole
            for d in DIMS:
                for pair in got.get(d, []):
                    others = [x for x in pair if x != f"{r}.{d}"]
                    ok = ok and f"{r}.{d}" in pair and len(others) == 1 and others[0].endswith("." + d)
            ok = ok and all(d in got for d in DIMS)
            chk.require(ok, chk.fkey(f, "maximum of each dimension"), f"`{f.qual}` merges the operands with {got}{' (whole cpu specification assigned)' if whole else ''}; expected the maximum of memory, of cores and of "
                        "duration separately: a request `cpu(mem=32G) & cpu(cores=4)` must keep both demands", chk.loc(f.module, f.node))
    chk.min_instances(sites, 1, "places where two requirements are merged")


def union_returns_matched_alternative(chk: Check):
    """`a | b | c` nests unions: the requirement reported by a union match is the simple requirement that matched, as for the textual form"""
    tree = chk.tree
    f = tree.func("launcherfinder.specs", "RequirementUnion.match")
    mk = [c for c in fn_calls(f.node) if tail(c) == "MatchRequirement" and len(c.args) == 2]
    chk.min_instances(len(mk), 1, "MatchRequirement built by RequirementUnion.match")
    for c in mk:
        chk.require(src(c.args[1]).endswith(".requirement"), chk.fkey(f, "reports the matched simple requirement"),
                    f"`{src(c)}` reports the member of the union, which is itself a union for three or more alternatives: `match(host).requirement` is then not the alternative that matched", chk.loc(f.module, c))


RULES = [
    ("R1", "per-dimension sufficiency: CPU `<` is short-of-memory OR short-of-cores; GPU match needs enough memory; decision table of HostSimpleRequirement.match over all assignments of its 7 atoms", r1_sufficiency),
    ("R2", "ownership analysis of __and__ / __mul__ / __or__: no in-place mutation reaches an operand (self, other) directly, through a shallow copy, or through a helper's mutation summary", r2_operands_unaltered),
    ("R3", "text = program: every structural grammar rule has a visitor; spec keys are keyword parameters of the specs constructors; & / * / | map to the operators; literals are suppressed", r3_text_equals_program),
    ("R5", "conjunction (`&`, constructor, text) takes the maximum of every dimension separately: memory, cores, duration; GPUs are concatenated", r5_conjunction_per_dimension),
    ("R4", "alternatives are tried in the order given: union keeps order and replaces only on a strictly greater score; find collects in one ordered pass and returns the first launcher", r4_order),
]
