"""C19 -- job filters mean what they say; cleaning deletes only what is selected."""

from __future__ import annotations

import ast
import itertools

from ..astq import attr_stores, body_walk, dotted, src, walk_local, norm_stmt, fn_calls, tail
from ..cfg import CFG
from ..dataflow import ReachingDefs, walk_table
from ..loader import Undecided
from ..report import Check
from ..sched import JobStates
from . import c16

ASSUMPTIONS = [
    "pyparsing semantics as modelled (object identity of sub-expressions: a parse action set on an expression or an alias of it applies wherever "
    "that object is referenced; Suppress yields no token; + concatenates; | alternates; ZeroOrMore / Optional repeat)",
    "JobInformation.state against real directories is not decided",
]


def _anc(node):
    p = getattr(node, "_parent", None)
    while p is not None:
        yield p
        p = getattr(p, "_parent", None)


# ---------------------------------------------------------------- pyparsing token typing (A10)


class Elem:
    def __init__(self, kind, parts=(), text=""):
        self.kind = kind  # tok | suppress | seq | alt | star | opt
        self.parts = list(parts)
        self.action = None  # class name / callable name
        self.text = text


def grammar_env(tree):
    m = tree.mod("cli.filter")
    env = {}
    classes = {c.qual for c in tree.classes.values() if c.module is m}

    def ev(e):
        if isinstance(e, ast.Name):
            if e.id in env:
                return env[e.id]
            raise Undecided(f"filter grammar: unknown name {e.id}")
        if isinstance(e, ast.Constant) and isinstance(e.value, str):
            return Elem("tok", text=e.value)
        if isinstance(e, ast.BinOp) and isinstance(e.op, ast.Add):
            return Elem("seq", [ev(e.left), ev(e.right)])
        if isinstance(e, ast.BinOp) and isinstance(e.op, ast.BitOr):
            return Elem("alt", [ev(e.left), ev(e.right)])
        if isinstance(e, ast.Call):
            fn = dotted(e.func) or ""
            if isinstance(e.func, ast.Attribute) and e.func.attr in ("setParseAction", "set_parse_action", "addParseAction", "add_parse_action"):
                obj = ev(e.func.value)
                obj.action = dotted(e.args[0]) or src(e.args[0])
                return obj
            if fn in ("pp.Literal", "l", "pp.Word", "pp.QuotedString", "pp.Regex", "pp.Keyword", "pp.CaselessLiteral"):
                return Elem("tok", text=src(e))
            if fn == "pp.Suppress":
                return Elem("suppress", [ev(e.args[0])] if e.args and not isinstance(e.args[0], ast.Constant) else [])
            if fn == "pp.ZeroOrMore" or fn == "pp.OneOrMore":
                return Elem("star", [ev(e.args[0])])
            if fn == "pp.Optional":
                return Elem("opt", [ev(e.args[0])])
            if fn == "pp.Group":
                g = Elem("seq", [ev(e.args[0])])
                g.action = "<group>"
                return g
        raise Undecided(f"filter grammar: unmodelled expression `{src(e)}`")

    for s in m.tree.body:
        if isinstance(s, ast.Assign):
            v = s.value
            t = s.targets[0]
            if isinstance(t, ast.Name) and t.id == "l" and dotted(v) == "pp.Literal":
                continue
            if isinstance(t, ast.Tuple) and isinstance(v, ast.Call) and dotted(v.func) == "map" and dotted(v.args[0]) == "pp.Suppress":
                for nm in t.elts:
                    env[nm.id] = Elem("suppress")
                continue
            if isinstance(t, ast.Name):
                try:
                    env[t.id] = ev(v)
                except Undecided:
                    if t.id in ("l",):
                        continue
                    raise
        elif isinstance(s, ast.Expr) and isinstance(s.value, ast.Call):
            try:
                ev(s.value)
            except Undecided:
                raise
    return env, classes


def token_types(e: Elem, depth=0):
    """Possible token-type tuples produced by an element (bounded repetition 0..2)"""
    if depth > 12:
        return {("?",)}
    if e.action is not None:
        return {(e.action,)}
    if e.kind == "tok":
        return {("str",)}
    if e.kind == "suppress":
        return {()}
    if e.kind == "seq":
        out = {()}
        for p in e.parts:
            out = {a + b for a in out for b in token_types(p, depth + 1)}
        return out
    if e.kind == "alt":
        out = set()
        for p in e.parts:
            out |= token_types(p, depth + 1)
        return out
    if e.kind == "opt":
        return {()} | token_types(e.parts[0], depth + 1)
    if e.kind == "star":
        one = token_types(e.parts[0], depth + 1)
        out = {()} | one | {a + b for a in one for b in one}
        return out
    return {("?",)}


def received_tokens(env, action):
    """Token tuples received by the parse action `action` (tokens of the element *before* its action)"""
    out = set()
    seen = set()

    def raw(e: Elem):
        saved = e.action
        e.action = None
        try:
            return token_types(e)
        finally:
            e.action = saved

    def walk(e: Elem):
        if id(e) in seen:
            return
        seen.add(id(e))
        if e.action == action:
            out.update(raw(e))
        for p in e.parts:
            walk(p)

    for e in env.values():
        walk(e)
    return out


def tags_are_text(chk: Check):
    """Filters compare texts (quoted strings of the query, compiled patterns): the value of a tag -- which may be a number or a boolean -- must be
    turned into text, and a tag name may contain digits and underscores (tags default to parameter names)"""
    from ..dataflow import path_traces

    tree = chk.tree
    f = tree.func("cli.filter", "VarExpr.get")
    bad = []
    for t_ in path_traces(f.node):
        conds = dict(t_.conds)
        special = any(("@state" in c or "@name" in c) and v is True for c, v in conds.items())
        if special or not t_.end.startswith("return"):
            continue
        if t_.end in ("return None", "return"):
            continue
        if not t_.end.startswith("return str("):
            bad.append(t_.end)
    chk.require(not bad, "cli.filter:VarExpr.get:tag value as text", f"VarExpr.get returns the raw tag value ({bad[:2]}): a numeric tag never equals the quoted text of a filter, "
                "membership is always false and a regular expression raises TypeError", chk.loc(f.module, f.node))
    m = tree.mod("cli.filter")
    words = [c for c in ast.walk(m.tree) if isinstance(c, ast.Call) and (dotted(c.func) or "").endswith("Word") and c.args and "alphas" in src(c.args[0])]
    okw = bool(words) and all(("_" in src(c.args[0])) and (len(c.args) < 2 or ("alphanums" in src(c.args[1]) or "nums" in src(c.args[1]))) and (len(c.args) >= 2 or "nums" in src(c.args[0])) for c in words)
    chk.require(okw, "cli.filter:var token:tag names", f"the variable token is {[src(c) for c in words][:1]}: tag names with digits or underscores (learning_rate, top1) cannot be written in a filter", chk.loc(m, words[0] if words else m.tree))


def quoted_text_is_verbatim(chk: Check):
    """What is between the quotes is the pattern / the value: the quoted-string token must not rewrite it.  Frozen table of the keyword
    arguments of pp.QuotedString that leave the text alone; the others (escChar strips every backslash -- `\\.` and `\\d` of a regular
    expression --, escQuote, convertWhitespaceEscapes=..., multiline, endQuoteChar) change what a filter selects"""
    tree = chk.tree
    m = tree.mod("cli.filter")
    allowed = {"unquoteResults": "strips the delimiting quotes only", "quoteChar": "the delimiter itself", "quote_char": "the delimiter itself", "unquote_results": "strips the delimiting quotes only"}
    n = 0
    for c in ast.walk(m.tree):
        if isinstance(c, ast.Call) and (dotted(c.func) or "").split(".")[-1] == "QuotedString":
            n += 1
            extra = [k.arg for k in c.keywords if k.arg not in allowed] + (["<positional>"] if len(c.args) > 1 else [])
            chk.require(not extra, f"cli.filter:quotedString:verbatim text ({src(c.args[0]) if c.args else '?'})",
                        f"`{src(c)[:80]}` rewrites the quoted text ({extra}): the regular expression / value the user wrote is not the one that is compiled and compared", chk.loc(m, c))
    chk.min_instances(n, 1, "pp.QuotedString tokens of the filter grammar")


def r2_token_typing(chk: Check):
    quoted_text_is_verbatim(chk)
    tags_are_text(chk)
    tree = chk.tree
    env, classes = grammar_env(tree)
    m = tree.mod("cli.filter")
    if "logicExpr" not in env:
        raise Undecided("filter grammar: entry expression logicExpr not found")
    # types of the attributes assigned by destructuring in __init__
    attr_types = {}
    for cname in ("VarExpr", "BaseInExpr", "RegexExpr", "ConstantString", "EqExpr", "LogicExpr"):
        init = tree.func("cli.filter", f"{cname}.__init__")
        param = init.node.args.args[1].arg
        toks = received_tokens(env, cname)
        if cname == "BaseInExpr":
            toks = received_tokens(env, "InExpr") | received_tokens(env, "NotInExpr")
        chk.require(bool(toks), f"cli.filter:{cname}:parse action", f"{cname} is never installed as a parse action", chk.loc(m, init.node))
        for s in body_walk(init.node):
            if isinstance(s, ast.Assign) and dotted(s.value) == param and isinstance(s.targets[0], (ast.Tuple, ast.List)):
                elts = s.targets[0].elts
                star = [i for i, e in enumerate(elts) if isinstance(e, ast.Starred)]
                for tk in toks:
                    if (not star and len(tk) != len(elts)) or (star and len(tk) < len(elts) - 1):
                        chk.violation(f"cli.filter:{cname}.__init__:arity", f"{cname} can receive {len(tk)} token(s) {tk} but destructures `{src(s.targets[0])}`", chk.loc(m, s))
                        continue
                    for i, e in enumerate(elts):
                        if isinstance(e, ast.Starred):
                            rest = tk[i:len(tk) - (len(elts) - 1 - i)]
                            attr_types.setdefault((cname, src(e.value)), set()).update(rest)
                        else:
                            idx = i if not star or i < star[0] else len(tk) - (len(elts) - i)
                            attr_types.setdefault((cname, src(e)), set()).add(tk[idx])
    loc = chk.loc(m, m.tree)
    def T(cname, attr):
        return attr_types.get((cname, attr), set())
    # 1. variables are VarExpr; right-hand sides of `=` are VarExpr or ConstantString (both have get())
    for cname, attr in (("BaseInExpr", "self.var"), ("RegexExpr", "self.var"), ("EqExpr", "self.var1")):
        chk.require(T(cname, attr) == {"VarExpr"}, f"cli.filter:{cname}:{attr}", f"`{attr}` of {cname} receives {sorted(T(cname, attr))}; expected a VarExpr (it is used through .get())", loc)
    chk.require(T("EqExpr", "self.var2") <= {"VarExpr", "ConstantString"} and T("EqExpr", "self.var2"), "cli.filter:EqExpr:self.var2", f"right-hand side of `=` receives {sorted(T('EqExpr', 'self.var2'))}", loc)
    chk.require(T("VarExpr", "self.varname") == {"str"}, "cli.filter:VarExpr:self.varname", f"a variable name receives {sorted(T('VarExpr', 'self.varname'))}; expected the text itself", loc)
    chk.require(T("ConstantString", "self.value") == {"str"}, "cli.filter:ConstantString:self.value", f"a constant string receives {sorted(T('ConstantString', 'self.value'))}; expected the text itself", loc)
    # 2. membership: elements of the list vs the compared value (str | None)
    init = tree.func("cli.filter", "BaseInExpr.__init__")
    lst = T("BaseInExpr", "stringList")
    st = [s for s in body_walk(init.node) if isinstance(s, ast.Assign) and src(s.targets[0]) == "self.values"]
    ok = False
    elem_desc = "?"
    if len(st) == 1:
        v = st[0].value
        if src(v) == "set(stringList)":
            elem = lst
            elem_desc = f"set of {sorted(lst)}"
            ok = elem == {"str"}
        elif isinstance(v, ast.Call) and dotted(v.func) == "set" and len(v.args) == 1 and isinstance(v.args[0], (ast.GeneratorExp, ast.ListComp, ast.SetComp)):
            comp = v.args[0]
            var = src(comp.generators[0].target)
            if src(comp.generators[0].iter) == "stringList" and lst == {"ConstantString"} and src(comp.elt) in (f"{var}.value", f"{var}.get(None)"):
                ok = True
                elem_desc = "set of str (the .value of each ConstantString)"
            elif src(comp.generators[0].iter) == "stringList" and lst == {"str"} and src(comp.elt) == var:
                ok = True
        elif isinstance(v, ast.SetComp):
            var = src(v.generators[0].target)
            ok = src(v.generators[0].iter) == "stringList" and lst == {"ConstantString"} and src(v.elt) == f"{var}.value"
    chk.require(ok, "cli.filter:BaseInExpr:self.values", f"`in [...]` / `not in [...]` compare the tag value (a str) with `{src(st[0].value) if st else '?'}` = {elem_desc}; list elements arrive as {sorted(lst)}: "
                "the membership test must compare text with text (else `in` is always false and `not in` always true)", chk.loc(m, init.node))
    for cname, neg in (("InExpr", False), ("NotInExpr", True)):
        f = tree.func("cli.filter", f"{cname}.filter")
        rets = [x for x in body_walk(f.node) if isinstance(x, ast.Return)]
        g = CFG(f.node)
        rd = ReachingDefs(g)
        ok = len(rets) == 1 and isinstance(rets[0].value, ast.Compare) and isinstance(rets[0].value.ops[0], ast.NotIn if neg else ast.In) and src(rets[0].value.comparators[0]) == "self.values"
        if ok:
            n = g.nodes_of(rets[0].value)[0]
            ok = rd.canon(rets[0].value.left, n) == "self.var.get(information)"
        chk.require(ok, f"cli.filter:{cname}.filter", f"{cname}.filter must return `<variable value> {'not in' if neg else 'in'} <listed strings>`", chk.loc(f.module, f.node))
    # 3. regex: compiled from text; filter uses the compiled object stored in __init__
    init = tree.func("cli.filter", "RegexExpr.__init__")
    comp = [c for c in fn_calls(init.node) if dotted(c.func) == "re.compile"]
    ety = T("RegexExpr", "expr")
    ok = len(comp) == 1 and ((src(comp[0].args[0]) == "expr" and ety == {"str"}) or (src(comp[0].args[0]) == "expr.value" and ety == {"ConstantString"}))
    chk.require(ok, "cli.filter:RegexExpr.__init__:re.compile", f"re.compile receives `{src(comp[0].args[0]) if comp else '?'}` where the pattern token arrives as {sorted(ety)}: it must receive the pattern text", chk.loc(m, init.node))
    stored = [src(t) for t, v, s in attr_stores(init.node) if v is not None and isinstance(v, ast.Call) and dotted(v.func) == "re.compile"]
    f = tree.func("cli.filter", "RegexExpr.filter")
    used = [src(c.func.value) for c in fn_calls(f.node) if tail(c) in ("match", "search", "fullmatch")]
    chk.require(bool(stored) and used == stored, "cli.filter:RegexExpr.filter:compiled regex", f"RegexExpr.filter matches with {used} but __init__ stores the compiled pattern in {stored}", chk.loc(f.module, f.node))
    # ... the answer is the match of the variable's value: a missing value never matches, a present value is matched and nothing else decides
    from ..dataflow import path_traces

    VAL = "self.var.get(<p1>)"
    for t_ in path_traces(f.node):
        conds = dict(t_.conds)
        present = conds.get(VAL)
        end = t_.end
        if present is False or conds.get(f"{VAL} is None") is True:
            okp = end in ("return False", "return None", "return", "fall")
        else:
            okp = bool(stored) and any(end in (f"return {st}.{m}({VAL})", f"return bool({st}.{m}({VAL}))", f"return {st}.{m}({VAL}) is not None") for st in stored for m in ("match",))
            okp = okp and not [c for c in conds if c not in (VAL, f"{VAL} is None")]
        chk.require(okp, "cli.filter:RegexExpr.filter:decision", f"RegexExpr.filter under {sorted(conds.items())} ends with `{end}`: a job without the tag is rejected, any other job is "
                    "accepted exactly when the compiled pattern matches the value", chk.loc(f.module, f.node))
    # 4. equality compares the two .get() values
    f = tree.func("cli.filter", "EqExpr.filter")
    rets = [src(x.value) for x in body_walk(f.node) if isinstance(x, ast.Return)]
    chk.require(rets == ["self.var1.get(information) == self.var2.get(information)"], "cli.filter:EqExpr.filter", f"EqExpr.filter returns {rets}", chk.loc(f.module, f.node))
    # 5. variables: special names exactly as written (@state, @name), anything else is a tag looked up under the written name
    vi = tree.func("cli.filter", "VarExpr.__init__")
    st = [s for s in body_walk(vi.node) if isinstance(s, ast.Assign)]
    ok = len(st) == 1 and src(st[0].targets[0]) == "(self.varname,)" and dotted(st[0].value) == vi.node.args.args[1].arg
    chk.require(ok, "cli.filter:VarExpr.__init__:name as written", f"VarExpr must keep the variable name exactly as written ({[src(s) for s in st]}): normalising it (e.g. stripping `@`) makes a tag called "
                "`name` or `state` indistinguishable from @name / @state", chk.loc(m, vi.node))
    vg = tree.func("cli.filter", "VarExpr.get")
    g = CFG(vg.node)

    def classify(n):
        t = src(n.ast)
        if t == "self.varname == '@state'":
            return ("is_state", True)
        if t == "self.varname == '@name'":
            return ("is_name", True)
        if t == "info.state":
            return ("has_state", True)
        return None

    def stop(n):
        if n.kind == "stmt" and isinstance(n.ast, ast.Return):
            return src(n.ast.value)
        if n is g.exit:
            return "None"
        return None

    cases = [({"is_state": True, "is_name": False, "has_state": True}, {"info.state.name"}), ({"is_state": True, "is_name": False, "has_state": False}, {"None"}),
             ({"is_state": False, "is_name": True, "has_state": None}, {"str(info.path.parent.name)", "info.path.parent.name"}),
             ({"is_state": False, "is_name": False, "has_state": None}, {"str(info.tags.get(self.varname, None))", "str(info.tags.get(self.varname))", "str(value)", "None"})]
    for sc, want in cases:
        outs = walk_table(g, g.entry, classify, dict(sc), lambda n: [], stop)
        ends = {o.end for o in outs}
        unk = [u[0] for o in outs for u in o.unknown if u[2] is None and not u[0].endswith(" is None")]
        chk.require(ends <= want and ends and not unk, f"cli.filter:VarExpr.get:{sc}", f"VarExpr.get under {sc} returns {sorted(ends)}{' depending on ' + str(unk) if unk else ''}; expected {sorted(want)} "
                    "(@state: the state name, @name: the task name, anything else: the tag of that name)", chk.loc(vg.module, vg.node))
    cg = tree.func("cli.filter", "ConstantString.get")
    chk.require([src(x.value) for x in body_walk(cg.node) if isinstance(x, ast.Return)] == ["self.value"], "cli.filter:ConstantString.get", "a constant evaluates to its text", chk.loc(cg.module, cg.node))
    chk.count("grammar_elements", len(env))


def r1_definedness(chk: Check):
    tree = chk.tree
    m = tree.mod("cli.filter")
    n = 0
    for c in tree.classes.values():
        if c.module is not m or c.qual == "JobInformation":
            continue
        defined = set()
        for k in tree.mro(c):
            for x in ast.walk(k.node):
                if isinstance(x, ast.Attribute) and isinstance(x.ctx, ast.Store) and dotted(x.value) == "self":
                    defined.add(x.attr)
                if isinstance(x, (ast.FunctionDef,)):
                    defined.add(x.name)
        for name in ("filter", "get"):
            f = tree.find_method(c, name)
            if f is None:
                continue
            for x in body_walk(f.node):
                if isinstance(x, ast.Attribute) and isinstance(x.ctx, ast.Load) and dotted(x.value) == "self":
                    n += 1
                    chk.require(x.attr in defined, f"cli.filter:{c.qual}.{name}:self.{x.attr}", f"{c.qual}.{name} reads `self.{x.attr}`, which no method of the class assigns: evaluating such a filter raises AttributeError", chk.loc(m, x))
        for name in ("__repr__", "matches"):
            f = c.methods.get(name)
            if f is None:
                continue
            for x in body_walk(f.node):
                if isinstance(x, ast.Attribute) and isinstance(x.ctx, ast.Load) and dotted(x.value) == "self" and x.attr not in defined:
                    chk.note(f"{c.qual}.{name} reads undefined attribute self.{x.attr} (not on an evaluation path)", chk.loc(m, x))
    chk.min_instances(n, 8, "attribute reads on filter evaluation paths")


def r3_connectives(chk: Check):
    tree = chk.tree
    f = tree.func("cli.filter", "LogicExpr.filter")
    g = CFG(f.node)

    def classify(n):
        t = src(n.ast)
        table = {"self.operator == 'and'": ("and", True), "self.operator == 'or'": ("and", False), "self.y.filter(information)": ("y", True), "self.x.filter(information)": ("x", True)}
        return table.get(t)

    # truth table over (operator is `and`, left operand, right operand): every path returns a value whose truth is the conjunction / disjunction
    from ..dataflow import truth_of

    rd3 = ReachingDefs(g)
    TEXTS = {"self.operator == 'and'": "and", "self.y.filter(information)": "y", "self.x.filter(information)": "x"}

    def classify(n):
        t = rd3.canon(n.ast, n)
        if t == "self.operator == 'or'":
            return ("and", False)
        return (TEXTS[t], True) if t in TEXTS else None

    bad = []
    for is_and, y, x in itertools.product([True, False], repeat=3):
        sc = {"and": is_and, "y": y, "x": x}
        want = (y and x) if is_and else (y or x)

        def stop(n, sc=sc):
            if n.kind == "stmt" and isinstance(n.ast, ast.Return) and n.ast.value is not None:
                v = truth_of(rd3.subst(n.ast.value, n), lambda t: (TEXTS[t], True) if t in TEXTS else None, sc)
                return f"returns {v}"
            if n is g.exit:
                return "returns None"
            return None

        for o in walk_table(g, g.entry, classify, sc, lambda n: [], stop):
            unk = [u[0] for u in o.unknown if u[2] is None]
            if o.end != f"returns {want}" or unk:
                bad.append(f"operator {'and' if is_and else 'or'}, left={y}, right={x}: {o.end}{' depending on ' + str(unk) if unk else ''}")
    chk.require(not bad, "cli.filter:LogicExpr.filter", f"LogicExpr.filter must be the conjunction of both sides for `and` and the disjunction otherwise; found {bad[:3]}", chk.loc(f.module, f.node))
    s = tree.func("cli.filter", "LogicExpr.summary")
    # left-to-right chaining, decided on the flow graph: one term is returned as it is; otherwise the accumulator starts as the first operator
    # node with the first term on its left, every further operator node takes the accumulator on its left and becomes the accumulator, and
    # the accumulator is what is returned once the loop is over
    gs = CFG(s.node)
    rds = ReachingDefs(gs)
    prm = s.node.args.args[-1].arg
    why = []
    rets = [n for n in gs.live if n.kind == "stmt" and isinstance(n.ast, ast.Return)]
    single = [n for n in rets if n.ast.value is not None and rds.canon(n.ast.value, n) == f"{prm}[0]"]
    if not (len(single) == 1 and any((src(t.ast), pol) in ((f"len({prm}) == 1", True), (f"1 == len({prm})", True)) for t, pol in gs.guards(single[0]) if t.kind == "test")):
        why.append("a single term must be returned unchanged (exactly when there is one token)")
    multi = [n for n in rets if n not in single]
    loops_ = [n for n in gs.live if n.kind == "for" and src(n.ast.iter) == f"{prm}[2:]" and isinstance(n.ast.target, ast.Name)]
    if len(multi) != 1 or len(loops_) != 1 or not isinstance(multi[0].ast.value, ast.Name):
        why.append("several terms: expected one loop over the operator nodes after the first and one return of the accumulator")
    else:
        acc, lp, tok = multi[0].ast.value.id, loops_[0], loops_[0].ast.target.id
        done = [b for b in gs.live if b.kind == "branch" and b.extra["test"] is lp and b.extra["polarity"] == "done"]
        if not (done and all(gs.dominates(b, multi[0]) for b in done[:1])) or gs.exit.id in gs.reachable(done[0], avoid=[multi[0]]) if done else True:
            why.append("the accumulator must be returned on every path once the loop is over")
        init = [n for n in gs.live if n.kind == "stmt" and isinstance(n.ast, ast.Assign) and src(n.ast.targets[0]) == acc and rds.canon(n.ast.value, n) == f"{prm}[1]" and gs.dominates(n, lp)]
        left0 = [n for n in gs.live if n.kind == "stmt" and isinstance(n.ast, ast.Assign) and src(n.ast.targets[0]) == f"{acc}.x" and rds.canon(n.ast.value, n) == f"{prm}[0]" and gs.dominates(n, lp)]
        if not (len(init) == 1 and len(left0) == 1 and gs.dominates(init[0], left0[0])):
            why.append(f"before the loop: `{acc} = {prm}[1]` then `{acc}.x = {prm}[0]`")
        body0 = [m for m, l in lp.succ if l == "loop"]
        link = [n for n in gs.live if n.kind == "stmt" and isinstance(n.ast, ast.Assign) and src(n.ast.targets[0]) == f"{tok}.x" and src(n.ast.value) == acc]
        step = [n for n in gs.live if n.kind == "stmt" and isinstance(n.ast, ast.Assign) and src(n.ast.targets[0]) == acc and src(n.ast.value) == tok]
        if not (len(link) == 1 and len(step) == 1 and body0 and gs.dominates(body0[0], link[0]) and gs.dominates(link[0], step[0]) and gs.on_every_path(step, start=body0[0], end=lp)):
            why.append(f"in the loop: `{tok}.x = {acc}` then `{acc} = {tok}`, on every iteration")
        others = [n for n in gs.live if n.kind == "stmt" and isinstance(n.ast, ast.Assign) and src(n.ast.targets[0]) in (acc, f"{acc}.x", f"{tok}.x") and n not in init + left0 + link + step
                  and not any(gs.dominates(n, x) and not gs.dominates(n, multi[0]) for x in single)]
        if others:
            why.append(f"unexpected writes {[src(n.ast) for n in others][:2]}")
    chk.require(not why, "cli.filter:LogicExpr.summary", f"summary must chain the operators left to right: {why}", chk.loc(s.module, s.node))
    env, _ = grammar_env(tree)
    lt = received_tokens(env, "LogicExpr")
    chk.require(all(len(tk) == 2 and tk[0] == "str" for tk in lt) and lt, "cli.filter:LogicExpr tokens", f"LogicExpr receives {sorted(lt)}; expected (operator text, right operand)", chk.loc(s.module, s.node))
    cf = tree.func("cli.filter", "createFilter")
    chk.require("parseAll=True" in src(cf.node) and "return r.filter" in src(cf.node), "cli.filter:createFilter", "the whole query must be parsed and its filter returned", chk.loc(cf.module, cf.node))


def command_wiring(chk: Check):
    """The decision table takes `clean`, `kill` and `perform` as given.  They are given by the commands: listing deletes and kills nothing, only
    `jobs clean` cleans, only `jobs kill` kills, and `perform` is the command's own --perform flag (off unless written)."""
    tree = chk.tree
    m = tree.mod("cli.jobs")
    f = tree.func("cli.jobs", "process")
    a = f.node.args
    defaults = {}
    pos = a.posonlyargs + a.args
    for prm, d in zip(pos[len(pos) - len(a.defaults):], a.defaults):
        defaults[prm.arg] = d
    for prm, d in zip(a.kwonlyargs, a.kw_defaults):
        defaults[prm.arg] = d
    for k in ("clean", "kill", "perform"):
        d = defaults.get(k)
        chk.require(isinstance(d, ast.Constant) and d.value is False, f"cli.jobs:process:default of {k}", f"`{k}` of cli.jobs.process defaults to `{src(d) if d is not None else 'nothing'}`: "
                    "a command that does not mention it (jobs list) would " + ("delete" if k != "kill" else "kill") + " jobs", chk.loc(m, f.node))
    calls = 0
    for ff in tree.nontest_funcs():
        if ff.module is not m:
            continue
        for c in fn_calls(ff.node):
            if not (isinstance(c.func, ast.Name) and c.func.id == "process"):
                continue
            calls += 1
            kw = {k.arg: k.value for k in c.keywords if k.arg}
            star = any(k.arg is None for k in c.keywords) or len(c.args) > 1
            chk.require(not star, chk.fkey(ff, "explicit arguments"), f"`{ff.qual}` calls process with positional / ** arguments: clean, kill and perform cannot be traced", chk.loc(m, c))
            for k, owner in (("clean", "clean"), ("kill", "kill")):
                v = kw.get(k)
                on = v is not None and not (isinstance(v, ast.Constant) and v.value is False)
                chk.require(not on or (ff.node.name == owner and isinstance(v, ast.Constant) and v.value is True), chk.fkey(ff, f"{k} only from jobs {owner}"),
                            f"`{ff.qual}` calls process with {k}={src(v) if v is not None else None}: only the `{owner}` command may ask for it", chk.loc(m, c))
            v = kw.get("perform")
            if v is not None:
                params = [x.arg for x in ff.node.args.args + ff.node.args.kwonlyargs]
                ok = isinstance(v, ast.Name) and v.id in params
                if ok:
                    opts = [d for d in ff.node.decorator_list if isinstance(d, ast.Call) and tail(d) == "option" and d.args and isinstance(d.args[0], ast.Constant) and d.args[0].value == "--" + v.id]
                    ok = len(opts) == 1 and any(k.arg == "is_flag" and isinstance(k.value, ast.Constant) and k.value.value is True for k in opts[0].keywords) \
                        and not any(k.arg == "default" and not (isinstance(k.value, ast.Constant) and not k.value.value) for k in opts[0].keywords)
                chk.require(ok, chk.fkey(ff, "perform is the --perform flag"), f"`{ff.qual}` passes perform={src(v)}: it must be the command's own --perform flag (false unless given)", chk.loc(m, c))
    chk.min_instances(calls, 3, "commands calling cli.jobs.process")


def r4_jobs_clean(chk: Check):
    command_wiring(chk)
    tree = chk.tree
    js = JobStates(tree)
    f = tree.func("cli.jobs", "process")
    g = CFG(f.node)
    rd = ReachingDefs(g)
    loc = chk.loc(f.module, f.node)
    loops = [n for n in g.live if n.kind == "for" and rd.canon(n.ast.iter, n) in ("path.glob('jobs/*/*')", "workspace.path.glob('jobs/*/*')")]
    if len(loops) != 1:
        raise Undecided("cli.jobs.process: job loop not found")
    lp = loops[0]
    start = [m for m, l in lp.succ if l == "loop"][0]
    STATES = ["None", "RUNNING", "DONE", "ERROR", "WAITING"]

    def make(sc):
        st = sc["state"]

        def classify(n):
            t = src(n.ast)
            simple = {"p.is_dir()": ("dir", True), "experiment": ("exp", True), "experiment not in xps": ("exp_in", False), "experiment in xps": ("exp_in", True),
                      "filter": ("flt", True), "_filter(info)": ("acc", True), "kill": ("kill", True), "perform": ("perform", True), "process is None": ("pnone", True),
                      "tags": ("tags", True), "clean": ("clean", True), "ready": ("ready", True), "fullpath": ("fullpath", True)}
            if t in simple:
                return simple[t]
            if n.kind == "test" and t.endswith(" is None") and t != "info.state is None":
                from ..dataflow import none_test_under

                basic = lambda m: simple.get(src(m.ast))
                v = none_test_under(rd, g, n, basic, sc)
                if v is not None:
                    return ("#c", v)
            if t == "info.state is None":
                return ("#c", st == "None")
            if t == "info.state":
                return ("#c", st != "None")
            if st != "None":
                ts = js.test_set(n.ast, "info")
                if ts is not None:
                    return ("#c", st in ts)
            return None

        return classify

    def events(n):
        out = []
        for c in n.calls():
            if tail(c) == "rmtree":
                out.append("rmtree " + src(c.args[0]))
            if src(c) == "process.kill()":
                out.append("kill")
        return out

    def stop(n):
        if n is lp:
            return "next"
        if n is g.exit:
            return "exit"
        if n is g.raise_:
            return "raise"
        return None

    nsc = 0
    bad = 0
    for d, (e, ein), (fl, acc), st, kill, clean, perform, pnone in itertools.product(
            [True, False], [(False, False), (True, True), (True, False)], [(False, False), (True, True), (True, False)], STATES, [False, True], [False, True], [False, True], [False, True]):
        sc = {"dir": d, "exp": e, "exp_in": ein, "flt": fl, "acc": acc, "kill": kill, "clean": clean, "perform": perform, "pnone": pnone, "tags": False, "ready": True, "fullpath": False, "state": st}
        cl = make(sc)
        s2 = dict(sc)
        s2["#c"] = True
        # `#c` atoms carry their own truth: classify returns ("#c", value) meaning positive==value
        outs = walk_table(g, start, cl, s2, events, stop)
        nsc += 1
        selected = d and not (e and not ein) and not (fl and not acc)
        want_rm = selected and clean and perform and st in ("DONE", "ERROR")
        want_kill = selected and kill and perform and st == "RUNNING" and not pnone
        for o in outs:
            if not d and clean:
                continue  # not a directory: no job information (the loop body is not defined for it)
            got_rm = any(x.startswith("rmtree") for x in o.events)
            got_kill = "kill" in o.events
            unk = [u[0] for u in o.unknown if u[2] is None]
            if got_rm != want_rm or got_kill != want_kill or (unk and (got_rm or got_kill)):
                bad += 1
                if bad <= 3:
                    desc = ", ".join(f"{k}={v}" for k, v in sc.items() if k not in ("tags", "ready", "fullpath"))
                    chk.violation(chk.fkey(f, f"clean/kill decision [{desc}]"[:150]),
                                  f"jobs {'clean' if clean else 'kill'} under [{desc}]: deletes={got_rm} (expected {want_rm}), kills={got_kill} (expected {want_kill})"
                                  f"{' depending on ' + str(unk) if unk else ''}. Only finished jobs selected by experiment + filter are removed, only with --perform; running jobs are never removed", loc)
            for x in o.events:
                if x.startswith("rmtree") and x != "rmtree p":
                    chk.violation(chk.fkey(f, "deleted path"), f"jobs clean deletes `{x[7:]}`; expected the selected job directory", loc)
    chk.count("c19_clean_scenarios", nsc)
    if not bad:
        chk.ok(chk.fkey(f, "clean/kill decision table"), loc, f"{nsc} scenarios")
    # every local read is bound on some path reaching it
    from ..dataflow import definitely_assigned

    local_names = {d.name for n in g.live for d in rd.gen[n.id]}
    must = definitely_assigned(g, rd)
    nread = 0
    for n in g.live:
        for x in n.walk():
            if isinstance(x, ast.Name) and isinstance(x.ctx, ast.Load) and x.id in local_names and x.id not in rd.params:
                nread += 1
                if x.id not in must[n.id] and not any(d.name == x.id and d.kind == "walrus" for d in rd.gen[n.id]):
                    # comprehension / lambda variables are not locals of the function
                    if any(isinstance(a, (ast.ListComp, ast.SetComp, ast.DictComp, ast.GeneratorExp, ast.Lambda)) and any(
                            isinstance(t, ast.Name) and t.id == x.id for gen in getattr(a, "generators", []) for t in ast.walk(gen.target)) for a in _anc(x)):
                        continue
                    isdir = [b for b in g.live if b.kind == "branch" and b.extra["test"].kind == "test" and src(b.extra["test"].ast) == "p.is_dir()" and b.extra["polarity"] is True and g.dominates(lp, b)]
                    if not any(g.dominates(b, n) for b in isdir):
                        chk.note(f"`{x.id}` may be read before assignment at line {n.lineno} (listing of a non-directory entry; outside the kill/clean decision)", chk.loc(f.module, x))
                        continue
                    chk.violation(chk.fkey(f, f"`{x.id}` read before assignment"), f"`{x.id}` is read at line {n.lineno} on a path where it was not assigned (it is a local of `process`): UnboundLocalError "
                                  "while handling a selected job", chk.loc(f.module, x))
    chk.count("local_reads", nread)
    # the experiment -> jobs map used for the restriction: built from every xp/*/jobs/*/*
    chk.require("for job in p.glob('jobs/*/*')" in src(f.node), chk.fkey(f, "experiment map"), "the experiment restriction must be built from every experiment index", loc)
    # ... and keyed by the job (its folder), not by the task: `--experiment A` selects the jobs of A, not every job of the tasks A ran
    sets = [c for c in fn_calls(f.node) if tail(c) == "setdefault" and src(c.func.value) == "job2xp" and c.args]
    gets = [c for c in fn_calls(f.node) if tail(c) == "get" and src(c.func.value) == "job2xp" and c.args]
    okk = bool(sets) and bool(gets)
    for c in sets + gets:
        for nd in g.nodes_of(c):
            k = rd.canon(c.args[0], nd)
            okk = okk and ("resolve()" in k or k.startswith("job")) and "rsplit" not in k and "scriptname" not in k
    chk.require(okk, chk.fkey(f, "experiment map keyed by job"), "the map from jobs to experiments is keyed by the task name: `jobs clean --experiment A --perform` also removes the jobs other experiments ran with the same task", loc)
    # unfinished experiments prevent clean/kill without --perform
    # decision table from the "this experiment is unfinished" branch: without --perform a requested kill / clean is switched off, with --perform nothing is
    baks = [n for n in g.live if n.kind == "test" and rd.canon(n.ast, n) in ("(p / 'jobs.bak').is_dir()", "(p / 'jobs.bak').exists()")]
    ok = bool(baks)
    for bt in baks:
        starts = [m for m, l in bt.succ if l is True]
        heads = [n for n in g.live if n.kind == "for" and bt.id in g.reachable([m for m, l in n.succ if l == "loop"][0], avoid=[n])]

        def cl(n):
            t = src(n.ast)
            return (t, True) if t in ("perform", "kill", "clean") else None

        def ev(n):
            if n.kind == "stmt" and isinstance(n.ast, ast.Assign) and isinstance(n.ast.value, ast.Constant) and n.ast.value.value is False:
                return [t.id for t in n.ast.targets if isinstance(t, ast.Name) and t.id in ("kill", "clean")]
            if n.kind == "stmt" and isinstance(n.ast, ast.Assign) and any(isinstance(t, ast.Name) and t.id in ("kill", "clean") for t in n.ast.targets):
                return ["other:" + src(n.ast)]
            return []

        for perform, kill, clean in itertools.product([False, True], repeat=3):
            for st in starts:
                for o in walk_table(g, st, cl, {"perform": perform, "kill": kill, "clean": clean}, ev, lambda n: "next" if n in heads else ("exit" if n is g.exit else None)):
                    off = set(o.events)
                    need = set() if perform else {x for x, v in (("kill", kill), ("clean", clean)) if v}
                    if any(e.startswith("other:") for e in off) or not need <= off or (perform and off) or [u for u in o.unknown if u[2] is None]:
                        ok = False
    chk.require(ok, chk.fkey(f, "unfinished experiment guard"), "with an unfinished experiment, kill/clean must be disabled unless --perform", loc)


def r5_orphans(chk: Check):
    c16.r5_orphans_index(chk)
    # `clean` of orphans is the --clean flag: off unless written
    of = chk.tree.func("cli", "orphans")
    opts = [d for d in of.node.decorator_list if isinstance(d, ast.Call) and tail(d) == "option" and d.args and isinstance(d.args[0], ast.Constant) and d.args[0].value == "--clean"]
    ok = len(opts) == 1 and any(k.arg == "is_flag" and isinstance(k.value, ast.Constant) and k.value.value is True for k in opts[0].keywords) \
        and not any(k.arg in ("default", "flag_value") and not (isinstance(k.value, ast.Constant) and k.value.value in (False, None)) for k in opts[0].keywords) \
        and "clean" in [a.arg for a in of.node.args.args]
    chk.require(ok, "cli:orphans:clean is the --clean flag", "the `clean` argument of orphans must be the --clean flag, false unless given: otherwise listing orphans deletes them", chk.loc(of.module, of.node))
    # deletion sites of cli/: exactly the two
    tree = chk.tree
    sites = []
    for f in tree.nontest_funcs():
        if f.module.name.startswith("cli"):
            for c in fn_calls(f.node):
                if tail(c) in ("rmtree", "unlink", "rmdir", "remove"):
                    sites.append(f.key)
    chk.require(sorted(set(sites)) == ["cli.jobs:process", "cli:orphans"], "cli:deletion sites", f"deletion sites of the command line are {sorted(sites)}; expected exactly jobs clean and orphans --clean", "")


def r6_job_state(chk: Check):
    """@state and the clean/kill decision rest on JobInformation.state: DONE / ERROR / RUNNING exactly by the job's own marker files"""
    from ..dataflow import path_traces

    tree = chk.tree
    f = tree.func("cli.filter", "JobInformation.state")
    ts = path_traces(f.node)
    loc = chk.loc(f.module, f.node)

    def probe(sfx):
        return (f"(self.path / f'{{self.scriptname}}.{sfx}').is_file()",)

    # order: a success marker wins; then the process file (a job that is launched again keeps the failure marker of its previous run until it
    # has taken its locks: it must not look finished, or `jobs clean` removes a running job); then the failure marker
    want = [("done", "return JobState.DONE"), ("pid", "return JobState.RUNNING"), ("failed", "return JobState.ERROR")]
    ok = len(ts) == 4
    seen = set()
    for t in ts:
        conds = dict(t.conds)
        if t.end == "return None":
            ok = ok and all(conds.get(probe(s)[0]) is False for s, _ in want)
            seen.add("none")
            continue
        for i, (sfx, end) in enumerate(want):
            if t.end == end:
                ok = ok and conds.get(probe(sfx)[0]) is True and all(conds.get(probe(s2)[0]) is False for s2, _ in want[:i])
                seen.add(sfx)
    ok = ok and seen == {"done", "failed", "pid", "none"}
    chk.require(ok, chk.fkey(f, "state from the job's own markers"),
                f"JobInformation.state must be DONE / RUNNING / ERROR exactly when <script>.done / .pid / .failed is a file of the job folder (in that order: the process file before the failure marker), else None; found {[(t.conds, t.end) for t in ts][:4]}. "
                "Any other file ending in .done / .failed (written by the task itself) must not make a running job look finished -- `jobs clean` would delete it", loc)


RULES = [
    ("R1", "every self attribute read on a filter evaluation path (filter / get) is assigned by the class", r1_definedness),
    ("R2", "token typing of the pyparsing grammar (object identity / aliasing of parse actions): variables are VarExpr, names and constants are text, membership compares text with text, "
           "the regex is compiled from text and the compiled object is the one used, special variables only when written with @", r2_token_typing),
    ("R3", "connectives: `and` = conjunction of both sides, otherwise disjunction; operators chained left to right; whole query parsed", r3_connectives),
    ("R4", "jobs clean / kill decision table over 2880 scenarios (directory, experiment restriction, filter, state, kill, clean, perform, process): rmtree iff selected, finished, clean and perform; "
           "kill iff selected, running, kill, perform and a process; every local read is bound", r4_jobs_clean),
    ("R6", "JobInformation.state decision table: DONE / RUNNING / ERROR exactly by <script>.done / .pid / .failed being files, in that order (a relaunched job with a stale failure marker is running)", r6_job_state),
    ("R5", "orphans --clean: indexed jobs from every index and backup index with fresh iterators; delete iff clean and unreferenced (= C16.R5); the command line has exactly two deletion sites", r5_orphans),
]
