"""C20 -- deprecating a class keeps identifiers and makes old results reachable."""

from __future__ import annotations

import ast
import itertools

from ..astq import attr_stores, body_walk, dotted, src, walk_local, norm_stmt, fn_calls, tail
from ..cfg import CFG
from ..dataflow import ReachingDefs, walk_table
from ..hashmodel import full_model
from ..loader import Undecided
from ..report import Check
from . import c12

ASSUMPTIONS = [
    "workspaces with partially repaired histories are decided only through the ordering rule R5 (links removed before targets are examined)",
    "that a deprecated subclass adds no parameters is not decided",
]


def _anc(node):
    p = getattr(node, "_parent", None)
    while p is not None:
        yield p
        p = getattr(p, "_parent", None)


def r1_identifier_swap(chk: Check):
    tree = chk.tree
    f = tree.func("core.types", "ObjectType.deprecate")
    g = CFG(f.node)
    rd = ReachingDefs(g)
    loc = chk.loc(f.module, f.node)
    st = [n for n in g.live if n.kind == "stmt" and isinstance(n.ast, ast.Assign) and src(n.ast.targets[0]) == "self.identifier"]
    ok = len(st) == 1 and rd.canon(st[0].ast.value, st[0]) == "self.basetype.__bases__[0].__getxpmtype__().identifier"
    chk.require(ok, chk.fkey(f, "takes the replacement's identifier"),
                f"deprecate() sets the identifier to `{rd.canon(st[0].ast.value, st[0]) if st else '?'}`; it must take the *current* identifier of its single parent type "
                "(which, for a chain of deprecations, is already the final replacement's)", loc)
    sv = [n for n in g.live if n.kind == "stmt" and isinstance(n.ast, ast.Assign) and src(n.ast.targets[0]) == "self._deprecated_identifier"]
    chk.require(len(sv) == 1 and src(sv[0].ast.value) == "self.identifier" and st and g.dominates(sv[0], st[0]), chk.fkey(f, "saves the former identifier"), "the former identifier must be saved before the swap (used to locate old job directories)", loc)
    rs = [n for n in g.live if n.kind == "stmt" and isinstance(n.ast, ast.Raise)]
    ok = any(any(src(t.ast) == "len(self.basetype.__bases__) == 1" and pol is False for t, pol in g.guards(r) if t.kind == "test") for r in rs)
    chk.require(ok, chk.fkey(f, "single parent"), "a deprecated class with more than one base must be refused", loc)
    # identifier is a plain attribute of Type (no lazily computed property that could bypass the swap)
    for cn in ("Type", "ObjectType"):
        c = tree.cls("core.types", cn)
        chk.require("identifier" not in c.methods, f"core.types:{cn}.identifier", f"{cn}.identifier became a computed property: every reader (hash, job path, serialisation) must see the swapped identifier stored by deprecate()", chk.loc(c.module, c.node))
    ti = tree.func("core.types", "Type.__init__")
    chk.require(any(src(t) == "self.identifier" for t, v, s in attr_stores(ti.node)), "core.types:Type.__init__:identifier", "Type.__init__ must store the identifier attribute", chk.loc(ti.module, ti.node))
    writers = [ff.key for ff in tree.nontest_funcs() for t, v, s in attr_stores(ff.node) if t.attr == "identifier" and ff.module.name == "core.types"]
    chk.require(sorted(writers) == ["core.types:ObjectType.deprecate", "core.types:Type.__init__"], "core.types:identifier writers", f"writers of a type identifier are {sorted(writers)}", loc)
    # readers: the hash uses xpmtype.identifier; the job directory uses type.identifier
    m = full_model(tree)
    t = str(m["update"]["branches"])
    chk.require(".__xpmtype__.identifier.name" in t, "core.objects:HashComputer.update:type name", "the hash must read the type name through `__xpmtype__.identifier` (so that a deprecated class hashes as its replacement)", loc)
    rp = tree.cls("scheduler.base", "Job").methods["relpath"]
    chk.require("self.type.identifier" in src(rp.node), "scheduler.base:Job.relpath:type identifier", "the job directory must be derived from type.identifier", chk.loc(rp.module, rp.node))
    an = tree.func("annotations", "deprecate")
    chk.require("config.__getxpmtype__().deprecate()" in src(an.node), "annotations:deprecate", "@deprecate on a class must call ObjectType.deprecate()", chk.loc(an.module, an.node))


def r2_never_deletes(chk: Check):
    tree = chk.tree
    m = tree.mod("tools.jobs")
    n = 0
    for f in tree.nontest_funcs():
        if f.module is not m:
            continue
        g = CFG(f.node)
        for node, c in g.call_nodes(lambda c: True):
            t = tail(c)
            d = dotted(c.func) or ""
            if t in ("rmtree", "rmdir", "remove", "removedirs") or d.startswith("shutil."):
                n += 1
                chk.violation(chk.fkey(f, f"calls {d or t}"), f"`{f.qual}` calls `{src(c)}`: the repair command must never delete job data", chk.loc(f.module, c))
            if t == "unlink" and isinstance(c.func, ast.Attribute):
                n += 1
                base = src(c.func.value)
                gs = [(src(x.ast), pol) for x, pol in g.guards(node) if x.kind == "test"]
                chk.require((f"{base}.is_symlink()", True) in gs, chk.fkey(f, f"unlink of {base}"), f"`{src(c)}` is not dominated by `{base}.is_symlink()`: only links may be removed, never a job directory or file", chk.loc(f.module, c))
            if t == "rename" and isinstance(c.func, ast.Attribute):
                n += 1
                gs = [(src(x.ast), pol) for x, pol in g.guards(node) if x.kind == "test"]
                ok = ("cleanup", True) in gs and (f"{src(c.args[0])}.exists()", False) in gs
                chk.require(ok, chk.fkey(f, "rename of a job directory"), f"`{src(c)}` under {gs}: a job directory may only be moved when cleanup was asked and the target does not exist", chk.loc(f.module, c))
            if t == "replace" and isinstance(c.func, ast.Attribute) and "tmp" in src(c.func.value):
                n += 1
                chk.ok(chk.fkey(f, "params.json replaced atomically"), chk.loc(f.module, c))
            if t in ("write_text", "write_bytes") or (t == "open" and any(isinstance(a, ast.Constant) and "w" in str(a.value) for a in c.args)):
                n += 1
                ok = "tmp" in src(c.func.value)
                chk.require(ok, chk.fkey(f, f"writes {src(c.func.value)}"), f"`{src(c)}` writes a job file in place; params.json must be replaced through a temporary file", chk.loc(f.module, c))
    chk.min_instances(n, 4, "file-system effects of tools/jobs.py")
    # without --fix the command only lists: every effect on the workspace (links removed or created, folders created or moved, files written)
    # happens under `fix`; a listing that removes the links of an earlier repair makes those results unreachable again
    f = tree.func("tools.jobs", "fix_deprecated")
    g = CFG(f.node)
    rd = ReachingDefs(g)
    k = 0
    for node, c in g.call_nodes(lambda c: tail(c) in ("unlink", "rename", "replace", "symlink_to", "mkdir", "write_text", "write_bytes", "touch")
                                or (tail(c) == "open" and any(isinstance(a, ast.Constant) and "w" in str(a.value) for a in c.args))):
        k += 1
        gs = [(src(x.ast), pol) for x, pol in g.guards(node) if x.kind == "test"]
        chk.require(("fix", True) in gs, chk.fkey(f, f"{tail(c)} only when fixing"), f"`{src(c)[:60]}` changes the workspace although --fix was not given (guards: {gs})", chk.loc(f.module, c))
        if tail(c) == "symlink_to" and c.args:
            # the link is read relatively to the folder that contains it: its target must be an absolute path
            tgt = rd.canon(c.args[0], node, depth=8)
            chk.require(".absolute()" in tgt or ".resolve()" in tgt or "os.path.abspath(" in tgt, chk.fkey(f, "link target is absolute"),
                        f"`{src(c)}` links to `{tgt}`, a path relative to the current directory when the workspace was given as a relative path: the link, resolved from the folder "
                        "that contains it, is dangling and the old result is not found under the new identifier", chk.loc(f.module, c))
    chk.min_instances(k, 5, "workspace effects of fix_deprecated")


def r3_link_move_table(chk: Check):
    tree = chk.tree
    f = tree.func("tools.jobs", "fix_deprecated")
    g = CFG(f.node)
    rd = ReachingDefs(g)
    loc = chk.loc(f.module, f.node)
    loops = [n for n in g.live if n.kind == "for" and "params.json" in src(n.ast.iter)]
    main = [lp for lp in loops if any(isinstance(c, ast.Call) and dotted(c.func) == "load_job" for s in lp.ast.body for c in walk_local(s))]
    if len(main) != 1:
        raise Undecided("fix_deprecated: main loop (calling load_job) not found")
    lp = main[0]
    start = [m for m, l in lp.succ if l == "loop"][0]

    # roles of the expressions of the loop body, by their canonical (definition-expanded) text
    JOBS = {"jobspath", "workpath / 'jobs'", "workpath.absolute() / 'jobs'", "workpath.resolve() / 'jobs'"}
    NAME = {"job_path.parents[1].name", "job_path.parent.parent.name"}
    OLDID = "job_path.parent.name"
    NEWID = "job.__xpm__.identifier.all.hex()"
    ROLES = {"job_path.parent": "jobdir", OLDID: "oldid", NEWID: "newid"}
    for j in JOBS:
        for nm in NAME:
            ROLES[f"{j} / {nm} / {OLDID}"] = "old"
        ROLES[f"{j} / str(job.__xpmtype__.identifier) / {NEWID}"] = "new"

    def role(e, n):
        return ROLES.get(rd.canon(e, n, depth=6))

    def classify(n):
        e = n.ast
        t = src(e)
        if t in ("fix", "cleanup"):
            return (t, True)
        if t == "job is None":
            return ("job_none", True)
        if isinstance(e, ast.Call) and isinstance(e.func, ast.Attribute) and not e.args:
            r = role(e.func.value, n)
            if e.func.attr == "is_symlink" and r == "jobdir":
                return ("is_link", True)
            if e.func.attr == "is_symlink" and r == "new":
                return ("target_link", True)
            if e.func.attr == "exists" and r == "new":
                return ("target_exists", True)
        if isinstance(e, ast.Compare) and len(e.ops) == 1 and isinstance(e.ops[0], ast.Eq):
            l, r_ = e.left, e.comparators[0]
            if {role(l, n), role(r_, n)} == {"oldid", "newid"}:
                return ("differs", False)
            if all(isinstance(x, ast.Call) and isinstance(x.func, ast.Attribute) and x.func.attr == "resolve" and not x.args for x in (l, r_)) and {role(l.func.value, n), role(r_.func.value, n)} == {"old", "new"}:
                return ("other_target", False)
        return None

    def events(n):
        out = []
        for c in n.calls():
            t = tail(c)
            if t in ("symlink_to", "rename", "unlink") and isinstance(c.func, ast.Attribute):
                recv = role(c.func.value, n) or src(c.func.value)
                arg = (role(c.args[0], n) or src(c.args[0])) if c.args else ""
                if t == "symlink_to":
                    out.append(f"link {recv}->{arg}")
                elif t == "rename":
                    out.append(f"move {recv}->{arg}")
                else:
                    out.append(f"unlink {recv}")
            if t == "replace":
                out.append("rewrite params")
        return out

    stop = lambda n: "next" if n is lp else ("exit" if n is g.exit else ("raise" if n is g.raise_ else None))
    atoms = ["is_link", "job_none", "differs", "fix", "cleanup", "target_link", "target_exists", "other_target"]
    nsc = 0
    for bits in itertools.product([False, True], repeat=len(atoms)):
        s = dict(zip(atoms, bits))
        nsc += 1
        outs = walk_table(g, start, classify, s, events, stop)
        for o in outs:
            ev = [e for e in o.events]
            fs = [e for e in ev if not e.startswith("unlink new")]
            if s["is_link"] or s["job_none"] or not s["differs"] or not s["fix"]:
                want = []
            elif s["target_exists"] and not (s["target_link"] and False):
                # a dangling link is removed first (exists() is then false): modelled by target_link & !target_exists
                want = []
            elif s["cleanup"]:
                want = ["rewrite params", "move old->new"]
            else:
                want = ["link new->old"]
            unk = [u[0] for u in o.unknown if u[2] is None]
            ok = fs == want and not unk
            # dangling link removal only when target is a link and does not exist
            if "unlink new" in ev and not (s["target_link"] and not s["target_exists"]):
                ok = False
            if not ok:
                sc = ", ".join(f"{k}={'T' if v else 'F'}" for k, v in s.items())
                chk.violation(chk.fkey(f, "repair decision [" + ",".join(k for k, v in s.items() if v) + "]"),
                              f"fix_deprecated under [{sc}] does {ev or ['nothing']}{' depending on ' + str(unk) if unk else ''}; expected {want or ['nothing']}: a job stored under a former identifier "
                              "is linked (or, with cleanup, rewritten and moved) only when --fix was given and the new location is free", loc)
                return
    chk.ok(chk.fkey(f, "repair decision table"), loc, f"{nsc} scenarios over {len(atoms)} atoms")
    chk.count("c20_scenarios", nsc)
    # identifiers compared / paths: decided by the roles above (a comparison or a path that is not one of the role texts is an unmodelled condition / target)
    seen_roles = set()
    for n in g.live:
        for x in n.walk():
            if isinstance(x, ast.expr) and not isinstance(x, ast.Constant):
                r = role(x, n)
                if r:
                    seen_roles.add(r)
    chk.require({"old", "new", "oldid", "newid", "jobdir"} <= seen_roles, chk.fkey(f, "paths"),
                f"fix_deprecated must compare the directory name with the recomputed identifier and link jobs/<current type identifier>/<recomputed identifier> to jobs/<stored type>/<stored identifier>; "
                f"recognised {sorted(seen_roles)}", loc)
    lj = tree.func("tools.jobs", "load_job")
    la = lj.node.args
    defaults = dict(zip(reversed([x.arg for x in la.posonlyargs + la.args]), reversed(la.defaults)))
    d = defaults.get("discard_id")
    passes = [c for c in fn_calls(lj.node) if tail(c) == "fromParameters" and any(k.arg == "discard_id" and src(k.value) == "discard_id" for k in c.keywords)]
    callers = [c for c in fn_calls(f.node) if dotted(c.func) == "load_job"]
    overridden = [c for c in callers if len(c.args) > 1 or any(k.arg == "discard_id" for k in c.keywords)]
    chk.require(isinstance(d, ast.Constant) and d.value is True and len(passes) >= 1 and callers and not overridden, chk.fkey(lj, "recomputes"),
                "load_job must discard the stored identifier so that it is recomputed", chk.loc(lj.module, lj.node))


def r4_recomputed_identifier(chk: Check):
    c12.r1_record_keys(chk)
    c12.r3_tristate(chk)
    # "discard the stored identifier" really discards it: the loader stores the identifier of the file only when it was not asked to discard it,
    # and the request travels from fromParameters to the loader (otherwise the repair compares the stored identifier with itself)
    tree = chk.tree
    lo = tree.func("core.objects", "ConfigInformation.load_objects")
    g = CFG(lo.node)
    stores = [n for n in g.live if n.kind == "stmt" and isinstance(n.ast, ast.Assign) and any(src(t).endswith(("._identifier", ".__xpmidentifier__")) for t in n.ast.targets)
              and "from_state_dict" in src(n.ast.value)]
    chk.min_instances(len(stores), 1, "stores of the recorded identifier in load_objects")
    for n in stores:
        gs = [(src(t.ast), pol) for t, pol in g.guards(n) if t.kind == "test"]
        chk.require(("discard_id", False) in gs, chk.fkey(lo, f"stored identifier kept only when not discarded: {src(n.ast.targets[0])}"),
                    f"`{src(n.ast)[:70]}` is executed under {gs}: with discard_id the identifier recorded in the file must not be restored", chk.loc(lo.module, n.ast))
    fp = tree.func("core.objects", "ConfigInformation.fromParameters")
    fwd = [c for c in fn_calls(fp.node) if tail(c) == "load_objects" and any(k.arg == "discard_id" and src(k.value) == "discard_id" for k in c.keywords)]
    chk.require(len(fwd) >= 1, chk.fkey(fp, "discard_id forwarded"), "fromParameters does not hand `discard_id` to load_objects", chk.loc(fp.module, fp.node))


def r5_cleanup_order(chk: Check):
    tree = chk.tree
    f = tree.func("tools.jobs", "fix_deprecated")
    g = CFG(f.node)
    loc = chk.loc(f.module, f.node)
    tests = [n for n in g.live if n.kind == "test" and src(n.ast) == "newjobpath.exists()"]
    chk.min_instances(len(tests), 1, "test of the new job location")
    # link-removal pass: a loop over the same tree whose body unlinks symlinks, under cleanup
    passes = []
    for n in g.live:
        if n.kind == "for" and "params.json" in src(n.ast.iter):
            body = [c for s in n.ast.body for c in walk_local(s) if isinstance(c, ast.Call)]
            if any(tail(c) == "unlink" for c in body) and not any(dotted(c.func) == "load_job" for c in body):
                passes.append(n)
    for t in tests:
        # when cleanup is requested: the test must come after a completed link-removal pass
        ok = False
        for p in passes:
            done = [b for b in g.live if b.kind == "branch" and b.extra["test"] is p and b.extra["polarity"] == "done"]
            # the conditions under which the pass runs: `cleanup`, possibly together with `fix` (nothing is removed when not fixing)
            gd = [b for b in g.live if b.kind == "branch" and b.extra["test"].kind == "test" and src(b.extra["test"].ast) in ("cleanup", "fix") and b.extra["polarity"] is True and g.dominates(b, p)]
            cl = [b for b in gd if src(b.extra["test"].ast) == "cleanup"]
            if done and cl:
                # every path on which those conditions are true passes the completed pass (the false edges skip it); with `fix` false the
                # new location is never tested for a repair (R3 table), so starting below the `fix` test loses nothing
                inner = [b for b in gd if all(g.dominates(o, b) for o in gd)]
                ok = bool(inner) and g.must_pass(inner[0], t, done)
        chk.require(ok, chk.fkey(f, "links removed before targets are examined"),
                    "with --cleanup, former repair links must all be removed in a pass that completes before any job's new location is tested: otherwise a job whose link still exists is "
                    "judged already repaired, then loses its link later in the same walk and ends up reachable only under its former identifier", loc)



def r6_marker_names_follow(chk: Check):
    """`resubmitting finds the existing result`: the markers of a job are named after the last component of its *task* identifier; when the
    deprecated class is the task itself, the repaired folder holds <old>.done while the resubmitted job looks for <new>.done (finding kept in
    known_findings.json)"""
    tree = chk.tree
    ji = tree.func("scheduler.base", "Job.__init__")
    named = any(isinstance(x, ast.Assign) and src(x.targets[0]) == "self.name" and "type.identifier" in src(x.value) for x in body_walk(ji.node))
    f = tree.func("tools.jobs", "fix_deprecated")
    renames = [c for c in fn_calls(f.node) if tail(c) in ("rename", "symlink_to", "replace") and any(k in src(c) for k in (".done", "name}.", "scriptname"))]
    chk.require(not named or bool(renames), chk.fkey(f, "marker files keep the former task name"),
                "job files are named after the task (`Job.name` = last component of the type identifier) and fix_deprecated links / moves the folder only: after deprecating a *task* class "
                "the resubmitted job finds the folder but not its success marker, and runs again", chk.loc(f.module, f.node))



def r7_repaired_jobs_are_not_orphans(chk: Check):
    """What the repair made reachable through a link must stay: `orphans` treats a folder as referenced when an index entry resolves to it
    (= C16.R5 link resolution)"""
    from .c16 import orphans_resolve_links

    orphans_resolve_links(chk)

RULES = [
    ("R1", "identifier swap: deprecate() saves the former identifier and stores its single parent's current identifier as a plain attribute; hash and job path read it; more than one base raises", r1_identifier_swap),
    ("R2", "the repair never deletes job data: unlink only under is_symlink() of the same path, no rmtree/shutil, rename only under cleanup with a free target, params.json replaced through a temporary file", r2_never_deletes),
    ("R3", "link / move decision table over all 256 assignments of its atoms: link (or rewrite + move with cleanup) iff identifier differs, --fix and the new location is free; dangling link removed first", r3_link_move_table),
    ("R4", "the recomputed identifier is the one a resubmission computes: init tasks, pre-tasks, task and meta are restored by the loader (= C12.R1, C12.R3)", r4_recomputed_identifier),
    ("R5", "with --cleanup, all former links are removed in a completed pass before any new location is tested", r5_cleanup_order),
    ("R6", "marker files of a repaired job (finding kept in known_findings.json): named after the task, not renamed by the repair", r6_marker_names_follow),
    ("R7", "jobs made reachable by the repair are not orphans: index entries and stored folders are compared fully resolved (= C16.R5)", r7_repaired_jobs_are_not_orphans),
]
