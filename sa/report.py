"""Rule registry, verdict bookkeeping, evidence and replay files, known-finding matching."""

from __future__ import annotations

import json
import os
import sys
import time
import traceback
from pathlib import Path
from typing import Callable, Dict, List, Optional

from .loader import Tree, Undecided, Func, Module

VERIF = Path(__file__).resolve().parent.parent
EVIDENCE_DIR = Path(os.environ.get("VERIF_EVIDENCE_DIR", VERIF / "evidence"))
KNOWN_FILE = VERIF / "known_findings.json"

TRUSTED_BASE = [
    "CPython ast parser and ast.unparse",
    "the checker itself (/verif/sa): CFG construction, dominators, reaching definitions, path walker",
    "semantics of fasteners / psutil / watchdog / pyparsing / arpeggio / asyncio as modelled in DESIGN.md",
]


class Finding:
    def __init__(self, rule, key, msg, loc, detail=None):
        self.rule = rule
        self.key = key
        self.msg = msg
        self.loc = loc
        self.detail = detail or {}

    def asdict(self):
        return {"rule": self.rule, "key": self.key, "message": self.msg, "location": self.loc, "detail": self.detail}


class Check:
    def __init__(self, pid: str, tier: str = "quick", seed: int = 0, tree: Optional[Tree] = None,
                 only_rules: Optional[List[str]] = None, quiet=False):
        self.pid = pid
        self.tier = tier
        self.seed = seed
        self.t0 = time.time()
        self._tree = tree
        self.only_rules = only_rules
        self.quiet = quiet
        self.rules: Dict[str, str] = {}
        self.instances: List[dict] = []
        self.findings: List[Finding] = []
        self.undecided: List[dict] = []
        self.notes: List[dict] = []
        self.counters: Dict[str, int] = {}
        self.assumptions: List[str] = []
        self.current_rule: Optional[str] = None
        self.exhaustive = True

    # ---- tree
    @property
    def tree(self) -> Tree:
        if self._tree is None:
            self._tree = Tree()
        return self._tree

    @property
    def thorough(self) -> bool:
        return self.tier == "thorough"

    # ---- recording
    def count(self, name: str, n: int = 1):
        self.counters[name] = self.counters.get(name, 0) + n

    def ok(self, construct: str, loc: str = "", note: str = "", rule: Optional[str] = None):
        self.instances.append(
            {"rule": rule or self.current_rule, "construct": construct, "location": loc, "verdict": "HOLDS", "note": note}
        )

    def violation(self, key: str, msg: str, loc: str = "", detail=None, rule: Optional[str] = None):
        r = rule or self.current_rule
        self.instances.append({"rule": r, "construct": key, "location": loc, "verdict": "VIOLATED", "note": msg})
        # one finding per (rule, key)
        for f in self.findings:
            if f.rule == r and f.key == key:
                return
        self.findings.append(Finding(r, key, msg, loc, detail))

    def undecide(self, msg: str, rule: Optional[str] = None):
        r = rule or self.current_rule
        self.undecided.append({"rule": r, "message": msg})
        self.instances.append({"rule": r, "construct": msg, "location": "", "verdict": "UNDECIDED", "note": ""})

    def note(self, msg: str, loc: str = "", rule: Optional[str] = None):
        self.notes.append({"rule": rule or self.current_rule, "message": msg, "location": loc})

    def require(self, cond: bool, key: str, msg: str, loc: str = "", okmsg: Optional[str] = None, detail=None):
        if cond:
            self.ok(key, loc, okmsg or "")
        else:
            self.violation(key, msg, loc, detail)
        return cond

    def min_instances(self, n: int, minimum: int, what: str):
        """A rule that matches fewer instances than confirmed by hand is UNDECIDED, never a pass"""
        if n < minimum:
            self.undecide(f"{what}: {n} instance(s) found, at least {minimum} expected (anchor moved or unmodelled shape)")
            return False
        return True

    # ---- helpers for keys / locations
    def fkey(self, f: Func, what: str) -> str:
        return f"{f.module.name}:{f.qual}:{what}"

    def loc(self, mod: Module, node) -> str:
        return self.tree.loc(mod, node)

    # ---- running
    def run(self, rules):
        for rid, text, fn in rules:
            full = f"{self.pid}.{rid}"
            if self.only_rules and rid not in self.only_rules and full not in self.only_rules:
                continue
            self.rules[full] = text
            self.current_rule = full
            before = len(self.instances)
            try:
                fn(self)
            except Undecided as e:
                self.undecide(str(e))
            except Exception as e:  # internal error: never a pass, never a violation
                tb = traceback.format_exc(limit=6)
                self.undecide(f"internal error in rule: {type(e).__name__}: {e}\n{tb}")
            if len(self.instances) == before:
                self.undecide("rule produced no instance (vacuous)")
        self.current_rule = None

    # ---- finishing
    def finish(self, write=True) -> int:
        known = load_known()
        new, old = [], []
        for f in self.findings:
            k = match_known(known, self.pid, f)
            (old if k else new).append((f, k))
        out = sys.stdout
        wall = time.time() - self.t0
        if not self.quiet:
            print(f"== {self.pid} tier={self.tier} rules={len(self.rules)} instances={len(self.instances)} "
                  f"holds={sum(1 for i in self.instances if i['verdict'] == 'HOLDS')} "
                  f"violations={len(self.findings)} undecided={len(self.undecided)} wall={wall:.2f}s", file=out)
            for nrec in self.notes:
                print(f"NOTE {nrec['rule']} {nrec['location']} {nrec['message']}", file=out)
        for f, k in old:
            print(f"KNOWN-FINDING: property={self.pid} rule={f.rule} {f.loc} {f.key} -- {f.msg}", file=out)
        replay_paths = []
        if write:
            EVIDENCE_DIR.mkdir(parents=True, exist_ok=True)
        for i, (f, _) in enumerate(new):
            rp = EVIDENCE_DIR / "replay" / f"{self.pid}-{i}.json"
            if write:
                rp.parent.mkdir(parents=True, exist_ok=True)
                rp.write_text(json.dumps({"property": self.pid, "tier": self.tier, **f.asdict()}, indent=1))
            replay_paths.append(str(rp))
            print(f"VIOLATION property={self.pid} replay={rp}", file=out)
            print(f"  rule={f.rule} at {f.loc}\n  construct={f.key}\n  {f.msg}", file=out)
        for u in self.undecided:
            print(f"ANALYSIS-ERROR property={self.pid} rule={u['rule']} {u['message']}", file=out)
        if write:
            self.write_evidence(wall, new, old)
        if new:
            return 1
        if self.undecided:
            return 2
        return 0

    def write_evidence(self, wall, new, old):
        holds = [i for i in self.instances if i["verdict"] == "HOLDS"]
        distinct = {(i["rule"], i["construct"], i["location"]) for i in self.instances if i["construct"]}
        samples = []
        seen_rules = set()
        for i in self.instances:
            if i["rule"] not in seen_rules or i["verdict"] != "HOLDS":
                samples.append(i)
                seen_rules.add(i["rule"])
        samples = samples[:60]
        ev = {
            "property_id": self.pid,
            "tier": self.tier,
            "seed": self.seed,
            "level": "other",
            "coverage": {
                "explanation": (
                    "Static analysis of /repo/src/experimaestro (parsed from the working tree on this run, nothing "
                    "executed). Each rule instance is an obligation about the shape of the program (dominance on the "
                    "statement CFG, who-may-call/write site tables, decision tables enumerated over all assignments "
                    "of their atoms, writer/reader table agreement); an obligation is discharged when the rule holds "
                    "at that construct. Only the structural, necessary-condition clauses listed under 'rules' are "
                    "decided, not the run-time behaviour itself."
                ),
                "rules": self.rules,
                "evaluations": len(self.instances),
                "distinct_nontrivial": len(distinct),
                "rule": "one evaluation per rule instance (anchored construct x obligation); distinct = distinct "
                        "(rule, construct, location) triples with a non-empty construct",
                "obligations": len(self.instances),
                "discharged": len(holds),
                "violated": len(self.findings),
                "known_findings_rederived": [f.asdict() for f, _ in old],
                "undecided": self.undecided,
                "samples": samples,
                "counters": self.counters,
                "modules_parsed": len(self.tree.modules) if self._tree is not None else 0,
                "functions_indexed": len(self.tree.funcs) if self._tree is not None else 0,
                "exhaustive": bool(self.exhaustive and not self.undecided),
                "checker_cmd": f"./vf check {self.pid} --tier {self.tier}",
                "trusted_base": TRUSTED_BASE,
                "notes": self.notes,
            },
            "assumptions": self.assumptions,
            "wall_s": round(wall, 3),
            "violations": len(new),
        }
        (EVIDENCE_DIR / f"{self.pid}.json").write_text(json.dumps(ev, indent=1, default=str))


def load_known():
    if KNOWN_FILE.exists():
        return json.loads(KNOWN_FILE.read_text())
    return {"known": [], "fixed": []}


def match_known(known, pid, f: Finding):
    for k in known.get("known", []):
        if k.get("property") == pid and k.get("rule") == f.rule and k.get("key") == f.key:
            return k
    return None
