"""Shared analyses for the scheduler properties (C04-C07): JobState folding, state-test
refinement, may-set typestate over `Job.state` with await-atomicity (DESIGN A5)."""

from __future__ import annotations

import ast
from typing import Dict, FrozenSet, List, Optional, Set, Tuple

from .astq import attr_stores, body_walk, dotted, src, walk_local
from .cfg import CFG, Node
from .dataflow import ReachingDefs
from .loader import Tree, Undecided


class JobStates:
    """Members and predicate methods of scheduler.base.JobState, folded from the tree"""

    def __init__(self, tree: Tree):
        cls = tree.cls("scheduler.base", "JobState")
        self.members: Dict[str, int] = {}
        for s in cls.node.body:
            if isinstance(s, ast.Assign) and len(s.targets) == 1 and isinstance(s.targets[0], ast.Name) and isinstance(s.value, ast.Constant):
                self.members[s.targets[0].id] = s.value.value
        need = {"UNSCHEDULED", "WAITING", "READY", "SCHEDULED", "RUNNING", "DONE", "ERROR"}
        if not need <= set(self.members):
            raise Undecided(f"JobState members changed: {sorted(self.members)}")
        self.all: FrozenSet[str] = frozenset(self.members)
        self.methods: Dict[str, FrozenSet[str]] = {}
        for name, f in cls.methods.items():
            rets = [x for x in body_walk(f.node) if isinstance(x, ast.Return)]
            if len(rets) != 1:
                continue
            try:
                self.methods[name] = frozenset(m for m in self.members if self._eval(rets[0].value, m))
            except ValueError:
                pass
        for k in ("finished", "running", "notstarted"):
            if k not in self.methods:
                raise Undecided(f"JobState.{k} could not be folded")
        self.final = self.methods["finished"]
        if self.final != frozenset({"DONE", "ERROR"}):
            raise Undecided(f"JobState.finished() holds for {sorted(self.final)}, expected DONE and ERROR")

    def _eval(self, e, me: str):
        if isinstance(e, ast.Compare) and len(e.ops) == 1:
            a, b = self._eval(e.left, me), self._eval(e.comparators[0], me)
            op = e.ops[0]
            if isinstance(op, ast.Eq):
                return a == b
            if isinstance(op, ast.NotEq):
                return a != b
            if isinstance(op, ast.LtE):
                return a <= b
            if isinstance(op, ast.Lt):
                return a < b
            if isinstance(op, ast.GtE):
                return a >= b
            if isinstance(op, ast.Gt):
                return a > b
            if isinstance(op, ast.Is):
                return a == b
            if isinstance(op, ast.In):
                return a in b
            raise ValueError
        if isinstance(e, ast.BoolOp):
            vals = [self._eval(v, me) for v in e.values]
            return all(vals) if isinstance(e.op, ast.And) else any(vals)
        if isinstance(e, ast.UnaryOp) and isinstance(e.op, ast.Not):
            return not self._eval(e.operand, me)
        if isinstance(e, (ast.Tuple, ast.List, ast.Set)):
            return [self._eval(x, me) for x in e.elts]
        d = dotted(e)
        if d == "self.value":
            return self.members[me]
        if d == "self":
            return ("M", me)
        if d and d.startswith("JobState."):
            parts = d.split(".")
            if parts[1] in self.members:
                return self.members[parts[1]] if parts[-1] == "value" else ("M", parts[1])
        if isinstance(e, ast.Constant):
            return e.value
        raise ValueError

    def const(self, e) -> Optional[str]:
        d = dotted(e)
        if d and d.startswith("JobState.") and d.split(".")[1] in self.members and d.count(".") == 1:
            return d.split(".")[1]
        return None

    def test_set(self, e, base: str) -> Optional[FrozenSet[str]]:
        """Set of states for which the atomic test `e` on `<base>.state` is true, or None"""
        st = f"{base}.state"
        if isinstance(e, ast.Compare) and len(e.ops) == 1:
            l, r = e.left, e.comparators[0]
            op = e.ops[0]
            for a, b in ((l, r), (r, l)):
                if dotted(a) == st:
                    c = self.const(b)
                    if c is not None and isinstance(op, (ast.Eq, ast.Is)):
                        return frozenset({c})
                    if c is not None and isinstance(op, (ast.NotEq, ast.IsNot)):
                        return self.all - {c}
                    if isinstance(op, (ast.In, ast.NotIn)) and isinstance(b, (ast.Tuple, ast.List, ast.Set)) and a is l:
                        cs = [self.const(x) for x in b.elts]
                        if None not in cs:
                            s = frozenset(cs)
                            return s if isinstance(op, ast.In) else self.all - s
        if isinstance(e, ast.Call) and isinstance(e.func, ast.Attribute) and dotted(e.func.value) == st and not e.args:
            if e.func.attr in self.methods:
                return self.methods[e.func.attr]
        if dotted(e) == f"{base}.ready":
            return frozenset({"READY"})
        return None


def state_store_sites(tree: Tree):
    """Every store to `.state` whose stored value is (or may be) a JobState: (func, target, value, stmt)"""
    js = None
    out = []
    for f in tree.nontest_funcs():
        for t, v, s in attr_stores(f.node):
            if t.attr != "state":
                continue
            txt = src(v) if v is not None else ""
            recv_job = False
            if f.cls is not None and f.cls.qual not in ("Scheduler", "Job", "CommandLineJob") and dotted(t.value) == "self" and not any(
                    (dotted(x) or "").startswith("JobState.") for x in ast.walk(v)):
                continue  # `.state` of another class (SlurmJobState, services)
            if any((dotted(x) or "").startswith("JobState.") and (dotted(x) or "").count(".") == 1 for x in ast.walk(v)):
                recv_job = True
            elif f.module.name in ("scheduler.base", "commandline") and dotted(t.value) in ("job", "self") and f.cls is not None and (
                    f.cls.qual in ("Scheduler", "Job", "CommandLineJob")):
                recv_job = True
            if recv_job:
                out.append((f, t, v, s))
    return out


def value_states(js: JobStates, v, at: Node, rd: ReachingDefs, retsets: Dict[str, FrozenSet[str]], depth=3) -> FrozenSet[str]:
    """May-set of JobState values of expression `v` ('?' = not a JobState constant / unknown)"""
    c = js.const(v)
    if c is not None:
        return frozenset({c})
    if isinstance(v, ast.IfExp):
        return value_states(js, v.body, at, rd, retsets, depth) | value_states(js, v.orelse, at, rd, retsets, depth)
    if isinstance(v, ast.Constant) and v.value is None:
        return frozenset({"None"})
    if isinstance(v, ast.Await):
        return value_states(js, v.value, at, rd, retsets, depth)
    if isinstance(v, ast.Call):
        d = dotted(v.func) or ""
        name = d.split(".")[-1]
        if name in retsets:
            return retsets[name]
        return frozenset({"?"})
    if isinstance(v, ast.Name) and depth > 0:
        # a name known (by a dominating isinstance test) to be a JobState
        for t, pol in rd.cfg.guards(at):
            if t.kind == "test" and pol is True and isinstance(t.ast, ast.Call) and dotted(t.ast.func) == "isinstance" and len(t.ast.args) == 2 \
                    and dotted(t.ast.args[0]) == v.id and dotted(t.ast.args[1]) == "JobState":
                return js.all
        ds = rd.defs_at(v.id, at)
        if not ds:
            return frozenset({"?"})
        out: Set[str] = set()
        for d in ds:
            if d.kind in ("assign", "walrus") and d.value is not None:
                out |= value_states(js, d.value, d.node, rd, retsets, depth - 1)
            else:
                out.add("?")
        return frozenset(out)
    return frozenset({"?"})


def return_set(js: JobStates, fn) -> FrozenSet[str]:
    """May-set of values returned by a function (JobState names, 'None', '?')"""
    g = CFG(fn)
    rd = ReachingDefs(g)
    out: Set[str] = set()
    for n in g.live:
        if n.kind == "stmt" and isinstance(n.ast, ast.Return):
            if n.ast.value is None:
                out.add("None")
            else:
                out |= value_states(js, n.ast.value, n, rd, {})
    # falling off the end
    for (p, l) in g.exit.pred:
        if not (p.kind == "stmt" and isinstance(p.ast, ast.Return)) and p.kind != "with_exit":
            out.add("None")
        elif p.kind == "with_exit" and not p.extra.get("jump"):
            out.add("None")
    return frozenset(out)


class Typestate:
    """Forward may-analysis of `<base>.state` over one function.

    S[n] = set of states the field may hold when n starts.  Transfer:
      * store of a value -> its value set ('?' -> all states)
      * branch on a recognised state test -> intersection
      * effect point (await, re-entrant call) once published -> closure under `effects`
      * awaited / called callee with a summary -> closure under that summary
    """

    def __init__(self, js: JobStates, g: CFG, rd: ReachingDefs, base: str, entry: FrozenSet[str],
                 effects: Set[Tuple[str, str]], publish_pred, reentrant_pred, callee_effects: Dict[str, Set[Tuple[str, str]]],
                 retsets: Dict[str, FrozenSet[str]], published_at_entry=False, var_prune=True):
        self.js, self.g, self.rd, self.base = js, g, rd, base
        self.effects = effects
        self.publish_pred = publish_pred
        self.reentrant_pred = reentrant_pred
        self.callee_effects = callee_effects
        self.retsets = retsets
        # state: (frozenset states, published bool) per node -> we keep two maps
        self.IN: Dict[int, FrozenSet[str]] = {}
        self.PUB: Dict[int, bool] = {}
        self.dead_edges: Set[Tuple[int, int]] = set()
        self._run(entry, published_at_entry, var_prune)

    def _closure(self, s: FrozenSet[str], eff) -> FrozenSet[str]:
        out = set(s)
        changed = True
        while changed:
            changed = False
            for a, b in eff:
                if a in out and b not in out:
                    out.add(b)
                    changed = True
        return frozenset(out)

    def stores(self, n: Node):
        if n.kind != "stmt":
            return []
        return [(t, v) for (t, v, s) in attr_stores(n.ast) if t.attr == "state" and dotted(t.value) == self.base] if isinstance(
            n.ast, (ast.Assign, ast.AugAssign, ast.AnnAssign)) else []

    def out_of(self, n: Node, s: FrozenSet[str], pub: bool):
        js = self.js
        # effect points first (the await happens while evaluating the node, before its store)
        if pub and (n.has_await() or any(self.reentrant_pred(c) for c in n.calls())):
            s = self._closure(s, self.effects)
        for c in n.calls():
            d = (dotted(c.func) or "").split(".")[-1]
            if d in self.callee_effects:
                s = self._closure(s, self.callee_effects[d])
        for t, v in self.stores(n):
            vs = value_states(js, v, n, self.rd, self.retsets)
            vs = frozenset(x for x in vs if x != "None")
            if "?" in vs:
                vs = js.all
            s = vs
        if any(self.publish_pred(c) for c in n.calls()):
            pub = True
        return s, pub

    def _run(self, entry, pub0, var_prune):
        g = self.g
        self.IN[g.entry.id] = entry
        self.PUB[g.entry.id] = pub0
        work = [g.entry]
        while work:
            n = work.pop()
            s, pub = self.IN[n.id], self.PUB[n.id]
            s_out, pub_out = self.out_of(n, s, pub)
            for (m, l) in n.succ:
                s2 = s_out
                if n.kind == "test" and l in (True, False):
                    ts = self.js.test_set(n.ast, self.base)
                    if ts is not None:
                        s2 = s_out & (ts if l else self.js.all - ts)
                    elif var_prune:
                        # local variable compared with None: prune by its value set
                        vs = self._var_none_test(n)
                        if vs is not None:
                            can_true, can_false = vs
                            if (l is True and not can_true) or (l is False and not can_false):
                                self.dead_edges.add((n.id, m.id))
                                continue
                    if not s2:
                        self.dead_edges.add((n.id, m.id))
                        continue
                old = self.IN.get(m.id)
                oldp = self.PUB.get(m.id, False)
                new = s2 if old is None else (old | s2)
                newp = oldp or pub_out
                if old is None or new != old or newp != oldp:
                    self.IN[m.id] = new
                    self.PUB[m.id] = newp
                    work.append(m)

    def _var_none_test(self, n: Node):
        e = n.ast
        if isinstance(e, ast.Compare) and len(e.ops) == 1 and isinstance(e.left, ast.Name) and isinstance(e.comparators[0], ast.Constant) \
                and e.comparators[0].value is None and isinstance(e.ops[0], (ast.Is, ast.IsNot)):
            vs = value_states(self.js, e.left, n, self.rd, self.retsets)
            if "?" in vs:
                return None
            is_none_possible = "None" in vs
            notnone_possible = bool(vs - {"None"})
            if isinstance(e.ops[0], ast.Is):
                return (is_none_possible, notnone_possible)
            return (notnone_possible, is_none_possible)
        return None

    def at(self, n: Node) -> Optional[FrozenSet[str]]:
        return self.IN.get(n.id)


def writer_summary(js: JobStates, tree: Tree, func) -> Tuple[Set[Tuple[str, str]], list]:
    """Summary of a writer that may run at any time (pre-state unknown): for each store, the
    pre-states allowed by its dominating guards -> stored value.  Returns (transitions, sites)"""
    g = CFG(func.node)
    rd = ReachingDefs(g)
    base = "self"
    ts = Typestate(js, g, rd, base, js.all, set(), lambda c: False, lambda c: False, {}, {})
    trans: Set[Tuple[str, str]] = set()
    sites = []
    for n in g.live:
        for t, v in ts.stores(n):
            pre = ts.at(n) or frozenset()
            vs = value_states(js, v, n, rd, {})
            if "?" in vs:
                vs = js.all
            for a in pre:
                for b in vs:
                    if a != b:
                        trans.add((a, b))
            sites.append((n, t, v, pre, vs))
    return trans, sites


def lock_phase(tree: Tree, g: CFG, owner):
    """Where `aio_start` takes the dependency locks: inline loop(s) over job.dependencies that
    call `<dep>.lock().acquire()`, or (1-level helper) calls of a method of the same class whose
    body does.  Returns (done_nodes, acquire_sites, helper) where done_nodes are CFG nodes of `g`
    reached exactly when the phase has completed, acquire_sites are (func, call) pairs."""
    from .astq import fn_calls
    from .dataflow import ReachingDefs

    rd = ReachingDefs(g)

    def is_acq(c):
        return src(c).endswith(".lock().acquire()")

    def acq_calls(graph, rdx):
        """calls `<x>.acquire()` whose receiver is (an alias of) `<dep>.lock()`"""
        out = []
        for n, c in graph.call_nodes(lambda c: isinstance(c.func, ast.Attribute) and c.func.attr == "acquire"):
            if is_acq(c) or rdx.canon(c.func.value, n).endswith(".lock()"):
                out.append((n, c))
        return out

    inline = acq_calls(g, rd)
    def inside(lp, c):
        # in the body, or in the header (a comprehension that acquires everything before the loop body runs)
        return any(x is c for s2 in lp.ast.body for x in ast.walk(s2)) or any(x is c for x in ast.walk(lp.ast.iter))

    loops = [lp for lp in g.live if lp.kind == "for" and any(inside(lp, c) for _, c in inline)]
    if loops:
        done = [b for b in g.live if b.kind == "branch" and b.extra["test"] in loops and b.extra["polarity"] == "done"]
        sites = [(owner, c) for lp in loops for _, c in inline if inside(lp, c)]
        return done, sites, None, loops
    if owner.cls is None:
        return [], [], None, []
    for name, m in owner.cls.methods.items():
        if m is owner:
            continue
        acq = [c for c in fn_calls(m.node) if is_acq(c)]
        if acq:
            calls = [n for n, c in g.call_nodes(lambda c, name=name: dotted(c.func) == f"self.{name}")]
            if calls:
                return calls, [(m, c) for c in acq], m, []
    return [], [], None, []
