"""Seeded changes and the tree they were written for.

A seed is a patch against the /repo tree of the day it was made.  Later `fix:` commits may touch the same lines; the seed is then applied to
the tree it was written for (taken from /repo's own history with `git archive`, into a scratch directory that the caller removes), and only
findings that the *unpatched* old tree does not already have count for it -- that tree has the defects repaired since."""

from __future__ import annotations

import hashlib
import json
import os
import shutil
import subprocess
import tempfile
from pathlib import Path
from typing import Optional, Set, Tuple

VERIF = Path(__file__).resolve().parent.parent
FALLBACK_BASES = ["67fed27", "1a7c394", "f4e073b", "42dd91b", "9c75944"]


def _apply(patch: str, root: Path) -> bool:
    r = subprocess.run(["patch", "-p1", "-s", "--no-backup-if-mismatch", "-i", str(patch)], cwd=root, capture_output=True, text=True)
    return r.returncode == 0


def _extract(repo: Path, commit: str, dest: Path) -> bool:
    dest.mkdir(parents=True, exist_ok=True)
    r = subprocess.run(f"git -C {repo} archive {commit} src/experimaestro | tar -x -C {dest}", shell=True, capture_output=True, text=True)
    return r.returncode == 0 and (dest / "src" / "experimaestro").is_dir()


def materialise(patch: str, tmp: Path, repo_root: Path, preferred: Optional[str] = None) -> Tuple[bool, Optional[str]]:
    """Build `tmp/src/experimaestro` = (tree the patch applies to) + patch.  Returns (applied?, base commit or None for the current tree)"""
    src = tmp / "src"
    shutil.copytree(Path(repo_root) / "src" / "experimaestro", src / "experimaestro", ignore=shutil.ignore_patterns("__pycache__", "node_modules"))
    if _apply(patch, tmp):
        return True, None
    cands = []
    if preferred:
        cands.append(preferred.split()[0])
    cands += [c for c in FALLBACK_BASES if c not in cands]
    for commit in cands:
        shutil.rmtree(src, ignore_errors=True)
        if not _extract(Path(repo_root), commit, tmp):
            continue
        if _apply(patch, tmp):
            return True, commit
    return False, None


def _digest() -> str:
    h = hashlib.sha1()
    for f in sorted(map(str, (VERIF / "sa").rglob("*.py"))) + sorted(map(str, (VERIF / "spec").glob("*.json"))):
        h.update(Path(f).read_bytes())
    return h.hexdigest()[:16]


def baseline_keys(commit: str, pid: str, repo_root: Path) -> Set[str]:
    """findings of check `pid` on the unpatched tree of `commit` (cached in the scratch area, keyed by the digest of the rules)"""
    cache = Path(tempfile.gettempdir()) / f"vf-base-{commit}" / f"baseline-{pid}-{_digest()}.json"
    if cache.exists():
        try:
            return set(json.loads(cache.read_text()))
        except Exception:
            pass
    from .cli import run_check
    from .loader import Tree
    import contextlib
    import io

    tmp = Path(tempfile.mkdtemp(prefix="vf-base-"))
    try:
        if not _extract(Path(repo_root), commit, tmp):
            return set()
        old = os.environ.get("VERIF_REPO")
        os.environ["VERIF_REPO"] = str(tmp)
        try:
            with contextlib.redirect_stdout(io.StringIO()):
                chk, code = run_check(pid, "quick", 0, write=False, tree=Tree(tmp), quiet=True)
        finally:
            if old is None:
                os.environ.pop("VERIF_REPO", None)
            else:
                os.environ["VERIF_REPO"] = old
        keys = {f"{f.rule} {f.key}" for f in chk.findings} | {u["rule"] + " UNDECIDED " + u["message"][:100] for u in chk.undecided}
        try:
            cache.parent.mkdir(parents=True, exist_ok=True)
            cache.write_text(json.dumps(sorted(keys)))
        except Exception:
            pass
        return keys
    finally:
        shutil.rmtree(tmp, ignore_errors=True)
