"""Self-test: seeded single-instance breaks (the patches kept under /verif/seeded) are applied to a
scratch copy of the *current* /repo tree; the property's rules must fire there and be silent on
the untouched copy.  Results go to evidence/selftest-<id>.json; they never change the exit status
of a check (which only reflects the property on the current tree)."""

from __future__ import annotations

import json
import os
import shutil
import subprocess
import tempfile
import time
from concurrent.futures import ProcessPoolExecutor
from pathlib import Path

from .loader import repo_root, Tree

VERIF = Path(__file__).resolve().parent.parent


def _seeds():
    out = []
    d = VERIF / "seeded"
    if not d.is_dir():
        return out
    for s in sorted(d.iterdir()):
        meta = s / "meta.json"
        patch = s / "patch.diff"
        if meta.exists() and patch.exists():
            m = json.loads(meta.read_text())
            out.append((s.name, m, patch))
    return out


def _run_one(args):
    name, pids, patch, src_root, base_hint = args
    from .cli import run_check
    from .seedbase import materialise, baseline_keys

    tmp = Path(tempfile.mkdtemp(prefix="vf-selftest-"))
    try:
        applied, base = materialise(patch, tmp, Path(src_root), base_hint)
        if not applied:
            return name, "skipped", {}, "patch applies neither to the current tree nor to the trees of /repo's history it was written for"
        res = {}
        os.environ["VERIF_REPO"] = str(tmp)
        for pid in pids:
            import io, contextlib

            buf = io.StringIO()
            with contextlib.redirect_stdout(buf):
                chk, code = run_check(pid, "quick", 0, write=False, tree=Tree(tmp), quiet=True)
            keys = [f"{f.rule} {f.key}" for f in chk.findings]
            if base is not None:
                # the seed was written for an earlier tree: what that tree already shows (defects repaired since) does not count
                os.environ["VERIF_REPO"] = src_root
                known = baseline_keys(base, pid, Path(src_root))
                os.environ["VERIF_REPO"] = str(tmp)
                keys = [k for k in keys if k not in known]
                code = 1 if keys else (2 if code == 2 else 0)
            res[pid] = {"exit": code, "findings": keys[:6], **({"applied_to": base} if base else {})}
        return name, "ran", res, ""
    finally:
        shutil.rmtree(tmp, ignore_errors=True)


def run_selftest(pids, jobs=16, verbose=False, record=False):
    t0 = time.time()
    seeds = _seeds()
    work = []
    for name, m, patch in seeds:
        targets = m.get("detected_by_expected") or [m.get("property")]
        if pids and not (set(targets) & set(pids)):
            continue
        work.append((name, [p for p in targets if not pids or p in pids], str(patch), str(repo_root()), m.get("base_commit")))
    results = []
    if work:
        with ProcessPoolExecutor(max_workers=min(jobs, len(work))) as ex:
            results = list(ex.map(_run_one, work))
    killed = skipped = missed = 0
    rows = []
    for name, status, res, err in results:
        if status == "skipped":
            skipped += 1
            rows.append({"seed": name, "status": "skipped (patch does not apply to the current tree)", "detail": err})
            continue
        ok = all(v["exit"] == 1 for v in res.values())
        killed += ok
        missed += (not ok)
        rows.append({"seed": name, "status": "detected" if ok else "MISSED", "checks": res})
        if verbose or not ok:
            print(f"selftest {name}: {'detected' if ok else 'MISSED'} {res}")
    summary = {"seeds_total": len(results), "detected": killed, "missed": missed, "skipped": skipped, "wall_s": round(time.time() - t0, 2), "rows": rows}
    print(f"selftest: {killed}/{len(results)} seeded breaks detected, {missed} missed, {skipped} skipped ({summary['wall_s']}s)")
    if record:
        evd = Path(os.environ.get("VERIF_EVIDENCE_DIR", VERIF / "evidence"))
        evd.mkdir(exist_ok=True)
        for pid in pids or ["all"]:
            (evd / f"selftest-{pid}.json").write_text(json.dumps(summary, indent=1))
    return 0
