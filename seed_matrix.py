#!/usr/bin/env python3
"""Detection matrix: every archived seed x every property's check (scratch copies of /repo's tree)."""
import json, os, shutil, subprocess, sys, tempfile, io, contextlib
from concurrent.futures import ProcessPoolExecutor
from pathlib import Path
sys.path.insert(0, '/verif')
PIDS = [f"C{i:02d}" for i in range(1, 21)]

def one(seed):
    from sa.cli import run_check
    from sa.loader import Tree
    tmp = Path(tempfile.mkdtemp(prefix='vfmx-'))
    try:
        from sa.seedbase import materialise, baseline_keys
        meta = json.load(open(f'/verif/seeded/{seed}/meta.json'))
        applied, base = materialise(f'/verif/seeded/{seed}/patch.diff', tmp, Path('/repo'), meta.get('base_commit'))
        if not applied:
            return seed, None
        os.environ['VERIF_REPO'] = str(tmp)
        tree = Tree(tmp)
        row = {}
        for pid in PIDS:
            buf = io.StringIO()
            with contextlib.redirect_stdout(buf):
                chk, code = run_check(pid, 'quick', 0, write=False, tree=tree, quiet=True)
            if code:
                keys = {f"{f.rule} {f.key}" for f in chk.findings}
                if base is not None:
                    os.environ['VERIF_REPO'] = '/repo'
                    keys -= baseline_keys(base, pid, Path('/repo'))
                    os.environ['VERIF_REPO'] = str(tmp)
                    if not keys and code == 1:
                        continue
                row[pid] = (code, sorted({k.split(' ')[0] for k in keys}) or ['undecided'])
        if base is not None:
            row['_base'] = (0, [base])
        return seed, row
    finally:
        shutil.rmtree(tmp, ignore_errors=True)

seeds = sorted(p.name for p in Path('/verif/seeded').iterdir() if (p / 'patch.diff').exists())
with ProcessPoolExecutor(16) as ex:
    res = dict(ex.map(one, seeds))
out = {}
for s in seeds:
    row = res[s]
    own = json.load(open(f'/verif/seeded/{s}/meta.json'))['property']
    if row is None:
        print(s, 'PATCH DOES NOT APPLY'); continue
    d = {k: v for k, v in row.items() if k != '_base'}
    if '_base' in row:
        s = s  # (applied to the tree it was written for)
    flag = 'OK ' if own in d and d[own][0] == 1 else 'MISS'
    print(flag, s, ('(on ' + row['_base'][1][0] + ') ' if '_base' in row else '') + ' '.join(f"{k}{'!' if v[0]==2 else ''}[{','.join(r.split('.')[-1] for r in v[1])}]" for k, v in d.items()))
    out[s] = {k: {"exit": v[0], "rules": v[1]} for k, v in d.items()}
json.dump(out, open('/verif/seeded/MATRIX.json', 'w'), indent=1)
