#!/bin/sh
# usage: tools_seed.sh <worktree> <patch> <pid> [pid...]   -- apply a seeded patch to a scratch COPY of /repo's tree and run checks against it
wt="$1"; patch="$2"; shift 2
tmp=$(mktemp -d /tmp/vfseed.XXXXXX)
mkdir -p "$tmp/src" && cp -r /repo/src/experimaestro "$tmp/src/" && (cd "$tmp" && patch -p1 -s --no-backup-if-mismatch -i "$patch") || { echo "APPLY FAILED"; rm -rf "$tmp"; exit 3; }
for pid in "$@"; do
  VERIF_REPO="$tmp" /verif/vf check "$pid" --no-write | grep -v '^NOTE' | head -${LINES_MAX:-12}
done
rm -rf "$tmp"
