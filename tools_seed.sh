#!/bin/sh
# usage: tools_seed.sh <worktree> <patch> <pid> [pid...]   -- apply a seeded patch in its scratch worktree and run checks against it
wt="$1"; patch="$2"; shift 2
git -C "$wt" checkout -q -- src && git -C "$wt" apply "$patch" || { echo "APPLY FAILED"; exit 3; }
for pid in "$@"; do
  VERIF_REPO="$wt" /verif/vf check "$pid" --no-write | grep -v '^NOTE' | head -${LINES_MAX:-12}
done
git -C "$wt" checkout -q -- src
